"""Coverage-guided tier: atheris (libFuzzer) drives a sub-check's Hypothesis strategy through
``fuzz_one_input``, with coverage feedback from the instrumented testtools modules.

Child:  python -m vp.fuzz <props module> <sub name> <out json> <instrument,modules> -runs=N -seed=S <corpus dir>
Parent: fuzz_custom(...) -> list of (spec, Case) for Sub(custom=...)."""
import json
import os
import shutil
import subprocess
import sys
import tempfile

from .core import Case, V, VERIF, REPO, bind_tree, guarded
from . import specio


def child(argv):
    modname, subname, out_path, instrument = argv[:4]
    rest = argv[4:]
    sys.path.insert(0, os.path.join(VERIF, ".deps"))
    import atheris
    if REPO not in sys.path[:1]:
        sys.path.insert(0, REPO)
    # instrumentation only takes hold for modules imported inside this block for the first time
    with atheris.instrument_imports(include=instrument.split(",")):
        import importlib
        for m in instrument.split(","):
            importlib.import_module(m)
    bind_tree()
    import importlib
    mod = importlib.import_module(modname)
    sub = [s for s in mod.subchecks("thorough") if s.name == subname][0]
    from hypothesis import given, settings, HealthCheck
    stats = {"execs": 0, "nontrivial": 0}

    @settings(database=None, deadline=None, suppress_health_check=list(HealthCheck))
    @given(sub.strategy)
    def t(spec):
        stats["execs"] += 1
        case = guarded(sub, spec)
        if case.nontrivial:
            stats["nontrivial"] += 1
        if case.violations:
            with open(out_path, "w") as f:
                f.write(specio.dumps({"spec": spec, "buckets": [v.bucket for v in case.violations]}))
            raise AssertionError("violation: %s" % case.violations[0])

    def write_stats():
        with open(out_path + ".stats", "w") as f:
            json.dump(stats, f)
    import atexit
    atexit.register(write_stats)

    def one(data):
        try:
            t.hypothesis.fuzz_one_input(data)
        finally:
            if stats["execs"] % 500 == 0:
                write_stats()
    atheris.Setup([sys.argv[0]] + rest, one)
    atheris.Fuzz()


def fuzz_custom(modname, subname, instrument, runs, procs=8):
    """Returns a Sub.custom callable."""
    def custom(ctx):
        if ctx["tier"] != "thorough":
            return []
        try:
            sys.path.insert(0, os.path.join(VERIF, ".deps"))
            import atheris  # noqa
        except Exception as e:
            return [({"fuzz": "skipped", "reason": "atheris not importable: %r" % (e,)}, Case([], False, ["atheris-missing"]))]
        finally:
            if sys.path[0].endswith(".deps"):
                sys.path.pop(0)
        import importlib
        mod = importlib.import_module(modname)
        sub = [s for s in mod.subchecks("thorough") if s.name == subname][0]
        work = tempfile.mkdtemp(prefix="fuzz-", dir=_work())
        out = []
        try:
            children = []
            for k in range(procs):
                corpus = os.path.join(work, "corpus%d" % k)
                os.makedirs(corpus)
                outp = os.path.join(work, "out%d.json" % k)
                env = dict(os.environ, PYTHONPATH=VERIF + os.pathsep + os.path.join(VERIF, ".deps"), VERIF_REPO=REPO, PYTHONHASHSEED="0")
                cmd = [sys.executable, "-m", "vp.fuzz", modname, subname, outp, instrument,
                       "-runs=%d" % runs, "-seed=%d" % (ctx["seed"] * 100 + k + 1), "-max_len=512", "-artifact_prefix=%s/" % work, corpus]
                children.append((subprocess.Popen(cmd, cwd=VERIF, env=env, stdout=subprocess.DEVNULL, stderr=subprocess.PIPE, text=True), outp, k))
            for p, outp, k in children:
                _, err = p.communicate()
                execs = nt = 0
                if os.path.exists(outp + ".stats"):
                    st = json.load(open(outp + ".stats"))
                    execs, nt = st["execs"], st["nontrivial"]
                if os.path.exists(outp):
                    rec = specio.loads(open(outp).read())
                    out.append((rec["spec"], guarded(sub, rec["spec"])))
                elif p.returncode != 0 and "violation" not in err:
                    out.append(({"fuzz": "child-failed", "k": k, "stderr": err[-400:]}, Case([], False, ["fuzz-child-failed"])))
                out.append(({"fuzz_campaign": k, "sub": subname, "executions": execs, "nontrivial": nt, "runs_requested": runs,
                             "coverage_guided": True, "instrumented": instrument}, Case([], execs > 0, ["fuzz-execs=%d" % execs])))
        finally:
            shutil.rmtree(work, ignore_errors=True)
        return out
    return custom


def _work():
    d = os.path.join(VERIF, ".work")
    os.makedirs(d, exist_ok=True)
    return d


if __name__ == "__main__":
    child(sys.argv[1:])
