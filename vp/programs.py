"""Test-program model (C01, C02, C03, C05): JSON specs of TestCase programs, a reference
interpreter written from the property statements, and a builder onto real testtools.TestCase
subclasses whose stage bodies interpret the spec and write an execution log."""
import dataclasses
import itertools
import re
import sys
import types

from hypothesis import strategies as st

# ----------------------------------------------------------------------------- kinds
FAILURE_KINDS = ("fail", "assertion_sub")
ERROR_KINDS = ("error", "error_key", "error_falsy", "xf_error")
SKIP_KINDS = ("skip", "skip_sub", "skip_empty", "xf_skip", "skip_noargs", "skip_int")
XFAIL_KINDS = ("xfail", "xfail_sub")
UX_KINDS = ("uxsuccess", "ux_sub")
NONEXC_KINDS = ("kbi", "sysexit", "base")
# further non-Exception shapes (C01): exit codes that are falsy / absent, GeneratorExit, and interrupts that
# strike inside a callable handed to a testtools helper (expectFailure, assertRaises)
NONEXC_MORE = ("sysexit0", "sysexit_none", "genexit", "xf_kbi", "ar_kbi", "ar_sysexit")
# (C01; opt-in through the spec only - no generator in this module draws them) exception objects of unusual make:
# a dataclass exception (value equality, hence unhashable), one that is hashable and equal to every other instance
# of its class, and PEP 654 groups (an ExceptionGroup is an ordinary error; a BaseExceptionGroup holding an
# interrupt is not an Exception)
ERROR_SHAPES = ("error_dc", "error_eq", "group")
NONEXC_SHAPES = ("basegroup",)
UNMARKED = ("skip_empty", "skip_noargs", "skip_int", "sysexit0", "sysexit_none", "genexit")   # message carries no MARK-n-
CUSTOM_KINDS = ("customA", "customFail")
SIMPLE_KINDS = FAILURE_KINDS + ERROR_KINDS + SKIP_KINDS + XFAIL_KINDS + UX_KINDS
# (C03; opt-in through the spec only - no generator in this module draws them) the documented entry points called
# rather than imitated (self.skipTest(..), self.fail(..)), and a plain unittest.SkipTest raised in a test whose own
# skipException is an unrelated class (custom_skip): for that test it is an ordinary error
API_KINDS = {"skip_api": "skip", "fail_api": "failure", "raw_skip_error": "error"}


def klass(kind):
    """Semantic class of an exception kind."""
    if kind in FAILURE_KINDS or kind == "forced" or kind == "mismatch":
        return "failure"
    if kind in ERROR_KINDS or kind in ERROR_SHAPES or kind in ("setup_error", "empty_multi", "upcall_error", "restore_error"):
        return "error"
    if kind in SKIP_KINDS:
        return "skip"
    if kind in XFAIL_KINDS:
        return "xfail"
    if kind in UX_KINDS:
        return "uxsuccess"
    if kind in NONEXC_KINDS or kind in NONEXC_MORE or kind in NONEXC_SHAPES:
        return "nonexc"
    if kind in API_KINDS:
        return API_KINDS[kind]
    return "custom"


OUTCOME_OF_CLASS = {"failure": "addFailure", "error": "addError", "skip": "addSkip", "xfail": "addExpectedFailure",
                    "uxsuccess": "addUnexpectedSuccess"}

# ----------------------------------------------------------------------------- generation
DETAIL_NAMES = ["traceback", "traceback-1", "Failed expectation", "Failed expectation-1", "log", "log-1", "détail", "fx", "fx-1", "m",
                "load%", "100%d"]
TEXTS = st.sampled_from(["", "", "", " é☃", " nul\x00byte", " " + "x" * 3000, " two\nlines"])     # appended to the message
RETS = st.sampled_from([None, None, None, "true", "zero", "obj", "gen", "str"])                       # what a stage returns
CHUNKS = st.lists(st.sampled_from([b"", b"a", b"\xff\x00", "é".encode("utf8"), b"two\nlines", b"z" * 5]), max_size=3)


class Gen:
    """Stateful helper used inside one composite draw (unique action ids, raise budget)."""

    def __init__(self, draw, opts):
        self.draw = draw
        self.o = opts
        self.ids = itertools.count(1)
        self.raises = 0
        self.cells = 0
        self.cleanup_ids = []
        self.multi_ids = []
        self.burst_done = False
        self.hot = None          # the (object, attribute) most patch/read actions of this program use

    def nid(self):
        return next(self.ids)

    def kind(self):
        pool = list(SIMPLE_KINDS)
        if self.o.get("nonexc"):
            pool += list(NONEXC_KINDS) * 2
            if self.o.get("nonexc_more"):
                pool += list(NONEXC_MORE)
        if self.o.get("multi"):
            pool += ["multi"] * 4
        k = self.draw(st.sampled_from(pool))
        return k

    def raise_action(self):
        k = self.kind()
        a = {"a": "raise", "i": self.nid(), "kind": k}
        if self.o.get("texts") and k != "multi":
            a["text"] = self.draw(TEXTS)
        if k == "multi":
            if self.multi_ids and self.draw(st.integers(0, 2)) == 0:
                a["kind"] = "again"           # the very same MultipleExceptions instance raised once more
                a["ref"] = self.draw(st.sampled_from(self.multi_ids))
            else:
                a["sub"] = self.multi_subs(1)
                self.multi_ids.append(a["i"])
        self.raises += 1
        return a

    def multi_subs(self, nest):
        pool = ["fail", "assertion_sub", "error", "error_key", "error_falsy", "skip", "skip_sub", "skip_empty"]
        if self.o.get("nonexc"):
            pool += ["kbi", "sysexit", "kbi"]
        if nest:
            pool += ["multi", "multi"]
        subs = []
        for _ in range(self.draw(st.sampled_from([2, 3, 2, 1, 0]))):
            k = self.draw(st.sampled_from(pool))
            if k == "multi":
                subs.append({"kind": "multi", "i": self.nid(), "sub": self.multi_subs(nest - 1)})
            else:
                subs.append({"kind": k, "i": self.nid()})
        return subs

    def actions(self, depth, where):
        o = self.o
        n = self.draw(st.integers(0, 3 if depth == 0 else 2))
        out = []
        for _ in range(n):
            choices = ["log", "log"]
            if depth < o.get("cleanup_depth", 2):
                choices += ["cleanup", "cleanup"]
            if o.get("patch"):
                choices += ["patch", "read"]
            if o.get("fixture") and depth <= 1:
                choices += ["fixture"]
            if o.get("details"):
                choices += ["detail", "detail", "mutate"]
            if o.get("expect"):
                choices += ["expect", "assert"]
            if o.get("force"):
                choices += ["force"]
            if o.get("onexc") and where in ("setUp", "body"):
                choices += ["onexc"]
            c = self.draw(st.sampled_from(choices))
            if c == "cleanup" and self.cleanup_ids and self.draw(st.integers(0, 3)) == 0:
                # register an already registered callable (same function, same arguments) once more
                out.append({"a": "cleanup_dup", "i": self.nid(), "ref": self.draw(st.sampled_from(self.cleanup_ids))})
                continue
            if c == "log":
                out.append({"a": "log", "i": self.nid()})
            elif c == "cleanup" and o.get("bursts") and depth == 0 and not self.burst_done and self.draw(st.integers(0, 30)) == 0:
                # many cleanups at once (a recursive or capped cleanup loop shows only at such sizes)
                self.burst_done = True
                out.append({"a": "cleanup_burst", "i": self.nid(), "n": self.draw(st.sampled_from([40, 1100]))})
            elif c == "cleanup":
                act = {"a": "cleanup", "i": self.nid(), "args": self.draw(st.sampled_from([False, True, True, "fn"])),
                       "body": self.actions(depth + 1, "cleanup") + ([self.raise_action()] if self.draw(st.integers(0, 3)) == 0 else [])}
                if o.get("rets"):
                    act["ret"] = self.draw(RETS)
                self.cleanup_ids.append(act["i"])
                out.append(act)
            elif c == "patch":
                obj, attr = self.target(True)
                out.append({"a": "patch", "i": self.nid(), "obj": obj, "attr": attr, "value": "v%d" % self.nid()})
                if self.draw(st.integers(0, 4)) == 0:
                    # the test itself then assigns to / deletes the attribute it has just patched
                    out.append({"a": "write", "i": self.nid(), "obj": obj, "attr": attr,
                                "value": self.draw(st.sampled_from(["w%d" % self.nid(), "<delete>"]))})
            elif c == "read":
                obj, attr = self.target(False)
                out.append({"a": "read", "i": self.nid(), "obj": obj, "attr": attr})
            elif c == "fixture":
                out.append({"a": "fixture", "i": self.nid(), "spec": self.fixture(1)})
            elif c in ("detail", "expect") and depth == 0 and not self.burst_done and self.draw(st.integers(0, 11)) == 0:
                # a loop attaching the same names a dozen times and more (suffixes reach two digits)
                self.burst_done = True
                names = self.draw(st.lists(st.sampled_from(DETAIL_NAMES), min_size=1, max_size=2, unique=True))
                for _ in range(self.draw(st.integers(11, 14))):
                    if c == "detail":
                        out.append({"a": "detail", "i": self.nid(), "name": names[0], "chunks": [b"a"], "cell": None})
                    else:
                        out.append({"a": "expect", "i": self.nid(), "ok": False, "dnames": names})
            elif c == "detail":
                lazy = None
                if self.draw(st.integers(0, 3)) == 0:
                    lazy = self.cells
                    self.cells += 1
                out.append({"a": "detail", "i": self.nid(), "name": self.draw(st.sampled_from(DETAIL_NAMES)),
                            "chunks": self.draw(CHUNKS), "cell": lazy})
            elif c == "mutate":
                if self.cells:
                    out.append({"a": "mutate", "i": self.nid(), "cell": self.draw(st.integers(0, self.cells - 1)),
                                "data": self.draw(st.sampled_from([b"changed", b"", b"\xfe"]))})
            elif c in ("expect", "assert"):
                ok = self.draw(st.booleans())
                out.append({"a": c, "i": self.nid(), "ok": ok,
                            "dnames": self.draw(st.lists(st.sampled_from(DETAIL_NAMES), max_size=2, unique=True)),
                            "message": self.draw(st.sampled_from(["", "", "note ünï"])), "verbose": self.draw(st.booleans())})
                if c == "assert" and not ok:
                    self.raises += 1
                    break
            elif c == "force":
                out.append({"a": "force", "i": self.nid(), "value": self.draw(st.sampled_from(["True", "True", "1", "yes"]))})
            elif c == "onexc":
                out.append({"a": "onexc", "i": self.nid()})
        return out

    def target(self, patching):
        """(object index, attribute name); two out of three uses go to one 'hot' pair so that the same
        attribute is patched more than once and read in between."""
        if self.hot is None:
            obj = self.draw(st.integers(0, 2))
            self.hot = (obj, self.draw(st.sampled_from(["x", "nonev", "missing"])))
        if self.draw(st.integers(0, 2)) > 0:
            return self.hot
        obj = self.draw(st.integers(0, 2))
        return obj, self.draw(st.sampled_from(["x", "nonev", "missing"]))

    def fixture(self, nest):
        f = {"i": self.nid(), "setup_fail": self.draw(st.integers(0, 4)) == 0, "cleanup_fail": self.draw(st.integers(0, 4)) == 0,
             "details": {}, "nested": None, "details_fail": nest == 1 and self.draw(st.integers(0, 7)) == 0,
             "live": self.draw(st.booleans())}
        if self.o.get("details"):
            for name in self.draw(st.lists(st.sampled_from(DETAIL_NAMES), max_size=2, unique=True)):
                f["details"][name] = self.draw(CHUNKS)
        if nest and self.draw(st.integers(0, 2)) == 0:
            f["nested"] = self.fixture(nest - 1)
        if f["setup_fail"] or f["nested"] is not None:
            f["details_fail"] = False       # the fixtures library itself calls getDetails() while unwinding a failed setUp
        if self.o.get("fixture_kbi") and nest == 1 and f["nested"] is None and self.draw(st.integers(0, 7)) == 0:
            # the fixture's _setUp is interrupted: the fixtures library cleans the fixture up and lets the
            # KeyboardInterrupt through bare, which takes useFixture's second except arm
            f["setup_fail"] = "kbi"
            f["details_fail"] = False
        return f

    def stage(self, where, p_raise):
        acts = self.actions(0, where)
        if self.draw(st.integers(0, 9)) < p_raise:
            acts.append(self.raise_action())
        if self.o.get("per_run"):
            for a in acts:
                # something that happens only in the first / only in a later run of the same instance
                # (expectThat / force_failure are left out: force_failure is an attribute the test sets on itself and
                # testtools does not reset it between runs)
                if a["a"] in ("log", "raise", "cleanup") and "'expect'" not in repr(a) and "'force'" not in repr(a) \
                        and self.draw(st.integers(0, 9)) == 0:
                    a["runs"] = self.draw(st.sampled_from([[0], [1], [1, 2]]))
        return acts


@st.composite
def programs(draw, **opts):
    g = Gen(draw, opts)
    decor = draw(st.sampled_from(["none"] * 22 + ["skip_method", "skip_class", "skipIf_true", "skipIf_false", "skipUnless_true", "skipUnless_false",
                                  "expectedFailure", "expectedFailure", "skip_method_empty", "skipIf_true_empty",
                                  "stdlib_skip_method", "stdlib_skipIf_true", "stdlib_skip_class"])) \
        if opts.get("decor") else "none"
    p = opts.get("p_raise", 3)
    prog = {"decor": decor,
            "setUp_pre": g.stage("setUp", 1), "setUp_post": g.stage("setUp", 1) if True else [],
            "body": g.stage("body", p), "tearDown_pre": g.stage("tearDown", 1), "tearDown_post": g.stage("tearDown", p - 1),
            "handlers": [], "handlers_when": "init"}
    if prog["setUp_pre"] and prog["setUp_pre"][-1]["a"] == "raise":
        prog["setUp_post"] = []
    if g.multi_ids and draw(st.integers(0, 2)) == 0:
        # the very same MultipleExceptions instance is raised once more by something that runs later
        # (tearDown, or a cleanup registered earlier)
        spots = [prog["tearDown_post"]] + [a["body"] for st_ in ("setUp_pre", "setUp_post", "body") for a in prog[st_] if a["a"] == "cleanup"]
        spot = draw(st.sampled_from(spots))
        if not (spot and spot[-1]["a"] == "raise"):
            spot.append({"a": "raise", "i": g.nid(), "kind": "again", "ref": draw(st.sampled_from(g.multi_ids))})
            g.raises += 1
    if decor == "expectedFailure":
        # @unittest.expectedFailure wraps the test method only: keep its body simple
        k = draw(st.sampled_from([None, "fail", "error", "skip"] + (["kbi", "sysexit", "base"] if opts.get("nonexc") else [])))
        prog["body"] = [{"a": "log", "i": g.nid()}] + ([{"a": "raise", "i": g.nid(), "kind": k}] if k else [])
    if opts.get("custom") and g.raises == 0:
        # a single-exception program with user-inserted handlers (precedence clause of C03)
        kind = draw(st.sampled_from(CUSTOM_KINDS + ("fail", "skip", "error")))
        stage = draw(st.sampled_from(["setUp_post", "body", "tearDown_post", "cleanup"]))
        act = {"a": "raise", "i": g.nid(), "kind": kind}
        if stage == "cleanup":
            prog["body"].append({"a": "cleanup", "i": g.nid(), "args": False, "body": [act]})
        else:
            prog[stage].append(act)
        hs = []
        for cls in draw(st.lists(st.sampled_from(["CustomA", "CustomFail", "AssertionError", "Exception", "SkipTest"]), min_size=1, max_size=2, unique=True)):
            hs.append({"cls": cls, "to": draw(st.sampled_from(["addSkip", "addError", "addFailure", "addSuccess", "addExpectedFailure"])),
                       "pos": draw(st.integers(0, 5))})
        prog["handlers"] = hs
        # when the user inserts the handlers: before run(), first thing in setUp, or first thing in the test method
        prog["handlers_when"] = draw(st.sampled_from(["init", "setUp"] + (["body"] if stage != "setUp_post" else [])))
    elif opts.get("skip_handlers") and g.raises > 0 and draw(st.integers(0, 2)) == 0:
        # a user handler for the skip class in a program that raises several things: it may re-map the
        # skip, it must not let the skip hide a failure or an error raised by another stage
        prog["handlers"] = [{"cls": "SkipTest", "to": draw(st.sampled_from(["addSkip", "addSuccess", "addExpectedFailure"])),
                             "pos": draw(st.integers(0, 5))}]
        prog["handlers_when"] = draw(st.sampled_from(["init", "setUp"]))
    prog["cells"] = g.cells
    if opts.get("rets"):
        prog["rets"] = {"setUp": draw(RETS), "test": draw(RETS), "tearDown": draw(RETS)}
    if opts.get("upcall"):
        prog["no_upcall"] = draw(st.sampled_from([None] * 8 + ["setUp", "tearDown"]))
        prog["runner_via"] = draw(st.sampled_from([None, None, None, "ctor", "decorator"])) if decor == "none" else None
    if opts.get("extras"):
        prog["custom_skip"] = draw(st.integers(0, 4)) == 0        # skipException replaced by an unrelated class
        prog["force_outside"] = draw(st.integers(0, 6)) == 0      # force_failure set on the instance before run()
    if opts.get("onexc"):
        prog["outside_handler"] = draw(st.integers(0, 3)) == 0    # addOnException called before run()
    return prog


# ----------------------------------------------------------------------------- reference interpreter
class Raised(Exception):
    pass


class Model:
    """Executes a program spec abstractly: execution log, raised exceptions (flattened), forced failure."""

    def __init__(self, prog, run_no=0):
        self.p = prog
        self.run_no = run_no
        self.log = []
        self.raised = []         # dicts: kind, i (marker), stage
        self.cleanups = []
        self.force = False
        self.objs = [{"x": "orig-x", "nonev": None}, {"x": "orig-x", "nonev": None}, {"x": "orig-x", "nonev": None}]
        self.details_added = []  # (order, name, source, chunks|cell)
        self.cells = {}
        self.handlers = 0
        self.gen_items = []      # generated details the outcome must carry: dict(type, marker, base, t)
        self.registered = {}
        self.multis = {}
        self._fx_cleanups = {}
        self.fixture_details = []
        self.mismatch_details = []
        self.expect_mismatches = 0
        self.skipped_by_decorator = prog["decor"] in ("skip_method", "skip_class", "skipIf_true", "skipUnless_false",
                                                      "skip_method_empty", "skipIf_true_empty",
                                                      "stdlib_skip_method", "stdlib_skipIf_true", "stdlib_skip_class")
        if prog.get("force_outside"):
            self.force = True
        if prog.get("outside_handler"):
            self.handlers = 1

    # -- helpers
    def note(self, kind, i, stage):
        self.raised.append({"kind": kind, "i": i, "stage": stage, "handlers": self.handlers})
        k = klass(kind)
        if kind in ("setup_error", "empty_multi", "upcall_error", "restore_error"):
            return
        if k in ("failure", "error", "nonexc"):
            self.gen_items.append({"type": "traceback", "marker": i, "base": "traceback", "t": len(self.log)})
        elif kind == "xfail":
            # the assertion behind an expected failure (expectFailure) has its own traceback
            self.gen_items.append({"type": "traceback-xfail", "marker": None, "base": "traceback", "t": len(self.log)})

    def note_multi(self, a, stage):
        """MultipleExceptions are unpacked recursively; one without constituents is an ordinary error."""
        if not a["sub"]:
            self.note("empty_multi", a["i"], stage)
        for s in a["sub"]:
            if s["kind"] == "multi":
                self.note_multi(s, stage)
            else:
                self.note(s["kind"], s["i"], stage)

    def run_list(self, acts, stage):
        """Returns True if the list completed, False if it raised."""
        for a in acts:
            if not self.step(a, stage):
                return False
        return True

    def step(self, a, stage):
        t = a["a"]
        if a.get("runs") is not None and self.run_no not in a["runs"]:
            return True                 # not in this run of the instance
        self.log.append(("A", a["i"]))
        if t == "log":
            return True
        if t == "raise":
            if a["kind"] == "multi":
                self.multis[a["i"]] = a
                self.note_multi(a, stage)
            elif a["kind"] == "again":
                if a["ref"] in self.multis:
                    self.note_multi(self.multis[a["ref"]], stage)
                else:
                    return True                   # nothing to raise again: a plain log action
            else:
                self.note(a["kind"], a["i"], stage)
            return False
        if t == "cleanup":
            self.cleanups.append(("user", a))
            self.registered[a["i"]] = a
            return True
        if t == "cleanup_burst":
            for k in range(a["n"]):
                self.cleanups.append(("burst", (a["i"], k)))
            return True
        if t == "write":
            o = self.objs[a["obj"]]
            if a["value"] == "<delete>":
                o.pop(a["attr"], None)
            else:
                o[a["attr"]] = a["value"]
            return True
        if t == "cleanup_dup":
            if a["ref"] in self.registered:      # only if the original registration has been executed in this run
                self.cleanups.append(("user", self.registered[a["ref"]]))
            return True
        if t == "patch":
            o = self.objs[a["obj"]]
            prev = o.get(a["attr"], "<absent>")
            o[a["attr"]] = a["value"]
            self.cleanups.append(("unpatch", (a["obj"], a["attr"], prev)))
            return True
        if t == "read":
            self.log.append(("R", a["i"], self.objs[a["obj"]].get(a["attr"], "<absent>")))
            return True
        if t == "fixture":
            return self.use_fixture(a["spec"], stage)
        if t == "detail":
            self.details_added.append({"name": a["name"], "i": a["i"], "chunks": a["chunks"], "cell": a["cell"], "t": len(self.log)})
            if a["cell"] is not None:
                self.cells[a["cell"]] = b"".join(a["chunks"])
            return True
        if t == "mutate":
            if a["cell"] in self.cells:
                self.cells[a["cell"]] = a["data"]
            return True
        if t == "expect":
            if not a["ok"]:
                self.force = True
                self.expect_mismatches += 1
                self.mismatch_details += [("M%d/%s" % (a["i"], n)) for n in a["dnames"]]
                for n in a["dnames"]:
                    self.gen_items.append({"type": "mismatch-detail", "marker": "M%d/%s" % (a["i"], n), "base": n, "t": len(self.log)})
                self.gen_items.append({"type": "failed-expectation", "marker": a["i"], "base": "Failed expectation", "t": len(self.log)})
            return True
        if t == "assert":
            if not a["ok"]:
                self.mismatch_details += [("M%d/%s" % (a["i"], n)) for n in a["dnames"]]
                for n in a["dnames"]:
                    self.gen_items.append({"type": "mismatch-detail", "marker": "M%d/%s" % (a["i"], n), "base": n, "t": len(self.log)})
                self.note("mismatch", a["i"], stage)
                return False
            return True
        if t == "force":
            self.force = True
            return True
        if t == "onexc":
            self.handlers += 1
            return True
        raise AssertionError(t)

    def fixture_setup(self, f, stage, errors):
        """Model of Fixture.setUp() -> True on success.  ``errors`` collects what a failing
        setUp reports (original error, cleanup errors)."""
        self.log.append(("FS", f["i"]))
        own_cleanups = [("fx", f)]
        ok = True
        if f["nested"] is not None:
            sub_errors = []
            if self.fixture_setup(f["nested"], stage, sub_errors):
                own_cleanups.append(("nested", f["nested"]))
            else:
                ok = False
                errors += sub_errors
        if ok and f["setup_fail"] == "kbi":
            for kind, x in reversed(own_cleanups):
                self.fixture_cleanup_item(kind, x, [])      # (what its own cleanups raise is dropped by the fixtures library here)
            errors.append({"kind": "kbi", "i": f["i"]})
            return False
        if ok and f["setup_fail"]:
            ok = False
            errors.append({"kind": "error", "i": f["i"]})
        if not ok:
            # the fixture cleans itself up immediately, collecting cleanup errors
            for kind, x in reversed(own_cleanups):
                self.fixture_cleanup_item(kind, x, errors)
            errors.append({"kind": "setup_error", "i": None})
            return False
        self._fx_cleanups[f["i"]] = own_cleanups
        return True

    def fixture_cleanup_item(self, kind, x, errors):
        if kind == "fx":
            self.log.append(("FC", x["i"]))
            if x["cleanup_fail"]:
                errors.append({"kind": "error", "i": -x["i"]})
        else:
            for k2, y in reversed(self._fx_cleanups.get(x["i"], [])):
                self.fixture_cleanup_item(k2, y, errors)

    def use_fixture(self, f, stage):
        errors = []
        if self.fixture_setup(f, stage, errors):
            self.cleanups.append(("fixture", f))
            if f.get("details_fail"):
                # getDetails() raising right after a successful setUp: the fixture must still be cleaned up
                self.note("error", f["i"], stage)
                return False
            self.cleanups.append(("gather", f))
            return True
        for e in errors:
            self.note(e["kind"], e["i"], stage)
        if f["setup_fail"] == "kbi":
            return False          # nothing of the fixture is gathered on this path
        self.fixture_details.append((f, "failed"))
        for n in f["details"]:
            self.gen_items.append({"type": "fixture-detail", "marker": "FX%d/%s/" % (f["i"], n), "base": n, "t": len(self.log),
                                   "payload": b"".join(f["details"][n])})
        return False

    def run_cleanup(self, item):
        kind, x = item
        if kind == "user":
            self.log.append(("C", x["i"]))
            self.run_list(x["body"], "cleanup")
        elif kind == "burst":
            self.log.append(("CB",) + tuple(x))
        elif kind == "unpatch":
            o, attr, prev = x
            if prev == "<absent>":
                if attr not in self.objs[o]:
                    # the test deleted the attribute that patch() had created: the undo has nothing to delete
                    self.note("restore_error", None, "cleanup")
                self.objs[o].pop(attr, None)
            else:
                self.objs[o][attr] = prev
        elif kind == "fixture":
            errors = []
            for k2, y in reversed(self._fx_cleanups[x["i"]]):
                self.fixture_cleanup_item(k2, y, errors)
            for e in errors:
                self.note(e["kind"], e["i"], "cleanup")
        elif kind == "gather":
            self.fixture_details.append((x, "ok"))
            for n in x["details"]:
                self.gen_items.append({"type": "fixture-detail", "marker": "FX%d/%s/" % (x["i"], n), "base": n, "t": len(self.log),
                                       "payload": b"".join(x["details"][n])})

    def run(self):
        p = self.p
        if self.skipped_by_decorator:
            return self
        ok = self.run_list(p["setUp_pre"], "setUp") and self.run_list(p["setUp_post"], "setUp")
        if ok and p.get("no_upcall") == "setUp":
            # TestCase notices that its own setUp was never reached and reports that as an error of setUp
            self.note("upcall_error", None, "setUp")
            ok = False
        if ok:
            n0 = len(self.raised)
            body_ok = self.run_list(p["body"], "body")
            if p["decor"] == "expectedFailure":
                new = self.raised[n0:]
                if body_ok:
                    self.raised.append({"kind": "ux_sub", "i": None, "stage": "body", "handlers": self.handlers})
                elif all(klass(r["kind"]) != "nonexc" for r in new):
                    # any Exception raised by the wrapped method becomes one expected failure
                    del self.raised[n0:]
                    self.raised.append({"kind": "xfail_sub", "i": None, "stage": "body", "handlers": self.handlers})
            if self.run_list(p["tearDown_pre"], "tearDown"):
                if self.run_list(p["tearDown_post"], "tearDown") and p.get("no_upcall") == "tearDown":
                    self.note("upcall_error", None, "tearDown")
        while self.cleanups:
            self.run_cleanup(self.cleanups.pop())
        # the delayed failure of expectThat / force_failure is raised after the cleanups of a test
        # whose setUp completed (a test whose setUp raised is reported by what setUp raised)
        if self.force and ok:
            self.raised.append({"kind": "forced", "i": None, "stage": "forced", "handlers": self.handlers})
        return self

    # -- predictions
    def handler_table(self):
        table = [("skip", "addSkip"), ("failure", "addFailure"), ("xfail", "addExpectedFailure"),
                 ("uxsuccess", "addUnexpectedSuccess"), ("Exception", "addError")]
        for h in self.p.get("handlers", []):
            table.insert(min(h["pos"], len(table)), (h["cls"], h["to"]))
        return table

    def isinstance_(self, kind, cls):
        k = klass(kind)
        if cls == "Exception":
            return k != "nonexc"
        if cls in ("skip", "failure", "xfail", "uxsuccess"):
            return k == cls or (cls == "failure" and kind == "customFail")
        if cls == "CustomA":
            return kind == "customA"
        if cls == "CustomFail":
            return kind == "customFail"
        if cls == "AssertionError":
            return k == "failure" or kind == "customFail"
        if cls == "SkipTest":
            return k == "skip" and not self.p.get("custom_skip")      # a project's own skip class is unrelated to SkipTest
        return False

    def single_outcome(self, kind):
        for cls, to in self.handler_table():
            if self.isinstance_(kind, cls):
                return to
        return None

    def admissible(self):
        """(set of admissible outcome method names, propagates: bool)"""
        if self.skipped_by_decorator:
            return {"addSkip"}, False
        R = self.raised
        if not R:
            return {"addSuccess"}, False
        classes = [klass(r["kind"]) for r in R]
        if "nonexc" in classes:
            return {"addError"}, True
        if len(R) == 1:
            return {self.single_outcome(R[0]["kind"])}, False
        if any(c in ("failure", "error") for c in classes):
            return {"addFailure", "addError", "addUnexpectedSuccess"}, False
        return {self.single_outcome(r["kind"]) for r in R}, False


# ----------------------------------------------------------------------------- builder
class CustomA(Exception):
    pass


class CustomFail(AssertionError):
    pass


class CustomAssertion(AssertionError):
    pass


class CustomBase(BaseException):
    pass


class FalsyError(RuntimeError):
    """An exception whose truth value is False (it has a length, and that is 0)."""

    def __len__(self):
        return 0


@dataclasses.dataclass
class DcError(Exception):
    """A dataclass exception: eq=True gives value equality and takes __hash__ away."""
    message: str


class EqError(Exception):
    """Hashable, and equal to every other EqError: two distinct errors of one run compare equal."""

    def __eq__(self, other):
        return isinstance(other, EqError)

    def __hash__(self):
        return 7


MARK = re.compile(r"MARK-(-?\d+)-")


def marker_of(exc):
    try:
        m = MARK.search(str(exc))
    except Exception:
        return None
    if m:
        return int(m.group(1))
    for a in getattr(exc, "args", ()):
        if isinstance(a, tuple) and len(a) == 3 and isinstance(a[1], BaseException):
            m = MARK.search(str(a[1]))
            if m:
                return int(m.group(1))
    return None


class Slotted:
    """A scratch object whose attributes do not live in an instance __dict__."""
    __slots__ = ("x", "nonev", "missing")      # "missing" is a slot nobody filled: absent until patched in

    def __init__(self):
        self.x = "orig-x"
        self.nonev = None


ATTRS = ("x", "nonev", "missing")


def snapshot_obj(o):
    return {a: getattr(o, a, "<absent>") for a in ATTRS}


def restore_obj(o, snap):
    for a, v in snap.items():
        if v == "<absent>":
            if hasattr(o, a):
                delattr(o, a)
        else:
            setattr(o, a, v)


class Live:
    """Everything observable about one run of a built program."""

    def __init__(self):
        self.run_no = 0
        self.exec_span = (10 ** 9, -1)
        self.log = []
        # an ordinary instance, a class (its attributes live in a mappingproxy) and a slotted instance
        self.objs = [types.SimpleNamespace(x="orig-x", nonev=None), type("Target", (), {"x": "orig-x", "nonev": None}), Slotted()]
        self.cells = {}
        self.raised_objs = {}       # marker -> exception instance
        self.multis = {}
        self.cleanup_fns = {}
        self.handler_calls = []     # (handler id, marker or type name, len(result log) at call)
        self.user_handler_calls = []


def build_case(prog, live, result_log=None, runner=None):
    """-> a fresh testtools.TestCase instance interpreting ``prog``."""
    import testtools
    import fixtures
    from testtools.content import Content, text_content
    from testtools.content_type import ContentType
    from testtools.matchers import Mismatch
    from testtools.runtest import MultipleExceptions
    from testtools.testcase import _ExpectedFailure, _UnexpectedSuccess
    import unittest

    class CustomSkip(unittest.SkipTest):
        pass

    class CustomXF(_ExpectedFailure):
        pass

    class CustomUX(_UnexpectedSuccess):
        pass

    BIN = ContentType("application", "octet-stream")

    class WithDetails:
        def __init__(self, ok, names, i, pay=None):
            self.ok, self.names, self.i = ok, names, i
            self.pay = pay or {}        # (C05) name -> {"chunks": [...]} | {"cell": c}: a binary / lazily evaluated mismatch detail

        def detail(self, n):
            p = self.pay.get(n)
            if p is None:
                return text_content("M%d/%s" % (self.i, n))
            ct = ContentType("application", "octet-stream", {"id": "M%d/%s" % (self.i, n)})
            if p.get("cell") is not None:
                return Content(ct, lambda c=p["cell"]: [live.cells.get(c, b"")])
            return Content(ct, lambda chunks=p["chunks"]: list(chunks))

        def __str__(self):
            return "WithDetails(%d)" % self.i

        def match(self, x):
            if self.ok:
                return None
            return Mismatch("mismatch MARK-%d-" % self.i, {n: self.detail(n) for n in self.names})

    def make_exc(case, kind, i, text=""):
        msg = "MARK-%d-" % i + text
        if kind == "fail":
            return case.failureException(msg)
        if kind == "assertion_sub":
            return CustomAssertion(msg)
        if kind == "error":
            return RuntimeError(msg)
        if kind == "error_key":
            return KeyError(msg)
        if kind in ("error_falsy", "xf_error"):
            return FalsyError(msg) if kind == "error_falsy" else RuntimeError(msg)
        if kind == "skip_empty":
            return case.skipException("")
        if kind == "skip_noargs":
            return case.skipException()
        if kind == "skip_int":
            return case.skipException(42)
        if kind == "sysexit0":
            return SystemExit(0)
        if kind == "sysexit_none":
            return SystemExit()
        if kind == "genexit":
            return GeneratorExit()
        if kind in ("xf_kbi", "ar_kbi"):
            return KeyboardInterrupt(msg)
        if kind == "ar_sysexit":
            return SystemExit(msg)
        if kind in ("skip", "xf_skip"):
            return case.skipException(msg)
        if kind == "skip_sub":
            # a subclass of whatever this test case uses as its skip signal
            return type("CustomSkip", (case.skipException,), {})(msg)
        if kind in ("xfail_sub",):
            try:
                raise AssertionError(msg)
            except AssertionError:
                return CustomXF(sys.exc_info())
        if kind == "ux_sub":
            return CustomUX(msg)
        if kind == "kbi":
            return KeyboardInterrupt(msg)
        if kind == "sysexit":
            return SystemExit(msg)
        if kind == "base":
            return CustomBase(msg)
        if kind == "customA":
            return CustomA(msg)
        if kind == "customFail":
            return CustomFail(msg)
        if kind == "error_dc":
            return DcError(msg)
        if kind == "error_eq":
            return EqError(msg)
        if kind == "group":
            return ExceptionGroup(msg, [TypeError("first member"), ValueError("second member")])
        if kind == "basegroup":
            return BaseExceptionGroup(msg, [KeyboardInterrupt("interrupt in a group"), TypeError("second member")])
        raise AssertionError(kind)

    def do_raise(case, kind, i, text=""):
        if kind == "xfail":
            case.expectFailure("MARK-%d-" % i, case.assertEqual, 1, 2)
            raise AssertionError("expectFailure did not raise")
        if kind == "uxsuccess":
            case.expectFailure("MARK-%d-" % i, case.assertEqual, 1, 1)
            raise AssertionError("expectFailure did not raise")
        if kind == "skip_api":
            case.skipTest("MARK-%d-" % i + text)
            raise RuntimeError("skipTest returned")
        if kind == "fail_api":
            case.fail("MARK-%d-" % i + text)
            raise RuntimeError("fail returned")
        if kind == "raw_skip_error":
            raise unittest.SkipTest("MARK-%d-" % i + text)
        e = make_exc(case, kind, i, text)
        live.raised_objs.setdefault(i, []).append(e)
        if prog.get("reuse_exc"):
            # (C01) the very object has already been raised in - and reported by - a complete run of another
            # test (a module-level cached error, a prebuilt SkipTest) before this test raises it
            class Earlier(testtools.TestCase):
                def test_earlier(self):
                    raise e
            try:
                Earlier("test_earlier").run(unittest.TestResult())
            except (MemoryError, RecursionError):
                raise
            except BaseException:
                pass
        if kind in ("ar_kbi", "ar_sysexit"):
            def raiser():
                raise e
            case.assertRaises(ValueError, raiser)
            raise AssertionError("assertRaises returned")
        if kind in ("xf_error", "xf_skip", "xf_kbi"):
            # the callable handed to expectFailure raises something that is not a failure
            def predicate():
                raise e
            case.expectFailure("MARK-%d-" % i, predicate)
            raise AssertionError("expectFailure returned")
        raise e

    def raise_multi(case, subs):
        infos = []
        for sub in subs:
            try:
                if sub["kind"] == "multi":
                    raise_multi(case, sub["sub"])
                else:
                    do_raise(case, sub["kind"], sub["i"])
            except BaseException:
                # (C05) "notb": an exc_info triple whose traceback object is None (collected elsewhere, stored, converted)
                infos.append(sys.exc_info()[:2] + (None,) if sub.get("notb") else sys.exc_info())
        raise MultipleExceptions(*infos)

    def run_actions(case, acts):
        for a in acts:
            step(case, a)

    def make_fixture(f):
        class F(fixtures.Fixture):
            def _setUp(self):
                live.log.append(("FS", f["i"]))
                self.bufs = {}
                for name, chunks in f["details"].items():
                    if f.get("bare"):
                        # (C05) exactly the drawn chunks (possibly none at all): the detail is identified by a
                        # content-type parameter instead of a marker in its bytes
                        ct = ContentType("application", "octet-stream", {"id": "FX%d/%s/" % (f["i"], name)})
                        if f.get("live"):
                            self.bufs[name] = list(chunks)
                            self.addDetail(name, Content(ct, lambda name=name: self.bufs[name]))
                        else:
                            self.addDetail(name, Content(ct, lambda chunks=chunks: list(chunks)))
                    elif f.get("live"):
                        # like a log-capturing fixture: the content hands out its own buffer, emptied at cleanUp
                        self.bufs[name] = [b"FX%d/" % f["i"] + name.encode("utf8") + b"/"] + list(chunks)
                        self.addDetail(name, Content(BIN, lambda name=name: self.bufs[name]))
                    else:
                        self.addDetail(name, Content(BIN, lambda chunks=chunks, i=f["i"], name=name: [b"FX%d/" % i + name.encode("utf8") + b"/"] + list(chunks)))
                self.addCleanup(self._clean)
                if f["nested"] is not None:
                    self.useFixture(make_fixture(f["nested"]))
                if f["setup_fail"] == "kbi":
                    raise KeyboardInterrupt("MARK-%d-" % f["i"])
                if f["setup_fail"]:
                    raise RuntimeError("MARK-%d-" % f["i"])

            def getDetails(self):
                if f.get("details_fail") and not getattr(self, "_asked", False) and self._details is not None:
                    self._asked = True
                    raise RuntimeError("MARK-%d-" % f["i"])
                return super().getDetails()

            def _clean(self):
                live.log.append(("FC", f["i"]))
                for buf in getattr(self, "bufs", {}).values():
                    del buf[:]
                if f["cleanup_fail"]:
                    raise RuntimeError("MARK-%d-" % -f["i"])
        return F()

    def ret_value(r):
        """What a stage function returns (the runner must not read anything into it)."""
        if r is None:
            return None
        if r == "gen":
            return (x for x in ())
        return {"true": True, "zero": 0, "obj": object(), "str": "returned"}[r]

    def step(case, a):
        t = a["a"]
        if a.get("runs") is not None and live.run_no not in a["runs"]:
            return
        live.log.append(("A", a["i"]))
        if result_log is not None:
            # where in the result's event log user code ran (it runs between startTest and the outcome)
            live.exec_span = (min(live.exec_span[0], len(result_log)), max(live.exec_span[1], len(result_log)))
        if t == "log":
            return
        if t == "raise":
            if a["kind"] == "multi":
                try:
                    raise_multi(case, a["sub"])
                except MultipleExceptions as me:
                    live.multis[a["i"]] = me
                    raise
            if a["kind"] == "again":
                if a["ref"] in live.multis:
                    raise live.multis[a["ref"]]
                return
            do_raise(case, a["kind"], a["i"], a.get("text", ""))
        elif t == "cleanup_burst":
            for k in range(a["n"]):
                case.addCleanup(lambda k=k: live.log.append(("CB", a["i"], k)))
        elif t == "write":
            if a["value"] == "<delete>":
                if hasattr(live.objs[a["obj"]], a["attr"]):
                    delattr(live.objs[a["obj"]], a["attr"])
            else:
                setattr(live.objs[a["obj"]], a["attr"], a["value"])
        elif t == "cleanup":
            def fn(*args, **kw):
                live.log.append(("C", a["i"]))
                if a["args"] and (args != (1, "two") or kw != ({"fn": 3} if a["args"] == "fn" else {"k": 3})):
                    live.log.append(("BADARGS", a["i"], args, kw))
                run_actions(case, a["body"])
                return ret_value(a.get("ret"))
            live.cleanup_fns[a["i"]] = (fn, a["args"])
            if a["args"] == "fn":
                # keyword names that testtools' own plumbing uses for its parameters
                case.addCleanup(fn, 1, "two", fn=3)
            elif a["args"]:
                case.addCleanup(fn, 1, "two", k=3)
            else:
                case.addCleanup(fn)
        elif t == "cleanup_dup":
            if a["ref"] in live.cleanup_fns:
                fn, with_args = live.cleanup_fns[a["ref"]]
                if with_args == "fn":
                    case.addCleanup(fn, 1, "two", fn=3)
                elif with_args:
                    case.addCleanup(fn, 1, "two", k=3)
                else:
                    case.addCleanup(fn)
        elif t == "patch":
            case.patch(live.objs[a["obj"]], a["attr"], a["value"])
        elif t == "read":
            live.log.append(("R", a["i"], getattr(live.objs[a["obj"]], a["attr"], "<absent>")))
        elif t == "fixture":
            case.useFixture(make_fixture(a["spec"]))
        elif t == "detail":
            head = b"D%d/" % a["i"]
            if a.get("bare"):
                # (C05) no marker chunk: the content yields exactly the drawn chunks (possibly none) / the cell
                if a["cell"] is not None:
                    live.cells[a["cell"]] = b"".join(a["chunks"])
                    case.addDetail(a["name"], Content(BIN, lambda c=a["cell"]: [live.cells[c]]))
                else:
                    case.addDetail(a["name"], Content(BIN, lambda chunks=a["chunks"]: list(chunks)))
            elif a["cell"] is not None:
                live.cells[a["cell"]] = b"".join(a["chunks"])
                case.addDetail(a["name"], Content(BIN, lambda c=a["cell"], head=head: [head, live.cells[c]]))
            else:
                case.addDetail(a["name"], Content(BIN, lambda chunks=a["chunks"], head=head: [head] + list(chunks)))
        elif t == "mutate":
            if a["cell"] in live.cells:
                live.cells[a["cell"]] = a["data"]
        elif t == "expect":
            case.expectThat(0, WithDetails(a["ok"], a["dnames"], a["i"], a.get("mpay")), a.get("message", ""), verbose=a.get("verbose", False))
        elif t == "assert":
            case.assertThat(0, WithDetails(a["ok"], a["dnames"], a["i"], a.get("mpay")), a.get("message", ""), verbose=a.get("verbose", False))
        elif t == "force":
            case.force_failure = {"True": True, "1": 1, "yes": "yes"}[a.get("value", "True")]
        elif t == "onexc":
            hid = a["i"]

            def handler(exc_info, hid=hid):
                m = marker_of(exc_info[1])
                live.handler_calls.append((hid, m if m is not None else type(exc_info[1]).__name__,
                                           None if result_log is None else len(result_log)))
            case.addOnException(handler)
        else:
            raise AssertionError(t)

    decor = prog["decor"]
    user_classes = {"CustomA": CustomA, "CustomFail": CustomFail, "AssertionError": AssertionError, "Exception": Exception,
                    "SkipTest": unittest.SkipTest}

    def install_handlers(case):
        for h in prog.get("handlers", []):
            def uh(c, result, err, h=h):
                live.user_handler_calls.append(h["cls"])
                getattr(result, h["to"])(c, details=c.getDetails())
            case.exception_handlers.insert(h["pos"], (user_classes[h["cls"]], uh))

    rets = prog.get("rets") or {}

    class Generated(testtools.TestCase):
        if runner is not None:
            run_tests_with = runner

        def run(self, result=None):
            live.cleanup_fns.clear()      # what was registered / raised in an earlier run of this instance is gone
            live.multis.clear()
            return super().run(result)

        def setUp(self):
            if prog.get("handlers_when") == "setUp":
                install_handlers(self)
            run_actions(self, prog["setUp_pre"])
            if prog.get("no_upcall") != "setUp":
                super().setUp()
            run_actions(self, prog["setUp_post"])
            return ret_value(rets.get("setUp"))

        def test_program(self):
            if prog.get("handlers_when") == "body":
                install_handlers(self)
            run_actions(self, prog["body"])
            return ret_value(rets.get("test"))

        def tearDown(self):
            run_actions(self, prog["tearDown_pre"])
            if prog.get("no_upcall") != "tearDown":
                super().tearDown()
            run_actions(self, prog["tearDown_post"])
            return ret_value(rets.get("tearDown"))

    if decor == "skip_method":
        Generated.test_program = testtools.skip("decorated")(Generated.test_program)
    elif decor == "skip_method_empty":
        Generated.test_program = testtools.skip("")(Generated.test_program)
    elif decor == "skipIf_true_empty":
        Generated.test_program = testtools.skipIf(True, "")(Generated.test_program)
    elif decor == "skipIf_true":
        Generated.test_program = testtools.skipIf(True, "decorated")(Generated.test_program)
    elif decor == "skipIf_false":
        Generated.test_program = testtools.skipIf(False, "decorated")(Generated.test_program)
    elif decor == "skipUnless_true":
        Generated.test_program = testtools.skipUnless(True, "decorated")(Generated.test_program)
    elif decor == "skipUnless_false":
        Generated.test_program = testtools.skipUnless(False, "decorated")(Generated.test_program)
    elif decor == "expectedFailure":
        Generated.test_program = unittest.expectedFailure(Generated.test_program)
    elif decor == "stdlib_skip_method":
        Generated.test_program = unittest.skip("decorated")(Generated.test_program)
    elif decor == "stdlib_skipIf_true":
        Generated.test_program = unittest.skipIf(True, "decorated")(Generated.test_program)
    elif decor == "stdlib_skip_class":
        Generated = unittest.skip("decorated")(Generated)
    elif decor == "skip_class":
        Generated = testtools.skip("decorated")(Generated)
    if prog.get("custom_skip"):
        class OwnSkip(Exception):
            """A project's own skip signal, unrelated to unittest.SkipTest."""
        Generated.skipException = OwnSkip
    via = prog.get("runner_via")
    if via == "decorator" and decor == "none":
        # the stock runner, but chosen per method with @run_test_with(..)
        from testtools.runtest import RunTest
        Generated.test_program = testtools.run_test_with(RunTest)(Generated.test_program)
    if via == "ctor":
        from testtools.runtest import RunTest
        case = Generated("test_program", runTest=RunTest)
    else:
        case = Generated("test_program")
    if prog.get("handlers_when", "init") == "init":
        install_handlers(case)
    if prog.get("force_outside"):
        case.force_failure = True
    if prog.get("outside_handler"):
        def outside(exc_info):
            m = marker_of(exc_info[1])
            live.handler_calls.append((0, m if m is not None else type(exc_info[1]).__name__,
                                       None if result_log is None else len(result_log)))
        case.addOnException(outside)
    if prog.get("clone"):
        # (C01) what testscenarios-style multipliers run: a shallow copy of a constructed case under a new id
        case = testtools.clone_test_with_new_id(case, case.id() + "(clone)")
    return case
