"""Shared runner: generated search with non-raising oracles, bucketing of
violations by root cause, Hypothesis-driven shrinking per bucket, replay files,
known findings, evidence.

A property module (props/cNN.py) exposes

    PROPERTY = "CNN"
    RULE     = "how cases are generated and what makes one non-trivial"
    ASSUMPTIONS = [...]
    def subchecks(tier) -> [Sub, ...]

A Sub couples a Hypothesis strategy of JSON-able *specs* with
``run(spec) -> Case``.  ``run`` builds live objects from the real testtools
classes, observes, applies the oracle and returns the violations it saw - it
never raises for a violation.
"""
import collections
import hashlib
import importlib
import json
import multiprocessing
import os
import sys
import time
import traceback

from . import specio

VERIF = os.path.dirname(os.path.dirname(os.path.abspath(__file__)))
REPO = os.path.abspath(os.environ.get("VERIF_REPO", "/repo"))


class HarnessError(Exception):
    """Something is wrong with the machinery, not with testtools: exit 2."""


class V:
    """One violation of one clause.  ``bucket`` identifies the root cause."""
    __slots__ = ("clause", "bucket", "msg")

    def __init__(self, clause, bucket, msg):
        self.clause = clause
        self.bucket = "%s:%s" % (clause, bucket) if bucket else clause
        self.msg = msg

    def __repr__(self):
        return "V(%s: %s)" % (self.bucket, self.msg)


class Case:
    __slots__ = ("violations", "nontrivial", "labels", "obs")

    def __init__(self, violations=(), nontrivial=False, labels=(), obs=None):
        self.violations = list(violations)
        self.nontrivial = bool(nontrivial)
        self.labels = list(labels)
        self.obs = obs


class Sub:
    """One sub-check of a property."""

    def __init__(self, name, run, strategy=None, n=0, enum=None,
                 enum_complete=False, custom=None, shrink=True, note=""):
        self.name = name
        self.run = run              # spec -> Case
        self.strategy = strategy    # hypothesis strategy (or None)
        self.n = n                  # examples for this tier (whole run)
        self.enum = enum            # callable() -> iterable of specs, or None
        self.enum_complete = enum_complete
        self.custom = custom        # callable(ctx) -> list of (spec, Case)
        self.shrink = shrink
        self.note = note


def bind_tree():
    """Make ``import testtools`` resolve to the tree under test."""
    if REPO not in sys.path[:1]:
        sys.path.insert(0, REPO)
    os.environ.setdefault("TESTTOOLS_VERIF", "1")
    import testtools
    f = os.path.abspath(testtools.__file__)
    if not f.startswith(REPO + os.sep):
        raise HarnessError("testtools imported from %s, not from %s" % (f, REPO))
    return testtools


def _innermost_pkg_frame(tb):
    """(where, in_tree) of the innermost frame that belongs to testtools in the
    tree under test; None if the exception never passed through it."""
    found = None
    for fs in traceback.extract_tb(tb):
        fn = os.path.abspath(fs.filename)
        if fn.startswith(os.path.join(REPO, "testtools") + os.sep) and \
                os.sep + "tests" + os.sep not in fn:
            found = "%s:%s" % (os.path.relpath(fn, REPO), fs.name)
    return found


def guarded(sub, spec):
    """Run one case.  An exception escaping ``run`` whose traceback passes
    through the tree under test is an (unexpected-crash) violation; anything
    else is a harness error."""
    try:
        case = sub.run(spec)
    except HarnessError:
        raise
    except RecursionError:
        raise
    except Exception as e:
        where = _innermost_pkg_frame(e.__traceback__)
        if where is None:
            raise HarnessError("harness raised %s on spec %s\n%s" % (
                type(e).__name__, specio.dumps(spec)[:2000],
                "".join(traceback.format_exception(type(e), e, e.__traceback__))))
        msg = "".join(traceback.format_exception_only(type(e), e)).strip()
        case = Case([V("crash", "%s@%s" % (type(e).__name__, where),
                       "unexpected %s" % msg[:300])], False, ["crash"])
    if not isinstance(case, Case):
        raise HarnessError("sub %s returned %r" % (sub.name, case))
    return case


def spec_hash(spec):
    return hashlib.blake2b(specio.dumps(spec).encode(), digest_size=8).digest()


class Stats:
    """Picklable accumulation for one sub-check."""

    def __init__(self, name):
        self.name = name
        self.evaluations = 0
        self.nt = set()
        self.labels = collections.Counter()
        self.samples = []
        self.buckets = {}       # bucket -> dict(spec_json, msg, count, seed)
        self.exhaustive = None  # None / True / False

    def add(self, spec, case, seed):
        self.evaluations += 1
        for lab in case.labels:
            if lab:
                self.labels[lab] += 1
        if case.nontrivial:
            h = spec_hash(spec)
            if h not in self.nt:
                self.nt.add(h)
                if len(self.samples) < 3:
                    self.samples.append({"sub": self.name,
                                         "spec": specio.jsonable(spec),
                                         "observed": specio.jsonable(case.obs)})
        for v in case.violations:
            js = specio.dumps(spec)
            b = self.buckets.get(v.bucket)
            if b is None:
                self.buckets[v.bucket] = {"spec": js, "msg": v.msg, "count": 1,
                                          "seed": seed, "sub": self.name}
            else:
                b["count"] += 1
                if len(js) < len(b["spec"]):
                    b.update(spec=js, msg=v.msg, seed=seed)

    def merge(self, other):
        self.evaluations += other.evaluations
        self.nt |= other.nt
        self.labels.update(other.labels)
        for s in other.samples:
            if len(self.samples) < 4:
                self.samples.append(s)
        for k, b in other.buckets.items():
            mine = self.buckets.get(k)
            if mine is None:
                self.buckets[k] = dict(b)
            else:
                mine["count"] += b["count"]
                if len(b["spec"]) < len(mine["spec"]):
                    mine.update(spec=b["spec"], msg=b["msg"], seed=b["seed"])
        if other.exhaustive is not None:
            self.exhaustive = other.exhaustive if self.exhaustive is None \
                else (self.exhaustive and other.exhaustive)


def _hyp_settings(n, shrink=False):
    from hypothesis import settings, HealthCheck, Phase
    phases = [Phase.generate] + ([Phase.shrink] if shrink else [])
    return settings(max_examples=n, database=None, deadline=None,
                    derandomize=False, report_multiple_bugs=False,
                    suppress_health_check=list(HealthCheck), phases=phases)


def phase_a(sub, n, seed_value, stats):
    """Generate ``n`` cases, record everything, never stop at a failure."""
    from hypothesis import given, seed

    @seed(seed_value)
    @_hyp_settings(n)
    @given(sub.strategy)
    def t(spec):
        stats.add(spec, guarded(sub, spec), seed_value)
    t()


class _Found(Exception):
    pass


def phase_b(sub, bucket, n, seed_value, budget=4000):
    """Re-run the same generation with the assertion 'this bucket does not
    occur' so that Hypothesis shrinks exactly that root cause."""
    from hypothesis import given, seed
    best = [None]
    calls = [0]

    @seed(seed_value)
    @_hyp_settings(n, shrink=True)
    @given(sub.strategy)
    def t(spec):
        calls[0] += 1
        if best[0] is not None and calls[0] > budget:
            return
        case = guarded(sub, spec)
        for v in case.violations:
            if v.bucket == bucket:
                js = specio.dumps(spec)
                if best[0] is None or len(js) <= len(best[0][0]):
                    best[0] = (js, v.msg)
                raise _Found()
    try:
        t()
    except HarnessError:
        raise
    except BaseException:
        pass
    return best[0]


def _shard_worker(args):
    prop_mod, tier, sub_name, n, seed_value = args
    try:
        bind_tree()
        mod = importlib.import_module(prop_mod)
        sub = [s for s in mod.subchecks(tier) if s.name == sub_name][0]
        st = Stats(sub.name)
        phase_a(sub, n, seed_value, st)
        return ("ok", st)
    except HarnessError as e:
        return ("harness", str(e))
    except BaseException as e:
        return ("harness", "".join(traceback.format_exception(type(e), e, e.__traceback__)))


def _enum_worker(args):
    prop_mod, tier, sub_name, shard, nshards = args
    try:
        bind_tree()
        mod = importlib.import_module(prop_mod)
        sub = [s for s in mod.subchecks(tier) if s.name == sub_name][0]
        st = Stats(sub.name)
        for i, spec in enumerate(sub.enum()):
            if i % nshards != shard:
                continue
            st.add(spec, guarded(sub, spec), -1)
        st.exhaustive = bool(sub.enum_complete)
        return ("ok", st)
    except HarnessError as e:
        return ("harness", str(e))
    except BaseException as e:
        return ("harness", "".join(traceback.format_exception(type(e), e, e.__traceback__)))


def load_known(prop):
    p = os.path.join(VERIF, "known_findings.json")
    if not os.path.exists(p):
        return []
    data = json.load(open(p))
    return [k for k in data.get("known", []) if k["property"] == prop]


def load_replays(prop):
    d = os.path.join(VERIF, "replays", prop)
    out = []
    if os.path.isdir(d):
        for fn in sorted(os.listdir(d)):
            if fn.endswith(".json"):
                rec = specio.loads(open(os.path.join(d, fn)).read())
                out.append((os.path.join(d, fn), rec))
    return out


def _slug(s):
    return "".join(c if c.isalnum() else "_" for c in s)[:80]


def run_property(prop_mod_name, tier, replay=None):
    t0 = time.time()
    bind_tree()
    mod = importlib.import_module(prop_mod_name)
    prop = mod.PROPERTY
    seed_value = int(os.environ.get("VERIF_SEED", "1") or "1")
    shards = int(os.environ.get("VERIF_SHARDS", "16" if tier == "thorough" else "1"))
    scale = float(os.environ.get("VERIF_SCALE", "1"))
    if tier == "thorough":
        # the per-sub counts in props/*.py are the 1x budget (1-3 min per property on 16 cores);
        # thorough runs three times that unless told otherwise
        scale *= float(os.environ.get("VERIF_THOROUGH_SCALE", "3"))
    subs = mod.subchecks(tier)
    by_name = {s.name: s for s in subs}
    allstats = {s.name: Stats(s.name) for s in subs}

    if replay:
        rec = specio.loads(open(replay).read())
        sub = by_name[rec["sub"]]
        case = guarded(sub, rec["spec"])
        known = {k["bucket"] for k in load_known(prop)}
        bad = [v for v in case.violations if v.bucket not in known]
        for v in case.violations:
            print("replay: %s %s" % (v.bucket, v.msg))
        if bad:
            print("VIOLATION property=%s replay=%s" % (prop, replay))
            return 1
        print("replay: property held on %s" % replay)
        return 0

    # 1. regression / replay corpus, bypassing Hypothesis
    nreplayed = 0
    for path, rec in load_replays(prop):
        sub = by_name.get(rec["sub"])
        if sub is None:
            continue
        allstats[sub.name].add(rec["spec"], guarded(sub, rec["spec"]), 0)
        nreplayed += 1

    # 2. generated search
    jobs = []
    for s in subs:
        if s.strategy is not None and s.n > 0:
            n = max(1, int(s.n * scale))
            if shards <= 1:
                phase_a(s, n, seed_value, allstats[s.name])
            else:
                per = max(1, n // shards)
                for k in range(shards):
                    jobs.append((_shard_worker, (prop_mod_name, tier, s.name, per,
                                                 seed_value * 1000 + k)))
        if s.enum is not None:
            if shards <= 1:
                st = allstats[s.name]
                for spec in s.enum():
                    st.add(spec, guarded(s, spec), -1)
                st.exhaustive = bool(s.enum_complete)
            else:
                for k in range(shards):
                    jobs.append((_enum_worker, (prop_mod_name, tier, s.name, k, shards)))
        if s.custom is not None:
            st = allstats[s.name]
            for spec, case in s.custom({"tier": tier, "seed": seed_value}):
                st.add(spec, case, seed_value)
                if isinstance(spec, dict) and isinstance(spec.get("executions"), int):
                    st.evaluations += max(0, spec["executions"] - 1)     # a fuzzing campaign reports its own count
    if jobs:
        ctx = multiprocessing.get_context("fork")
        with ctx.Pool(min(16, len(jobs))) as pool:
            asyncs = [pool.apply_async(fn, (a,)) for fn, a in jobs]
            for (fn, a), r in zip(jobs, asyncs):
                kind, val = r.get()
                if kind != "ok":
                    raise HarnessError(val)
                allstats[a[2]].merge(val)

    # 3. classify violations
    known = load_known(prop)
    known_by_bucket = {k["bucket"]: k for k in known}
    new = []
    seen_known = set()
    for name, st in allstats.items():
        for bucket, b in st.buckets.items():
            if bucket in known_by_bucket:
                seen_known.add(bucket)
            else:
                new.append((name, bucket, b))
    for bucket in sorted(seen_known):
        print("KNOWN-FINDING: property=%s %s [%s]" % (prop, known_by_bucket[bucket]["what"], bucket))
    for k in known:
        if k["bucket"] not in seen_known:
            print("NOTE: listed finding not reproduced in this run: %s" % k["bucket"])

    # 4. shrink + replay files for new buckets
    out_dir = os.path.join(os.environ.get("VERIF_OUT") or os.path.join(VERIF, "out"), "replays", prop)
    lines = []
    for i, (name, bucket, b) in enumerate(sorted(new, key=lambda x: x[1])):
        sub = by_name[name]
        spec_js, msg = b["spec"], b["msg"]
        if (sub.shrink and sub.strategy is not None and b["seed"] > 0 and i < 3
                and len(spec_js) > 300 and not os.environ.get("VERIF_NO_SHRINK")):
            n = max(1, int(sub.n * scale))
            if shards > 1:
                n = max(1, n // shards)
            got = phase_b(sub, bucket, n, b["seed"],
                          budget=1500 if tier == "quick" else 6000)
            if got is not None and len(got[0]) < len(spec_js):
                spec_js, msg = got
        os.makedirs(out_dir, exist_ok=True)
        path = os.path.join(out_dir, _slug(bucket) + ".json")
        with open(path, "w") as f:
            f.write(json.dumps({"property": prop, "sub": name, "bucket": bucket,
                                "message": msg, "spec": json.loads(spec_js)},
                               indent=1, sort_keys=True))
        lines.append((bucket, msg, path, b["count"]))

    # 5. evidence
    ev_total = sum(st.evaluations for st in allstats.values())
    nt_total = sum(len(st.nt) for st in allstats.values())
    samples = []
    for st in allstats.values():
        samples.extend(st.samples[:2])
    labels = {}
    for name, st in allstats.items():
        labels[name] = dict(st.labels.most_common(90))
    evidence = {
        "property_id": prop, "tier": tier, "seed": seed_value,
        "level": "exploration",
        "coverage": {
            "evaluations": ev_total,
            "distinct_nontrivial": nt_total,
            "rule": mod.RULE,
            "samples": samples[:8],
            "exhaustive": False,
            "subchecks": {name: {"evaluations": st.evaluations,
                                 "distinct_nontrivial": len(st.nt),
                                 "exhaustive_enumeration": st.exhaustive,
                                 "note": by_name[name].note}
                          for name, st in allstats.items()},
            "class_distribution": labels,
            "replayed_regression_specs": nreplayed,
            "shards": shards,
            "known_findings_reproduced": sorted(seen_known),
            "new_violation_buckets": [{"bucket": b, "message": m, "count": c}
                                      for b, m, p, c in lines],
        },
        "assumptions": list(getattr(mod, "ASSUMPTIONS", [])),
        "wall_s": round(time.time() - t0, 2),
        "violations": len(lines),
    }
    ev_dir = os.environ.get("VERIF_EVIDENCE_DIR") or os.path.join(VERIF, "evidence")
    os.makedirs(ev_dir, exist_ok=True)
    with open(os.path.join(ev_dir, prop + ".json"), "w") as f:
        json.dump(evidence, f, indent=1, sort_keys=True)
        f.write("\n")

    print("%s %s: %d cases, %d distinct non-trivial, %d new violation bucket(s), %.1fs" % (
        prop, tier, ev_total, nt_total, len(lines), time.time() - t0))
    for name, st in allstats.items():
        print("  %-28s eval=%-7d nontrivial=%-7d %s" % (
            name, st.evaluations, len(st.nt),
            "exhaustive" if st.exhaustive else ""))
    for bucket, msg, path, count in lines:
        print("  bucket %s (x%d): %s" % (bucket, count, msg[:400]))
    for bucket, msg, path, count in lines:
        print("VIOLATION property=%s replay=%s" % (prop, path))
    if ev_total == 0:
        raise HarnessError("no case was evaluated")
    return 1 if lines else 0


def main(argv):
    import argparse
    ap = argparse.ArgumentParser()
    ap.add_argument("prop")
    ap.add_argument("--tier", default=os.environ.get("VERIF_TIER") or "quick",
                    choices=["quick", "thorough"])
    ap.add_argument("--replay")
    a = ap.parse_args(argv)
    modname = "props." + a.prop.lower()
    try:
        return run_property(modname, a.tier, a.replay)
    except HarnessError as e:
        print("HARNESS-ERROR: %s" % e, file=sys.stderr)
        return 2
    except BaseException as e:
        print("HARNESS-ERROR: %s" % "".join(
            traceback.format_exception(type(e), e, e.__traceback__)), file=sys.stderr)
        return 2
