import sys
from .core import main
sys.exit(main(sys.argv[1:]))
