"""Run a program spec against a result flavour and normalise what was observed."""
from . import programs as P
from . import streams
from .results import Ext, Py26, Py27, Twisted, OUTCOMES

FLAVOURS = ["ext", "py26", "py27", "twisted", "real", "stream", "none", "stdlib", "locals"]
# "stdlib": a probed unittest.TestResult (the real one, with addSubTest / addDuration and no details protocol);
# "locals": a probed testtools.TestResult(tb_locals=True)
STATUS_TO_OUTCOME = {"success": "addSuccess", "fail": "addFailure", "skip": "addSkip", "xfail": "addExpectedFailure",
                     "uxsuccess": "addUnexpectedSuccess"}


def degrade(outcome, flavour):
    """What a flavour can show for an outcome the runner chose."""
    if flavour == "py26":
        return {"addSkip": "addSuccess", "addExpectedFailure": "addSuccess", "addUnexpectedSuccess": "addFailure"}.get(outcome, outcome)
    if flavour == "stream":
        return {"addError": "addFailure"}.get(outcome, outcome)
    return outcome


def run_program(prog, flavour, case=None, live=None, runner=None, falsy=False):
    """-> dict(events=[(name, ...)], outcomes=[names], raised=exc|None, live, case, result, wellformed=bool)"""
    import testtools
    live = live or P.Live()
    shared = []
    if flavour in ("ext", "none"):
        res = Ext(log=shared)
    elif flavour == "py26":
        res = Py26(log=shared)
    elif flavour == "py27":
        res = Py27(log=shared)
    elif flavour == "twisted":
        res = Twisted(log=shared)
    elif flavour in ("real", "stdlib", "locals"):
        import unittest
        base = unittest.TestResult if flavour == "stdlib" else testtools.TestResult

        class Probe(base):
            pass
        for m in ("startTest", "stopTest") + OUTCOMES:
            def mk(m):
                def f(self, test, *a, **kw):
                    # the real method first: a call it rejects (details= to the stdlib result) is not an event
                    r = getattr(base, m)(self, test, *a, **kw)
                    shared.append((m, test, {"details": kw.get("details"), "args": a}))
                    return r
                return f
            setattr(Probe, m, mk(m))
        res = Probe(tb_locals=True) if flavour == "locals" else Probe()
    elif flavour == "stream":
        rec = streams.Recorder(log=shared)
        res = testtools.ExtendedToStreamDecorator(rec)
    else:
        raise AssertionError(flavour)
    if falsy:
        # (C01) a result object whose truth value is False: it has a length, and that is 0
        res.__class__ = type("Falsy" + type(res).__name__, (type(res),), {"__len__": lambda self: 0})
    if case is None:
        case = P.build_case(prog, live, result_log=shared, runner=runner)
    raised = None
    try:
        if flavour == "none":
            case.defaultTestResult = lambda: res
            case.run()
        else:
            case.run(res)
    except BaseException as e:
        if isinstance(e, (MemoryError, RecursionError)):
            raise
        raised = e
    # normalise
    events = []
    if flavour == "stream":
        for item in shared:
            if item[1] == "status":
                s = item[2]
                if s["test_status"] == "inprogress":
                    events.append(("startTest", s["test_id"]))
                elif s["test_status"] in streams.FINAL:
                    events.append((STATUS_TO_OUTCOME.get(s["test_status"], "status:" + s["test_status"]), s["test_id"]))
                # file events carry details; ignored here
            else:
                events.append((item[1],))
        # ETSD has no stopTest event on the stream; the bracket is inprogress ... final
    else:
        for ev in shared:
            events.append(ev)
    return {"events": events, "raised": raised, "live": live, "case": case, "result": res, "shared": shared, "flavour": flavour}


def outcome_names(obs):
    return [e[0] for e in obs["events"] if e[0] in OUTCOMES]
