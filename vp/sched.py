"""Deterministic cooperative scheduler: real OS threads, exactly one runs at a time, every
context switch is decided by the harness from a list of small ints (the schedule)."""
import threading

from .core import HarnessError

WATCHDOG = 20.0
_local = threading.local()


class Deadlock(Exception):
    def __init__(self, blocked):
        Exception.__init__(self, "deadlock: %r" % (blocked,))
        self.blocked = blocked


class Killed(BaseException):
    """Raised inside a task thread to unwind it when the scheduler gives up on a case."""


class Task:
    def __init__(self, sched, fn, name):
        self.sched = sched
        self.fn = fn
        self.name = name
        self.tid = len(sched.tasks)
        self.go = threading.Event()
        self.done = False
        self.started = False
        self.pred = None
        self.label = "start"
        self.error = None
        self.kill = False
        self.thread = threading.Thread(target=self._main, name="vp-task-%s" % name, daemon=True)

    def _main(self):
        _local.task = self
        self.go.wait()
        self.go.clear()
        try:
            if not self.kill:
                self.fn()
        except Killed:
            pass
        except BaseException as e:       # a task body is harness code: it catches what it expects
            self.error = e
        finally:
            self.done = True
            _local.task = None
            self.sched.back.set()


def current_task():
    return getattr(_local, "task", None)


class Scheduler:
    def __init__(self, choices=(), tail=None):
        self.tasks = []
        self.choices = list(choices)
        self.pos = 0
        # what to do once the explicit choices are used up: None = never pre-empt again; {"seed": s, "p": k} =
        # go on pre-empting at about one decision in k, picking the other thread from a fixed congruential
        # sequence (a pure function of the spec, so runs stay reproducible and shrinkable)
        self.tail = dict(tail) if tail else None
        self._x = (self.tail["seed"] * 2654435761 + 1) % (1 << 31) if self.tail else 0
        self.back = threading.Event()
        self.current = None
        self.decisions = []      # (n_options, current_was_enabled, choice_taken)
        self.switches = 0
        self.trace = []
        self.running = False
        self.hooks = []          # callables(task_from, task_to) at each switch

    # ---- called by harness (main thread)
    def spawn(self, fn, name=None):
        t = Task(self, fn, name or str(len(self.tasks)))
        self.tasks.append(t)
        t.thread.start()
        return t

    def _enabled(self):
        out = []
        for t in self.tasks:
            if t.done:
                continue
            if t.pred is None or t.pred():
                out.append(t)
        return out

    def _pick(self, enabled):
        cur_ok = self.current is not None and self.current in enabled
        if cur_ok:
            ordered = [self.current] + [t for t in enabled if t is not self.current]
        else:
            ordered = list(enabled)
        if len(ordered) == 1:
            return ordered[0]
        if self.pos < len(self.choices):
            c = self.choices[self.pos] % len(ordered)
        elif self.tail:
            self._x = (self._x * 1103515245 + 12345) % (1 << 31)
            c = 0
            if (self._x >> 16) % self.tail["p"] == 0:
                c = (self._x >> 8) % len(ordered)
        else:
            c = 0
        self.pos += 1
        self.decisions.append((len(ordered), cur_ok, c))
        return ordered[c]

    def run(self, max_steps=100000):
        """Run until every task has finished.  Raises Deadlock."""
        self.running = True
        steps = 0
        try:
            while True:
                if all(t.done for t in self.tasks):
                    return
                enabled = self._enabled()
                if not enabled:
                    raise Deadlock([(t.name, t.label) for t in self.tasks if not t.done])
                nxt = self._pick(enabled)
                if self.current is not None and nxt is not self.current and not self.current.done:
                    self.switches += 1
                    for h in self.hooks:
                        h(self.current, nxt)
                self.current = nxt
                self.back.clear()
                nxt.go.set()
                if not self.back.wait(WATCHDOG):
                    raise HarnessError("scheduler watchdog: task %s did not yield (label %s)" % (nxt.name, nxt.label))
                steps += 1
                if steps > max_steps:
                    raise HarnessError("scheduler: step budget exceeded")
        finally:
            self.running = False
            self.shutdown()

    def shutdown(self):
        for t in self.tasks:
            if not t.done:
                t.kill = True
                t.pred = None
                self.back.clear()
                t.go.set()
                self.back.wait(WATCHDOG)
        for t in self.tasks:
            t.thread.join(WATCHDOG)

    # ---- called from task threads
    def yield_point(self, label, pred=None):
        t = current_task()
        if t is None or t.sched is not self or not self.running:
            # not a controlled thread (or the run is over): behave like the real primitive
            if pred is not None and not pred():
                raise HarnessError("uncontrolled thread would block at %s" % label)
            return
        if t.kill:
            raise Killed()
        t.label = label
        t.pred = pred
        self.trace.append((t.tid, label))
        self.back.set()
        if not t.go.wait(WATCHDOG * 3):
            raise HarnessError("task %s was never resumed at %s" % (t.name, label))
        t.go.clear()
        t.pred = None
        if t.kill:
            raise Killed()


class FakeSemaphore:
    def __init__(self, sched, value=1):
        self.sched = sched
        self.count = value
        self.max_seen = value
        self.min_seen = value
        self.holder = None

    def acquire(self, blocking=True, timeout=None):
        if not blocking:
            # a try-lock: one scheduling point, then it either gets the semaphore or reports False
            self.sched.yield_point("sem.try_acquire")
            if self.count <= 0:
                return False
        else:
            self.sched.yield_point("sem.acquire", pred=lambda: self.count > 0)
        self.count -= 1
        self.min_seen = min(self.min_seen, self.count)
        self.holder = current_task()
        return True

    def release(self):
        self.count += 1
        self.max_seen = max(self.max_seen, self.count)
        self.holder = None
        self.sched.yield_point("sem.release")

    __enter__ = acquire

    def __exit__(self, *a):
        self.release()


class FakeQueue:
    def __init__(self, sched, maxsize=0):
        self.sched = sched
        self.items = []
        self.maxsize = maxsize

    def put(self, item):
        if self.maxsize and self.maxsize > 0:
            # a bounded queue: put() blocks while the queue is full
            self.sched.yield_point("queue.put", pred=lambda: len(self.items) < self.maxsize)
        else:
            self.sched.yield_point("queue.put")
        self.items.append(item)
        # the item is visible to the consumer before put() returns to the producer
        self.sched.yield_point("queue.put.done")

    def get(self):
        self.sched.yield_point("queue.get", pred=lambda: bool(self.items))
        return self.items.pop(0)

    def empty(self):
        return not self.items


def explore(run_one, preemption_bound, max_runs):
    """Bounded-exhaustive enumeration of schedules (DFS with replay).

    run_one(choices) -> decisions list [(n_options, current_enabled, choice)] of that run.
    Yields each explored choice list.  A *pre-emption* is a non-zero choice at a point where the
    current task could have continued."""
    stack = [[]]
    seen = 0
    complete = True
    while stack:
        prefix = stack.pop()
        decisions = run_one(prefix)
        seen += 1
        yield prefix
        if seen >= max_runs:
            complete = not stack
            break
        taken = [d[2] for d in decisions]
        used = sum(1 for d in decisions[:len(prefix)] if d[1] and d[2] != 0)
        for j in range(len(prefix), len(decisions)):
            n, cur_ok, c = decisions[j]
            for alt in range(1, n):
                cost = used + sum(1 for d in decisions[len(prefix):j] if d[1] and d[2] != 0) + (1 if cur_ok else 0)
                if cost <= preemption_bound:
                    stack.append(taken[:j] + [alt])
    explore.complete = complete and not stack
