"""Stream-event model shared by C10, C11, C18: event specs over small alphabets,
application of an event spec to a live StreamResult, snapshotting recorders."""
import copy
import datetime

from hypothesis import strategies as st

UTC = datetime.timezone.utc
FINAL = ("exists", "xfail", "uxsuccess", "success", "fail", "skip", "unknown")
INTERIM = (None, "inprogress")
TEXT_NAMES = ("f", "réason-x")
BIN_NAMES = ("g",)
TEXT_MIMES = ('text/plain; charset="utf8"', "text/plain;charset=utf8", "text/plain", 'text/x-log; charset="utf8"')
BIN_MIMES = (None, "application/octet-stream", 'application/x-bar; k="v"')
TEXT_CHUNKS = (b"", b"1", b"22", "é".encode("utf8"), b"line\n")
BIN_CHUNKS = (b"", b"\xff\x00", b"1", b"\xc3")


OTHER_TZ = datetime.timezone(datetime.timedelta(hours=5, minutes=30))


def ts(k):
    if k is None:
        return None
    if k == "tz":      # an aware timestamp that is not in UTC
        return datetime.datetime(2000, 1, 1, 12, 0, 7, tzinfo=OTHER_TZ)
    if k == "usec":    # microseconds matter
        return datetime.datetime(2000, 1, 1, 0, 0, 1, 250001, tzinfo=UTC)
    if k == "naive":   # a naive datetime is the caller's business: it is forwarded as it is
        return datetime.datetime(2000, 1, 1, 0, 0, 4)
    if k == "future":  # a supplied timestamp far ahead of the real clock
        return datetime.datetime(2100, 1, 1, 0, 0, 0, tzinfo=UTC)
    return datetime.datetime(2000, 1, 1, 0, 0, k, tzinfo=UTC)


ROUTE = st.one_of(st.none(), st.lists(st.sampled_from(["0", "1", "x"]), min_size=1, max_size=3).map("/".join))
TAGS = st.one_of(st.none(), st.none(),
                 st.sets(st.sampled_from(["t", "u", "v"]), max_size=3),
                 st.frozensets(st.sampled_from(["t", "u", "v"]), max_size=3))


@st.composite
def event(draw, ids=(None, "a", "b", "c"), routes=ROUTE, statuses=INTERIM + INTERIM + FINAL, tags=TAGS, stamps=(None, 0, 1, 2, 3, 5)):
    ev = {"test_id": draw(st.sampled_from(ids)),
          "test_status": draw(st.sampled_from(statuses)),
          "test_tags": draw(tags),
          "runnable": draw(st.sampled_from([True, True, False])),
          "route_code": draw(routes),
          "timestamp": draw(st.sampled_from(stamps)),
          "file_name": None, "file_bytes": None, "eof": False, "mime_type": None}
    if draw(st.integers(0, 2)) == 0:
        if draw(st.booleans()):
            ev["file_name"] = draw(st.sampled_from(TEXT_NAMES))
            ev["file_bytes"] = draw(st.sampled_from(TEXT_CHUNKS))
            ev["mime_type"] = draw(st.sampled_from(TEXT_MIMES))
        else:
            ev["file_name"] = draw(st.sampled_from(BIN_NAMES))
            ev["file_bytes"] = draw(st.sampled_from(BIN_CHUNKS))
            ev["mime_type"] = draw(st.sampled_from(BIN_MIMES))
        ev["eof"] = draw(st.booleans())
    return ev


def kwargs_of(ev):
    """The keyword arguments of one status() call (fresh objects every time)."""
    kw = dict(ev)
    for f in ("test_id", "test_status", "file_name", "mime_type", "route_code"):
        if isinstance(kw[f], str):
            kw[f] = (kw[f] + " ")[:-1]        # a string object made at run time, not the interned literal
    kw["timestamp"] = ts(ev["timestamp"])
    t = ev["test_tags"]
    kw["test_tags"] = None if t is None else (frozenset(t) if isinstance(t, frozenset) else set(t))
    return kw


FIELDS = ("test_id", "test_status", "test_tags", "runnable", "file_name", "file_bytes", "eof",
          "mime_type", "route_code", "timestamp")


class Recorder:
    """A StreamResult sink that snapshots every call (deep copies of the arguments) and
    keeps the live argument objects for identity checks."""

    def __init__(self, name="sink", log=None):
        self.name = name
        self.events = []       # ("startTestRun",) / ("stopTestRun",) / ("status", {field: snapshot})
        self.live = []         # the live kwargs dicts of status calls
        self.shared = log      # optional shared chronological log

    def startTestRun(self):
        self.events.append(("startTestRun",))
        if self.shared is not None:
            self.shared.append((self.name, "startTestRun"))

    def stopTestRun(self):
        self.events.append(("stopTestRun",))
        if self.shared is not None:
            self.shared.append((self.name, "stopTestRun"))

    def status(self, test_id=None, test_status=None, test_tags=None, runnable=True, file_name=None,
               file_bytes=None, eof=False, mime_type=None, route_code=None, timestamp=None):
        live = dict(test_id=test_id, test_status=test_status, test_tags=test_tags, runnable=runnable,
                    file_name=file_name, file_bytes=file_bytes, eof=eof, mime_type=mime_type,
                    route_code=route_code, timestamp=timestamp)
        snap = dict(live)
        snap["test_tags"] = None if test_tags is None else frozenset(test_tags)
        self.live.append(live)
        self.events.append(("status", snap))
        if self.shared is not None:
            self.shared.append((self.name, "status", snap))

    def statuses(self):
        return [e[1] for e in self.events if e[0] == "status"]


def norm_event(ev):
    """An event spec rendered the way a Recorder snapshot looks."""
    kw = kwargs_of(ev)
    kw["test_tags"] = None if kw["test_tags"] is None else frozenset(kw["test_tags"])
    return kw
