"""Harness-owned recording results, one per protocol flavour.  They do not depend on
testtools (so a change in the tree under test cannot bend the observer) and snapshot
detail bytes at the moment of the call."""


def snap_details(details):
    """{name: (mime string, bytes)} evaluated now."""
    out = {}
    for name, c in (details or {}).items():
        try:
            data = b"".join(c.iter_bytes())
        except Exception as e:  # evaluated lazily by a consumer: record the failure
            data = e
        out[name] = (repr(c.content_type), c.content_type, data)
    return out


class _Base:
    flavour = "base"

    def __init__(self, log=None, name=None):
        self.events = [] if log is None else log
        self.name = name
        self.shouldStop = False
        self.testsRun = 0
        self._ok = True
        self.now = None              # last value given to time()
        self._global_tags = set()
        self._local_tags = None

    # -- helpers
    def _e(self, *ev):
        self.events.append(ev if self.name is None else (self.name,) + ev)

    @property
    def model_tags(self):
        return set(self._global_tags if self._local_tags is None else self._local_tags)

    def startTest(self, test):
        self.testsRun += 1
        self._local_tags = set(self._global_tags)
        self._e("startTest", test, {"time": self.now, "tags": frozenset(self.model_tags)})

    def stopTest(self, test):
        self._e("stopTest", test, {"time": self.now, "tags": frozenset(self.model_tags)})
        self._local_tags = None

    def stop(self):
        self.shouldStop = True
        self._e("stop")

    def wasSuccessful(self):
        return self._ok

    def _ctx(self, **kw):
        kw["time"] = self.now
        kw["tags"] = frozenset(self.model_tags)
        return kw


class Py26(_Base):
    """addSuccess/addError/addFailure only; no startTestRun; no details."""
    flavour = "py26"

    def addError(self, test, err):
        self._ok = False
        self._e("addError", test, self._ctx(err=err))

    def addFailure(self, test, err):
        self._ok = False
        self._e("addFailure", test, self._ctx(err=err))

    def addSuccess(self, test):
        self._e("addSuccess", test, self._ctx())


class Py27(Py26):
    flavour = "py27"

    def __init__(self, log=None, name=None):
        super().__init__(log, name)
        self.failfast = False

    def addError(self, test, err):
        super().addError(test, err)
        if self.failfast:
            self.stop()

    def addFailure(self, test, err):
        super().addFailure(test, err)
        if self.failfast:
            self.stop()

    def addExpectedFailure(self, test, err):
        self._e("addExpectedFailure", test, self._ctx(err=err))

    def addSkip(self, test, reason):
        self._e("addSkip", test, self._ctx(reason=reason))

    def addUnexpectedSuccess(self, test):
        self._ok = False
        self._e("addUnexpectedSuccess", test, self._ctx())
        if self.failfast:
            self.stop()

    def startTestRun(self):
        self._e("startTestRun")

    def stopTestRun(self):
        self._e("stopTestRun")


class Ext(Py27):
    """The extended protocol: details=, tags(), time(), progress(), done()."""
    flavour = "ext"

    def _out(self, name, test, err, details, reason=None):
        kw = {}
        if err is not None:
            kw["err"] = err
        if reason is not None:
            kw["reason"] = reason
        if details is not None:
            kw["details"] = snap_details(details)
            kw["details_obj"] = details
        self._e(name, test, self._ctx(**kw))

    def addError(self, test, err=None, details=None):
        self._ok = False
        self._out("addError", test, err, details)
        if self.failfast:
            self.stop()

    def addFailure(self, test, err=None, details=None):
        self._ok = False
        self._out("addFailure", test, err, details)
        if self.failfast:
            self.stop()

    def addExpectedFailure(self, test, err=None, details=None):
        self._out("addExpectedFailure", test, err, details)

    def addSkip(self, test, reason=None, details=None):
        self._out("addSkip", test, None, details, reason)

    def addSuccess(self, test, details=None):
        self._out("addSuccess", test, None, details)

    def addUnexpectedSuccess(self, test, details=None):
        self._ok = False
        self._out("addUnexpectedSuccess", test, None, details)
        if self.failfast:
            self.stop()

    def progress(self, offset, whence):
        self._e("progress", offset, whence)

    def done(self):
        self._e("done")

    def startTestRun(self):
        self._ok = True
        self._global_tags = set()
        self._local_tags = None
        self._e("startTestRun")

    def tags(self, new_tags, gone_tags):
        new_tags, gone_tags = set(new_tags), set(gone_tags)
        tgt = self._global_tags if self._local_tags is None else self._local_tags
        tgt.update(new_tags)
        tgt.difference_update(gone_tags)
        self._e("tags", frozenset(new_tags), frozenset(gone_tags))

    @property
    def current_tags(self):
        return self.model_tags

    def time(self, t):
        self.now = t
        self._e("time", t)


class Twisted(_Base):
    """IReporter-like: addExpectedFailure(test, failure, todo), addUnexpectedSuccess(test, todo),
    addSkip(test, reason), done(); no startTestRun, no details."""
    flavour = "twisted"

    def addSuccess(self, test):
        self._e("addSuccess", test, self._ctx())

    def addError(self, test, error):
        self._ok = False
        self._e("addError", test, self._ctx(err=error))

    def addFailure(self, test, error):
        self._ok = False
        self._e("addFailure", test, self._ctx(err=error))

    def addExpectedFailure(self, test, failure, todo=None):
        self._e("addExpectedFailure", test, self._ctx(err=failure))

    def addUnexpectedSuccess(self, test, todo=None):
        self._e("addUnexpectedSuccess", test, self._ctx())

    def addSkip(self, test, reason):
        self._e("addSkip", test, self._ctx(reason=reason))

    def done(self):
        self._e("done")


FLAVOURS = {"py26": Py26, "py27": Py27, "ext": Ext, "twisted": Twisted}
OUTCOMES = ("addSuccess", "addError", "addFailure", "addSkip", "addExpectedFailure", "addUnexpectedSuccess")


def outcomes_of(events, offset=0):
    return [e for e in events if e[offset] in OUTCOMES]
