"""TestResult-call histories (C04, C08, C09, C17): generation, model, application."""
import datetime
import sys

from hypothesis import strategies as st

UTC = datetime.timezone.utc
KINDS = ("success", "error", "failure", "skip", "xfail", "uxsuccess")
METHOD = {"success": "addSuccess", "error": "addError", "failure": "addFailure", "skip": "addSkip",
          "xfail": "addExpectedFailure", "uxsuccess": "addUnexpectedSuccess"}
BAD = ("error", "failure", "uxsuccess")
TAGS = ["t", "u", "v", "w"]


OTHER_TZ = datetime.timezone(datetime.timedelta(hours=5, minutes=30))


def ts(k):
    """k seconds after a fixed instant (k may be fractional); k >= 1000 means: k - 1000 seconds after it, expressed
    in a time zone other than UTC."""
    if k is None:
        return None
    if k >= 1000:
        return (datetime.datetime(2001, 2, 3, 4, 5, 0, tzinfo=UTC) + datetime.timedelta(seconds=k - 1000)).astimezone(OTHER_TZ)
    return datetime.datetime(2001, 2, 3, 4, 5, 0, tzinfo=UTC) + datetime.timedelta(seconds=k)


CT_SPECS = [
    ("text", "plain", {"charset": "utf8"}),
    ("text", "plain", {}),
    ("text", "x-traceback", {"language": "python", "charset": "utf8"}),
    ("application", "octet-stream", {}),
    ("application", "x-thing", {"k": "v w", "z": "é"}),
    ("text", "x-log", {"charset": "latin-1", "origin": "a;b=c"}),
    ("text", "csv", {"charset": "utf8", "columns": "id,name,status"}),
    ("text", "plain", {"charset": "UTF-8"}),                                     # upper case in a value
    ("application", "vnd.x+json", {"k": " v "}),                                 # '+' / '.' in the subtype, blanks at the edges of a value
    ("text", "x-empty", {"k": ""}),                                              # an empty value
    ("text", "x-long", {"k": "x" * 90}),                                         # longer than a folded header line
    ("application", "x-thing", {"a": "1", "b": "2", "c": "3", "d": "utf-8''a%20b"}),   # four parameters, an RFC 2231 look-alike
]
TEXT_CHUNKS = st.sampled_from([b"", b"a", b"line one\n", "é".encode("utf8"), b"  ", b"x y", "中文".encode("utf8"), b"tail"] * 3 +
                              [b"y" * 70000, ("é" * 3000).encode("utf8")])       # and, now and then, a chunk beyond any buffer size
BIN_CHUNKS = st.sampled_from([b"", b"\xff\x00", b"\x80abc", b"1", b"\n"])
NAMES = st.sampled_from(["log", "traceback", "détail", "a b", "x", "reason2", "stdout"])


@st.composite
def s_detail(draw):
    cti = draw(st.integers(0, len(CT_SPECS) - 1))
    ct = CT_SPECS[cti]
    is_utf8 = ct[0] == "text" and (ct[2].get("charset") or "").lower().replace("-", "") == "utf8"
    chunks = draw(st.lists(TEXT_CHUNKS if is_utf8 else st.one_of(TEXT_CHUNKS, BIN_CHUNKS), max_size=4))
    data = b"".join(chunks)
    if len(data) >= 2 and draw(st.integers(0, 2)) == 0:
        # the same bytes cut at arbitrary byte positions (a chunk boundary may fall inside a character)
        cuts = sorted(draw(st.sets(st.integers(1, len(data) - 1), min_size=1, max_size=3)))
        chunks = [data[a:b] for a, b in zip([0] + cuts, cuts + [len(data)])]
    return {"ct": cti, "chunks": chunks}


DETAILS = st.dictionaries(NAMES, s_detail(), max_size=3)
CALL = st.sampled_from(["pos", "pos", "kw"])       # err / reason handed over positionally or by keyword
REASON = st.sampled_from(["", "because", "réason ünicode", "two\nlines", " padded "])


@st.composite
def s_payload(draw, kind, allow_err=True, skip_both=False):
    """What is passed to the outcome method besides the test."""
    if kind == "success":
        return {"form": draw(st.sampled_from(["none", "none", "details"])), "details": draw(DETAILS)}
    if kind == "uxsuccess":
        return {"form": draw(st.sampled_from(["none", "details"])), "details": draw(DETAILS)}
    if kind == "skip":
        form = draw(st.sampled_from(["reason", "details", "details+reasondetail"] + (["reason+details"] if skip_both else [])))
        return {"form": form, "reason": draw(REASON), "details": draw(DETAILS), "call": draw(CALL)}
    form = draw(st.sampled_from(["err", "details"] if allow_err else ["details"]))
    return {"form": form, "details": draw(DETAILS), "exc": draw(st.sampled_from(["RuntimeError", "AssertionError", "ValueError", "KeyError"])),
            "call": draw(CALL)}


PAYLOAD = {k: s_payload(k) for k in KINDS}
PAYLOAD_BOTH = dict(PAYLOAD, skip=s_payload("skip", skip_both=True))
TAGSET = st.sets(st.sampled_from(TAGS), max_size=2)
KIND = st.sampled_from(KINDS)
TIMES = st.sampled_from([None, 0, 1, 2, 5, 9, 3, 1.000001, 7.5, 1004])


@st.composite
def s_history(draw, max_tests=4, with_run=True, with_tags=True, with_time=True, with_control=False,
              with_startless=False, with_placeholder=False, tags_after_outcome=True, test_kinds=("case",),
              second_run=True, max_ops=30, skip_both=False, loose_runs=False, tagset=None, all_tags=None):
    # tagset / all_tags (C17): another tag alphabet - a module-level strategy for one tags() argument and the list of
    # every tag it can yield; the defaults are TAGSET / TAGS
    tagset = TAGSET if tagset is None else tagset
    all_tags = TAGS if all_tags is None else all_tags
    ops = []
    in_test = False
    have_outcome = False
    ntests = 0
    in_run = False
    if with_run and draw(st.integers(0, 3)) > 0:
        ops.append({"op": "startTestRun"})
        in_run = True
    budget = draw(st.integers(1, max_ops))
    marker = 0
    while len(ops) < budget:
        choices = []
        if in_test:
            choices += ["outcome"] * 3 if not have_outcome else ["stopTest"] * 3
            if with_tags and (not have_outcome or tags_after_outcome):
                choices += ["tags"]
            if with_time:
                choices += ["time"]
        else:
            if ntests < max_tests:
                choices += ["startTest"] * 3
                if with_startless:
                    choices += ["startless_skip"]
                if with_placeholder:
                    choices += ["placeholder"]
            if with_tags:
                choices += ["tags"]
            if with_time:
                choices += ["time"]
            if with_run and second_run and in_run and ntests > 0:
                choices += ["restart"]
            if loose_runs and with_run and len(ops) > 0:
                # run boundaries anywhere between tests: a first explicit start after earlier activity, a start while a
                # run is in progress, a stop that is followed by more reports
                choices += ["loose_start"] + (["loose_stop"] if in_run else [])      # (a stop without any start is a malformed use)
            if with_control:
                choices += ["stop", "done", "progress"]
        if not choices:
            break
        c = draw(st.sampled_from(choices))
        if c == "startTest":
            ops.append({"op": "startTest", "i": ntests, "tk": draw(st.sampled_from(test_kinds))})
            in_test, have_outcome = True, False
            ntests += 1
        elif c == "outcome":
            kind = draw(KIND)
            marker += 1
            ops.append({"op": "outcome", "kind": kind, "payload": draw((PAYLOAD_BOTH if skip_both else PAYLOAD)[kind]), "marker": marker})
            have_outcome = True
        elif c == "stopTest":
            ops.append({"op": "stopTest"})
            in_test = False
        elif c == "tags":
            new = draw(tagset)
            gone = draw(tagset) - new
            if in_test and draw(st.integers(0, 5)) == 0:
                new, gone = set(), set(all_tags)     # the test drops every tag that is current (also the run-level ones)
            ops.append({"op": "tags", "new": sorted(new), "gone": sorted(gone)})
        elif c == "time":
            ops.append({"op": "time", "t": draw(TIMES)})
        elif c == "restart":
            ops.append({"op": "stopTestRun"})
            ops.append({"op": "startTestRun"})
        elif c == "loose_start":
            ops.append({"op": "startTestRun"})
            in_run = True
        elif c == "loose_stop":
            ops.append({"op": "stopTestRun"})
            in_run = False
        elif c == "startless_skip":
            between = None
            if with_tags and draw(st.integers(0, 2)) == 0:       # a tags() call wedged between the addSkip and its stopTest
                new = draw(tagset)
                between = {"new": sorted(new), "gone": sorted(draw(tagset) - new)}
            ops.append({"op": "startless_skip", "i": ntests, "reason": draw(REASON), "tk": "case", "tags_between": between})
            ntests += 1
        elif c == "placeholder":
            ops.append({"op": "placeholder", "i": ntests, "tags": sorted(draw(tagset)),
                        "kind": draw(KIND)})
            ntests += 1
        elif c == "progress":
            ops.append({"op": "progress", "offset": draw(st.integers(-2, 5)), "whence": draw(st.sampled_from([0, 1, 2]))})
        else:
            ops.append({"op": c})
    if in_test:
        if not have_outcome:
            marker += 1
            kind = draw(KIND)
            ops.append({"op": "outcome", "kind": kind, "payload": draw((PAYLOAD_BOTH if skip_both else PAYLOAD)[kind]), "marker": marker})
        ops.append({"op": "stopTest"})
    if in_run and draw(st.booleans()):
        ops.append({"op": "stopTestRun"})
    return {"ops": ops}


# ------------------------------------------------------------------ live objects
def make_test(i, kind="case"):
    """A reported test object: real TestCase, PlaceHolder or ErrorHolder."""
    import testtools
    if kind == "placeholder":
        return testtools.PlaceHolder("ph.test_%d" % i)
    if kind == "errorholder":
        try:
            raise RuntimeError("holder-%d" % i)
        except RuntimeError:
            return testtools.ErrorHolder("eh.test_%d" % i, sys.exc_info())

    class Sample(testtools.TestCase):
        def test_x(self):
            pass
    t = Sample("test_x")
    t.id = lambda: "case.test_%d" % i
    return t


def make_content(dspec):
    from testtools.content import Content
    from testtools.content_type import ContentType
    a, b, params = CT_SPECS[dspec["ct"]]
    chunks = list(dspec["chunks"])
    return Content(ContentType(a, b, dict(params)), lambda: iter(list(chunks)))


def make_details(dspecs):
    return {name: make_content(d) for name, d in dspecs.items()}


EXC = {"RuntimeError": RuntimeError, "AssertionError": AssertionError, "ValueError": ValueError, "KeyError": KeyError}


def make_exc_info(name, marker):
    try:
        raise EXC[name]("MARK-%d-%s" % (marker, name))
    except Exception:
        return sys.exc_info()


def outcome_call(result, test, op, shared=None):
    """Perform one outcome call described by ``op`` on ``result``.  Returns a dict describing
    what was supplied (for oracles).

    ``shared`` (a dict owned by the caller, one per history) makes the reporter behave like code that keeps one
    details dict per distinct set of attachments and hands the *same object* to several outcome calls.  The
    description returned always holds a private copy taken before the call, so whatever the code under test does
    to the dict it was given cannot rewrite the oracle's expectation - but it does reach the next call.
    ``shared={"<refill>": {}}`` is the other economy: one dict object for the whole history, emptied and
    refilled before every outcome."""
    from testtools.content import text_content
    kind, p = op["kind"], op["payload"]
    m = getattr(result, METHOD[kind])
    info = {"kind": kind, "details": None, "err": None, "reason": None}
    _plain_make = make_details

    def make_details_(dspec):
        if shared is None:
            return _plain_make(dspec)
        if "<refill>" in shared:
            # a reporter that owns one dict and refills it for every outcome (or whose dicts are freed and
            # their addresses recycled): the object is the same, what it holds is not
            d = shared["<refill>"]
            d.clear()
            d.update(_plain_make(dspec))
            return d
        key = repr(sorted(dspec.items()))
        if key not in shared:
            shared[key] = _plain_make(dspec)
        return shared[key]
    if kind == "skip":
        if p["form"] == "reason":
            info["reason"] = p["reason"]
            if p.get("call") == "kw":
                m(test, reason=p["reason"])
            else:
                m(test, p["reason"])
        elif p["form"] == "reason+details":
            d = make_details_(p["details"])
            info["reason"] = p["reason"]
            info["details"] = dict(d)
            info["details_live"] = d
            m(test, p["reason"], details=d)
        else:
            d = make_details_(p["details"])
            if p["form"] == "details+reasondetail":
                d = dict(d)
                d["reason"] = text_content(p["reason"])
                info["reason"] = p["reason"]
            info["details"] = dict(d)
            info["details_live"] = d
            m(test, details=d)
    elif p["form"] == "none":
        m(test)
    elif p["form"] == "details":
        d = make_details_(p["details"])
        info["details"] = dict(d)
        info["details_live"] = d
        m(test, details=d)
    else:
        ei = make_exc_info(p["exc"], op["marker"])
        info["err"] = ei
        if p.get("call") == "kw":
            m(test, err=ei)
        else:
            m(test, ei)
    return info


class TagModel:
    """(global, local|None) - the statement of C17."""

    def __init__(self):
        self.g = set()
        self.l = None

    def start_run(self):
        self.g, self.l = set(), None

    def start_test(self):
        self.l = set(self.g)

    def stop_test(self):
        self.l = None

    def change(self, new, gone):
        tgt = self.g if self.l is None else self.l
        tgt.update(new)
        tgt.difference_update(gone)

    @property
    def current(self):
        return set(self.g if self.l is None else self.l)
