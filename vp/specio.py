"""JSON (de)serialisation of case specs.

Specs are plain Python values (dict/list/str/int/float/bool/None) plus bytes,
tuple, set and frozenset, which are tagged so that a replay file restores the
very same value."""
import json


def _enc(o):
    if isinstance(o, (bytes, bytearray)):
        return {"__b__": bytes(o).hex()}
    if isinstance(o, tuple):
        return {"__t__": [_enc(x) for x in o]}
    if isinstance(o, frozenset):
        return {"__fs__": sorted((_enc(x) for x in o), key=repr)}
    if isinstance(o, set):
        return {"__s__": sorted((_enc(x) for x in o), key=repr)}
    if isinstance(o, dict):
        if all(isinstance(k, str) for k in o):
            return {k: _enc(v) for k, v in o.items()}
        return {"__d__": [[_enc(k), _enc(v)] for k, v in o.items()]}
    if isinstance(o, list):
        return [_enc(x) for x in o]
    if isinstance(o, float) and o != o:
        return {"__f__": "nan"}
    if o is None or isinstance(o, (str, int, float, bool)):
        return o
    return {"__r__": repr(o)}


def _dec(o):
    if isinstance(o, list):
        return [_dec(x) for x in o]
    if isinstance(o, dict):
        if len(o) == 1:
            (k, v), = o.items()
            if k == "__b__":
                return bytes.fromhex(v)
            if k == "__t__":
                return tuple(_dec(x) for x in v)
            if k == "__fs__":
                return frozenset(_dec(x) for x in v)
            if k == "__s__":
                return set(_dec(x) for x in v)
            if k == "__d__":
                return {_dec(a): _dec(b) for a, b in v}
            if k == "__f__":
                return float(v)
            if k == "__r__":
                return v
        return {k: _dec(v) for k, v in o.items()}
    return o


def dumps(spec, **kw):
    return json.dumps(_enc(spec), sort_keys=True, ensure_ascii=True, **kw)


def loads(text):
    return _dec(json.loads(text))


def jsonable(spec):
    """A JSON-safe rendering (for evidence samples)."""
    return _enc(spec)
