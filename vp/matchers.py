"""Matcher-expression language for C06/C07/C20: typed spec trees, builder onto the real
testtools matchers, reference predicates written from the docstrings, value strategies
per domain (construction, not rejection)."""
import doctest
import io
import operator
import os
import re
import shutil
import sys
import tarfile
import tempfile
import warnings

from hypothesis import strategies as st

from .core import VERIF

# ----------------------------------------------------------------------------- values
INT = st.integers(-2, 5)
STR_ALPHA = "ab \n.é"
STR = st.one_of(st.text(st.sampled_from(STR_ALPHA), max_size=6),
                st.sampled_from(["True", "1", "False", "0", "a...b", "a  b", "a\n\nb", "<BLANKLINE>", "aXb", "ab"]))
HOSTILE = st.one_of(
    st.text(max_size=8),
    st.text(st.sampled_from("a\x00\x1b\r\n\t'\"\\é́中\U0001f600\ud800\udfff'''\"\"\""), max_size=10))
BYTES = st.one_of(st.binary(max_size=5), st.lists(st.sampled_from([b"a", b"b", b"\xff", b"\n", b"'", b"\\", b"\xc3\xa9"]), max_size=5).map(b"".join))
LIST = st.one_of(st.lists(st.integers(0, 3), max_size=4), st.lists(st.integers(0, 3), max_size=4),
                st.lists(st.integers(0, 5), min_size=4, max_size=6))
DICT = st.dictionaries(st.sampled_from(["a", "b", "c", "d"]), st.integers(0, 3), max_size=4)
OBJ = st.fixed_dictionaries({"a": st.integers(0, 3), "b": st.integers(0, 3)})
EXC_NAMES = ["ValueError", "KeyError", "RuntimeError", "LookupError", "ZeroDivisionError", "CustomError"]
EXC = st.fixed_dictionaries({"exc": st.sampled_from(EXC_NAMES), "args": st.lists(st.one_of(st.integers(0, 2), st.sampled_from(["boom", "a b", "é"])), max_size=2)})
WARN = st.lists(st.tuples(st.sampled_from(["DeprecationWarning", "UserWarning"]), st.sampled_from(["old", "use bar", "é"])), max_size=2)
CALLABLE = st.one_of(
    st.builds(lambda v: {"ret": v}, st.integers(0, 3)),
    st.builds(lambda e: {"raise": e}, EXC),
    st.builds(lambda w, v: {"warn": [list(x) for x in w], "ret": v}, WARN, st.integers(0, 3)),
    st.builds(lambda e: {"raise": {"exc": e, "args": ["x"]}}, st.sampled_from(["KeyboardInterrupt", "SystemExit", "CustomBase"])),
)
PATH_NAMES = ["file_a", "file_b", "dir_a", "dir_empty", "link_a", "link_dangling", "tar_a", "missing", "dir_a/inner"]
PATH = st.sampled_from(PATH_NAMES)
FS = st.fixed_dictionaries({
    "file_a": st.sampled_from(["", "hello", "hello\n", "é"]),
    "file_a_mode": st.sampled_from(["0644", "0600", "0755", "1644", "1755"]),
    "file_b": st.sampled_from(["hello", "x"]),
    "dir_a": st.lists(st.sampled_from(["inner", "x", "y"]), unique=True, max_size=3),
    "tar_a": st.lists(st.sampled_from(["m1", "m2", "d/m3"]), unique=True, max_size=3),
})
WARNING = st.fixed_dictionaries({"cat": st.sampled_from(["DeprecationWarning", "UserWarning", "FutureWarning"]),
                                 "msg": st.sampled_from(["old", "use bar", "é", "ab"]), "lineno": st.integers(0, 3)})
VALUES = {"int": INT, "str": STR, "bytes": BYTES, "list": LIST, "dict": DICT, "obj": OBJ,
          "exc_info": EXC, "callable": CALLABLE, "path": PATH, "warning": WARNING}


class CustomError(Exception):
    pass


class CustomBase(BaseException):
    pass


EXC_CLASSES = {"ValueError": ValueError, "KeyError": KeyError, "RuntimeError": RuntimeError, "LookupError": LookupError,
               "ZeroDivisionError": ZeroDivisionError, "CustomError": CustomError, "Exception": Exception,
               "KeyboardInterrupt": KeyboardInterrupt, "SystemExit": SystemExit, "CustomBase": CustomBase,
               "BaseException": BaseException, "ArithmeticError": ArithmeticError}

WARN_CLASSES = {"DeprecationWarning": DeprecationWarning, "UserWarning": UserWarning, "FutureWarning": FutureWarning}


class Obj:
    def __init__(self, a, b):
        self.a = a
        self.b = b

    def __repr__(self):
        return "Obj(a=%r, b=%r)" % (self.a, self.b)


def is_even(x):
    return x % 2 == 0


def divisible_by(x, k):
    return k != 0 and x % k == 0


def between(x, lo, hi=None):
    return lo <= x <= hi


def remainder_is_zero_ish(x, k):
    """Truthy (an int remainder, or a non-empty list) when x is NOT a multiple of k: never a bool."""
    if k == 0:
        return ["no multiples of zero"]
    return x % k


class IsSameObject:
    """Is(<the matchee itself>) or Is(<an equal copy of the matchee>): built at match time, because the
    reference object has to be the live value."""

    def __init__(self, same):
        self.same = same

    def __str__(self):
        return "IsSameObject(%r)" % self.same

    def match(self, value):
        import copy
        import testtools.matchers as tm
        return tm.Is(value if self.same else copy.copy(value)).match(value)


class Env:
    """Per-case scratch directory for the filesystem domain."""

    def __init__(self, fs=None, defer=False):
        self.fs = fs
        self.root = None
        self.defer = defer       # create the empty scratch directory only; populate() fills it later

    def path(self, name):
        return os.path.join(self.root, name)

    def __enter__(self):
        if self.fs is not None:
            base = os.path.join(VERIF, ".work")
            os.makedirs(base, exist_ok=True)
            self.root = tempfile.mkdtemp(prefix="fs-", dir=base)
            if not self.defer:
                self.populate()
        return self

    def populate(self):
        if self.fs is not None:
            fs = self.fs
            with open(self.path("file_a"), "w", encoding="utf8") as f:
                f.write(fs["file_a"])
            os.chmod(self.path("file_a"), int(fs["file_a_mode"], 8))
            with open(self.path("file_b"), "w", encoding="utf8") as f:
                f.write(fs["file_b"])
            os.mkdir(self.path("dir_a"))
            for n in fs["dir_a"]:
                with open(os.path.join(self.path("dir_a"), n), "w") as f:
                    f.write(n)
            os.mkdir(self.path("dir_empty"))
            os.symlink("file_a", self.path("link_a"))
            os.symlink("nowhere", self.path("link_dangling"))
            with tarfile.open(self.path("tar_a"), "w") as t:
                for m in fs["tar_a"]:
                    info = tarfile.TarInfo(m)
                    data = b"x"
                    info.size = len(data)
                    t.addfile(info, io.BytesIO(data))

    def repopulate(self, fs):
        """Replace the contents of the scratch directory by those of another spec (same paths, other contents)."""
        for n in os.listdir(self.root):
            q = os.path.join(self.root, n)
            if os.path.isdir(q) and not os.path.islink(q):
                shutil.rmtree(q)
            else:
                os.unlink(q)
        self.fs = fs
        self.populate()

    def __exit__(self, *a):
        if self.root:
            shutil.rmtree(self.root, ignore_errors=True)


def live_value(domain, v, env):
    """Spec value -> the live matchee."""
    if domain == "obj":
        return Obj(v["a"], v["b"])
    if domain == "exc_info":
        try:
            raise EXC_CLASSES[v["exc"]](*v["args"])
        except BaseException:
            return sys.exc_info()
    if domain == "callable":
        def fn():
            for cat, msg in v.get("warn", ()):
                warnings.warn(msg, WARN_CLASSES[cat])
            if "raise" in v:
                raise EXC_CLASSES[v["raise"]["exc"]](*v["raise"]["args"])
            return v["ret"]
        return fn
    if domain == "path":
        return env.path(v)
    if domain == "warning":
        return warnings.WarningMessage(message=WARN_CLASSES[v["cat"]](v["msg"]), category=WARN_CLASSES[v["cat"]],
                                       filename="somefile.py", lineno=v["lineno"], line=None)
    if domain == "list":
        flavour = getattr(env, "list_flavour", "list") if env is not None else "list"
        if flavour == "tuple":
            return tuple(v)
        if flavour == "iter":
            return iter(list(v))         # a one-shot iterator
        return list(v)
    if domain == "dict":
        flavour = getattr(env, "dict_flavour", "dict") if env is not None else "dict"
        if flavour == "defaultdict":
            import collections
            return collections.defaultdict(int, v)
        if flavour == "Counter":
            import collections
            c = collections.Counter()
            c.update(v)
            for k in v:                 # Counter.update drops nothing; keep zero counts as given
                c[k] = v[k]
            return c
        return dict(v)
    return v


# ----------------------------------------------------------------------------- matcher specs
def M(name, d, **a):
    a["m"] = name
    a["d"] = d
    return a


RE_PATTERNS = ["a", "a+b", ".*b$", "^$", "a.b", "(a|b)+", "[ab ]*", "A"]
DOC_EXAMPLES = ["a", "a b", "a...b", "a  b", "True", "1", "<BLANKLINE>", "a\n<BLANKLINE>\nb", "...", "é", "a\n\nb", "0"]
DOC_FLAGS = [0, doctest.ELLIPSIS, doctest.NORMALIZE_WHITESPACE, doctest.ELLIPSIS | doctest.NORMALIZE_WHITESPACE]


def leaf(domain):
    gen = [st.builds(lambda: M("Always", domain)), st.builds(lambda: M("Never", domain))]
    if domain == "int":
        gen += [st.builds(lambda k, n: M(n, "int", k=k), st.integers(-1, 4), st.sampled_from(["Equals", "NotEquals", "LessThan", "GreaterThan"])),
                st.builds(lambda t: M("IsInstance", "int", types=t), st.sampled_from([["int"], ["str"], ["str", "int"], ["bool"], ["int|str"], ["bool", "int|str"]])),
                st.builds(lambda: M("MatchesPredicate", "int")),
                st.builds(lambda k, form: M("MatchesPredicateWithParams", "int", k=k, form=form), st.integers(0, 3), st.sampled_from(["pos", "kw", "two", "truthy"])),
                st.builds(lambda: M("IsNone", "int"))]
    elif domain == "str":
        gen += [st.builds(lambda s, n: M(n, "str", s=s), STR, st.sampled_from(["Equals", "StartsWith", "EndsWith", "Contains", "NotEquals"])),
                st.builds(lambda p, f: M("MatchesRegex", "str", p=p, flags=f), st.sampled_from(RE_PATTERNS), st.sampled_from([0, re.I, re.S, re.I | re.S])),
                st.builds(lambda p: M("MatchesRegex", "str", p=p, flags=0, compiled=True), st.sampled_from(RE_PATTERNS)),
                # message templates that consist of nothing but the matchee
                st.builds(lambda w: M("MatchesPredicate", "str", which=w), st.sampled_from(["percent", "braces"])),
                st.builds(lambda e, f: M("DocTestMatches", "str", ex=e, flags=f), st.sampled_from(DOC_EXAMPLES), st.sampled_from(DOC_FLAGS)),
                st.builds(lambda n: M("HasLength", "str", n=n), st.integers(0, 4))]
    elif domain == "bytes":
        gen += [st.builds(lambda s, n: M(n, "bytes", s=s), BYTES, st.sampled_from(["Equals", "StartsWith", "EndsWith", "Contains"])),
                st.builds(lambda p, c: M("MatchesRegex", "bytes", p=p, flags=0, compiled=c), st.sampled_from([b"a", b"a+b", b".*\xff", b"^$"]), st.booleans()),
                st.builds(lambda n: M("HasLength", "bytes", n=n), st.integers(0, 4))]
    elif domain == "list":
        gen += [st.builds(lambda l, n: M(n, "list", l=l), LIST, st.sampled_from(["Equals", "SameMembers", "ContainsAll"])),
                st.builds(lambda k: M("Contains", "list", k=k), st.integers(0, 3)),
                st.builds(lambda same: M("Is", "list", same=same), st.booleans()),
                st.builds(lambda n: M("HasLength", "list", n=n), st.integers(0, 4))]
    elif domain == "dict":
        gen += [st.builds(lambda d: M("Equals", "dict", v=d), DICT),
                st.builds(lambda k, form: M("KeysEqual", "dict", keys=k, form=form), st.lists(st.sampled_from(["a", "b", "c", "d"]), unique=True, max_size=4), st.sampled_from(["args", "mapping"]))]
    elif domain == "obj":
        gen += [st.builds(lambda a, b: M("MatchesStructure.byEquality", "obj", a=a, b=b), st.integers(0, 3), st.one_of(st.none(), st.integers(0, 3))),
                st.builds(lambda e, attrs: M("MatchesStructure.fromExample", "obj", ex=e, attrs=attrs), OBJ, st.sampled_from([["a"], ["b"], ["a", "b"], []]))]
    elif domain == "exc_info":
        gen += [st.builds(lambda e: M("MatchesException", "exc_info", form="type", exc=e, value_re=None), st.sampled_from(EXC_NAMES + ["Exception", "ArithmeticError"])),
                st.builds(lambda e, r: M("MatchesException", "exc_info", form="type", exc=e, value_re=r), st.sampled_from(EXC_NAMES + ["Exception"]), st.sampled_from(["boom", "^a", ".*", "'boom'", "é"])),
                st.builds(lambda e: M("MatchesException", "exc_info", form="instance", inst=e), EXC),
                # a matcher (not a regex) as value_re: it is applied to the exception object itself
                st.builds(lambda e, a: M("MatchesException", "exc_info", form="type", exc=e, value_re=None, value_args=a),
                          st.sampled_from(EXC_NAMES + ["Exception"]), st.sampled_from([["boom"], [], ["boom", 2], ["other"]])),
                # value_re next to an instance: documented as consulted only when a type was given
                st.builds(lambda e, r: M("MatchesException", "exc_info", form="instance", inst=e, value_re=r), EXC, st.sampled_from(["^zzz", "boom", ".*"])),
                st.builds(lambda es: M("MatchesException", "exc_info", form="tuple", excs=es), st.lists(st.sampled_from(EXC_NAMES), min_size=1, max_size=2))]
    elif domain == "callable":
        gen += [st.builds(lambda: M("Raises", "callable", inner=None)),
                st.builds(lambda e: M("raises", "callable", form="type", exc=e), st.sampled_from(EXC_NAMES + ["Exception", "KeyboardInterrupt", "BaseException", "CustomBase", "CustomBase"])),
                st.builds(lambda e: M("raises", "callable", form="instance", inst=e), EXC),
                st.builds(lambda: M("Warnings", "callable", inner=None))]
    elif domain == "warning":
        gen += [st.builds(lambda c: M("WarningMessage", "warning", cat=c, message=None, lineno=None), st.sampled_from(["DeprecationWarning", "UserWarning", "Warning"]))]
    elif domain == "path":
        gen += [st.builds(lambda n: M(n, "path"), st.sampled_from(["PathExists", "DirExists", "FileExists"])),
                st.builds(lambda f: M("DirContains", "path", filenames=f), st.lists(st.sampled_from(["inner", "x", "y"]), unique=True, max_size=3)),
                st.builds(lambda c: M("FileContains", "path", contents=c), st.sampled_from(["", "hello", "hello\n", "é", "x"])),
                st.builds(lambda p: M("HasPermissions", "path", perm=p), st.sampled_from(["0644", "0600", "0755", "0777", "1644", "1755"])),
                st.builds(lambda p: M("SamePath", "path", other=p), st.sampled_from(PATH_NAMES + ["dir_a/../file_a", "./file_b"])),
                st.builds(lambda p: M("TarballContains", "path", paths=p), st.lists(st.sampled_from(["m1", "m2", "d/m3"]), unique=True, max_size=3))]
    return st.one_of(*gen)


ANNOT = st.sampled_from(["note", "", "ünï", "with 'quotes'"])
_CACHE = {}


def tree(domain, depth):
    """Strategy of matcher specs accepting values of ``domain``."""
    key = (domain, depth)
    if key in _CACHE:
        return _CACHE[key]
    lf = leaf(domain)
    if depth == 0:
        _CACHE[key] = lf
        return lf
    sub = tree(domain, depth - 1)
    gen = [lf,
           st.builds(lambda m: M("Not", domain, inner=m), sub),
           st.builds(lambda ms, fo: M("MatchesAll", domain, inner=ms, first_only=fo), st.lists(sub, max_size=3), st.booleans()),
           st.builds(lambda ms: M("MatchesAny", domain, inner=ms), st.lists(sub, max_size=3)),
           st.builds(lambda a, m, im: M("Annotate", domain, note=a, inner=m, if_message=im), ANNOT, sub, st.booleans())]
    i = tree("int", depth - 1)
    if domain == "list":
        gen += [st.builds(lambda m, n: M(n, "list", inner=m), i, st.sampled_from(["AllMatch", "AnyMatch"])),
                st.builds(lambda ms, fo: M("MatchesListwise", "list", inner=ms, first_only=fo), st.lists(i, max_size=4), st.booleans()),
                st.builds(lambda ms, sh: M("MatchesSetwise", "list", inner=ms, share=sh), st.lists(i, max_size=4), st.booleans()),
                # longer chains: LessThan(1..n) in a drawn order needs augmenting paths of length up to n
                st.builds(lambda ks: M("MatchesSetwise", "list", inner=[M("LessThan", "int", k=k) for k in ks], share=False),
                          st.permutations([1, 2, 3, 4, 5, 6]).flatmap(lambda p: st.integers(4, 6).map(lambda n: list(p)[:n]))),
                st.builds(lambda f, m, an: M("AfterPreprocessing", "list", fn=f, inner=m, annotate=an), st.sampled_from(["len", "sum"]), i, st.booleans()),
                st.builds(lambda m, an: M("AfterPreprocessing", "list", fn="sorted", inner=m, annotate=an), sub, st.booleans())]
    if domain == "dict":
        md = st.dictionaries(st.sampled_from(["a", "b", "c", "d"]), i, max_size=3)
        gen += [st.builds(lambda d, n: M(n, "dict", inner=d), md, st.sampled_from(["MatchesDict", "ContainsDict", "ContainedByDict"])),
                st.builds(lambda m, an: M("AfterPreprocessing", "dict", fn="len", inner=m, annotate=an), i, st.booleans())]
    if domain == "obj":
        gen += [st.builds(lambda a, b, upd, keep: M("MatchesStructure", "obj", a=a, b=b, update=upd, keep=keep), st.one_of(st.none(), i), st.one_of(st.none(), i), st.one_of(st.none(), i),
                          st.sampled_from(["derived", "derived", "receiver"])),
                st.builds(lambda m, an: M("AfterPreprocessing", "obj", fn="attr_a", inner=m, annotate=an), i, st.booleans())]
    if domain == "str":
        gen += [st.builds(lambda m, an: M("AfterPreprocessing", "str", fn="len", inner=m, annotate=an), i, st.booleans()),
                st.builds(lambda m, an: M("AfterPreprocessing", "str", fn="upper", inner=m, annotate=an), sub, st.booleans())]
    if domain == "int":
        s = tree("str", depth - 1)
        gen += [st.builds(lambda m, an: M("AfterPreprocessing", "int", fn="str", inner=m, annotate=an), s, st.booleans())]
    if domain == "exc_info":
        s = tree("str", depth - 1)
        gen += [st.builds(lambda e, m: M("MatchesException", "exc_info", form="type", exc=e, value_matcher=m), st.sampled_from(EXC_NAMES + ["Exception"]), s)]
    if domain == "callable":
        e = tree("exc_info", depth - 1)
        s = tree("str", depth - 1)
        gen += [st.builds(lambda m: M("Raises", "callable", inner=m), e),
                st.builds(lambda m: M("IsDeprecated", "callable", inner=m), s),
                st.builds(lambda m: M("Warnings", "callable", inner=M("AfterPreprocessing", "list", fn="len", inner=m, annotate=True)), i)]
    if domain == "warning":
        s = tree("str", depth - 1)
        gen += [st.builds(lambda c, m, ln: M("WarningMessage", "warning", cat=c, message=m, lineno=ln),
                          st.sampled_from(["DeprecationWarning", "UserWarning", "FutureWarning"]), st.one_of(st.none(), s), st.one_of(st.none(), i))]
    if domain == "path":
        s = tree("str", depth - 1)
        gen += [st.builds(lambda m: M("FileContains", "path", matcher=m), s),
                st.builds(lambda m: M("DirContains", "path", matcher=M("AfterPreprocessing", "list", fn="len", inner=m, annotate=False)), i)]
    out = st.one_of(*gen)
    _CACHE[key] = out
    return out


DOMAINS = ["int", "str", "bytes", "list", "dict", "obj", "exc_info", "callable", "path", "warning"]


def depth_of(spec):
    d = 0
    inner = spec.get("inner")
    kids = []
    if isinstance(inner, dict) and "m" in inner:
        kids = [inner]
    elif isinstance(inner, dict):
        kids = list(inner.values())
    elif isinstance(inner, list):
        kids = inner
    for k in ("a", "b", "update", "value_matcher", "matcher", "message", "lineno"):
        if isinstance(spec.get(k), dict) and "m" in spec[k]:
            kids.append(spec[k])
    for k in kids:
        if k is not None:
            d = max(d, 1 + depth_of(k))
    return d


# ----------------------------------------------------------------------------- builder
FNS = {"len": len, "sum": sum, "sorted": sorted, "upper": lambda s: s.upper(), "str": str,
       "attr_a": operator.attrgetter("a")}


def build(spec, env):
    import testtools.matchers as tm
    from testtools.matchers import _higherorder
    m, d = spec["m"], spec["d"]
    B = lambda s: build(s, env)
    if m == "Always":
        return tm.Always()
    if m == "Never":
        return tm.Never()
    if m in ("Equals", "NotEquals", "LessThan", "GreaterThan"):
        arg = spec.get("k", spec.get("s", spec.get("l", spec.get("v"))))
        if isinstance(arg, (list, dict)):
            arg = type(arg)(arg)
        return getattr(tm, m)(arg)
    if m == "IsNone":
        return tm.Is(None)
    if m == "IsInstance":
        return tm.IsInstance(*[{"int": int, "str": str, "bool": bool, "int|str": int | str}[t] for t in spec["types"]])
    if m == "MatchesPredicate" and spec.get("which") == "percent":
        return tm.MatchesPredicate(str.isupper, "%s")
    if m == "MatchesPredicate" and spec.get("which") == "braces":
        return tm.MatchesPredicateWithParams(lambda s: s.isupper(), "{0}")()
    if m == "MatchesPredicate":
        return tm.MatchesPredicate(is_even, "%s is not even")
    if m == "MatchesPredicateWithParams":
        form = spec.get("form", "pos")
        if form == "kw":
            return tm.MatchesPredicateWithParams(divisible_by, "{0} is not divisible by {k}")(k=spec["k"])
        if form == "two":
            return tm.MatchesPredicateWithParams(between, "{0} is not between {1} and {hi}", "Between")(spec["k"] - 1, hi=spec["k"] + 1)
        if form == "truthy":
            # "the result of the function will be interpreted as a boolean": a remainder, not a bool
            return tm.MatchesPredicateWithParams(remainder_is_zero_ish, "{0} leaves a remainder mod {1}")(spec["k"])
        return tm.MatchesPredicateWithParams(divisible_by, "{0} is not divisible by {1}")(spec["k"])
    if m == "Is":
        # identity, not equality: the very object, or an equal copy of it
        return IsSameObject(spec["same"])
    if m in ("StartsWith", "EndsWith"):
        return getattr(tm, m)(spec["s"])
    if m == "Contains":
        return tm.Contains(spec.get("s", spec.get("k")))
    if m == "MatchesRegex" and spec.get("compiled"):
        return tm.MatchesRegex(re.compile(spec["p"]))
    if m == "MatchesRegex":
        return tm.MatchesRegex(spec["p"], spec["flags"])
    if m == "DocTestMatches":
        return tm.DocTestMatches(spec["ex"], spec["flags"])
    if m == "HasLength":
        return tm.HasLength(spec["n"])
    if m == "SameMembers":
        return tm.SameMembers(list(spec["l"]))
    if m == "ContainsAll":
        return tm.ContainsAll(list(spec["l"]))
    if m == "KeysEqual":
        if spec["form"] == "mapping":
            return tm.KeysEqual({k: None for k in spec["keys"]})
        return tm.KeysEqual(*spec["keys"])
    if m == "Not":
        return tm.Not(B(spec["inner"]))
    if m == "MatchesAll":
        if spec["first_only"]:
            return tm.MatchesAll(*[B(x) for x in spec["inner"]], first_only=True)
        return tm.MatchesAll(*[B(x) for x in spec["inner"]])
    if m == "MatchesAny":
        return tm.MatchesAny(*[B(x) for x in spec["inner"]])
    if m == "Annotate":
        if spec["if_message"]:
            return tm.Annotate.if_message(spec["note"], B(spec["inner"]))
        return tm.Annotate(spec["note"], B(spec["inner"]))
    if m in ("AllMatch", "AnyMatch"):
        return getattr(tm, m)(B(spec["inner"]))
    if m == "MatchesListwise":
        if spec["first_only"]:
            return tm.MatchesListwise([B(x) for x in spec["inner"]], first_only=True)
        return tm.MatchesListwise([B(x) for x in spec["inner"]])
    if m == "MatchesSetwise":
        built = {}
        ms = []
        for x in spec["inner"]:
            key = repr(sorted(x.items(), key=repr)) if spec.get("share") else id(x)
            if key not in built:
                built[key] = B(x)
            ms.append(built[key])    # share=True: structurally equal matchers are one object
        return tm.MatchesSetwise(*ms)
    if m == "AfterPreprocessing":
        if spec["annotate"]:
            return tm.AfterPreprocessing(FNS[spec["fn"]], B(spec["inner"]))
        return tm.AfterPreprocessing(FNS[spec["fn"]], B(spec["inner"]), annotate=False)
    if m in ("MatchesDict", "ContainsDict", "ContainedByDict"):
        return getattr(tm, m)({k: B(v) for k, v in spec["inner"].items()})
    if m == "MatchesStructure":
        kw = {k: B(spec[k]) for k in ("a", "b") if spec.get(k) is not None}
        ms = tm.MatchesStructure(**kw)
        if spec.get("update") is not None:
            derived = ms.update(a=B(spec["update"]), b=None)
            if spec.get("keep", "derived") == "derived":
                return derived
            # update() returns a new matcher: the one it was called on keeps matching what it matched
        return ms
    if m == "MatchesStructure.byEquality":
        kw = {"a": spec["a"]}
        if spec["b"] is not None:
            kw["b"] = spec["b"]
        return tm.MatchesStructure.byEquality(**kw)
    if m == "MatchesStructure.fromExample":
        return tm.MatchesStructure.fromExample(Obj(**spec["ex"]), *spec["attrs"])
    if m == "MatchesException":
        if spec["form"] == "instance" and spec.get("value_re") is not None:
            return tm.MatchesException(EXC_CLASSES[spec["inst"]["exc"]](*spec["inst"]["args"]), spec["value_re"])
        if spec["form"] == "instance":
            return tm.MatchesException(EXC_CLASSES[spec["inst"]["exc"]](*spec["inst"]["args"]))
        if spec["form"] == "tuple":
            return tm.MatchesException(tuple(EXC_CLASSES[e] for e in spec["excs"]))
        if spec.get("value_args") is not None:
            return tm.MatchesException(EXC_CLASSES[spec["exc"]], tm.AfterPreprocessing(lambda e: list(e.args), tm.Equals(list(spec["value_args"])), annotate=False))
        if spec.get("value_matcher") is not None:
            return tm.MatchesException(EXC_CLASSES[spec["exc"]], tm.AfterPreprocessing(str, B(spec["value_matcher"])))
        return tm.MatchesException(EXC_CLASSES[spec["exc"]], spec.get("value_re"))
    if m == "Raises":
        return tm.Raises(None if spec["inner"] is None else B(spec["inner"]))
    if m == "raises":
        if spec["form"] == "instance":
            return tm.raises(EXC_CLASSES[spec["inst"]["exc"]](*spec["inst"]["args"]))
        return tm.raises(EXC_CLASSES[spec["exc"]])
    if m == "Warnings":
        return tm.Warnings(None if spec["inner"] is None else B(spec["inner"]))
    if m == "IsDeprecated":
        return tm.IsDeprecated(B(spec["inner"]))
    if m == "WarningMessage":
        cat = dict(WARN_CLASSES, Warning=Warning)[spec["cat"]]
        kw = {}
        if spec.get("message") is not None:
            kw["message"] = B(spec["message"])
        if spec.get("lineno") is not None:
            kw["lineno"] = B(spec["lineno"])
        return tm.WarningMessage(cat, **kw)
    if m in ("PathExists", "DirExists", "FileExists"):
        return getattr(tm, m)()
    if m == "DirContains":
        if "matcher" in spec:
            return tm.DirContains(matcher=B(spec["matcher"]))
        return tm.DirContains(list(spec["filenames"]))
    if m == "FileContains":
        if "matcher" in spec:
            return tm.FileContains(matcher=B(spec["matcher"]))
        return tm.FileContains(spec["contents"])
    if m == "HasPermissions":
        return tm.HasPermissions(spec["perm"])
    if m == "SamePath":
        return tm.SamePath(env.path(spec["other"]))
    if m == "TarballContains":
        return tm.TarballContains(list(spec["paths"]))
    raise AssertionError("unknown matcher spec %r" % (spec,))


# ----------------------------------------------------------------------------- reference predicates
class Propagates(Exception):
    """The reference says: this match() call lets a non-Exception error escape."""

    def __init__(self, exc_name):
        self.exc_name = exc_name


def _doc_ref(want, got, flags):
    if not want.endswith("\n"):
        want += "\n"
    if not got.endswith("\n"):
        got += "\n"
    if got == want:
        return True
    if (got, want) in (("True\n", "1\n"), ("False\n", "0\n")):
        return True
    want = re.sub(r"(?m)^<BLANKLINE>\s*?$", "", want)
    got = re.sub(r"(?m)^[^\S\n]+$", "", got)
    if got == want:
        return True
    if flags & doctest.NORMALIZE_WHITESPACE:
        got = " ".join(got.split())
        want = " ".join(want.split())
        if got == want:
            return True
    if flags & doctest.ELLIPSIS:
        pieces = want.split("...")
        if len(pieces) > 1:
            rx = ".*".join(re.escape(p) for p in pieces)
            if re.fullmatch(rx, got, re.S):
                return True
    return False


def _max_matching(accepts):
    """accepts[i][j]: value i acceptable to matcher j.  Size of a maximum matching."""
    nv = len(accepts)
    nm = len(accepts[0]) if accepts else 0
    owner = [None] * nm

    def aug(i, seen):
        for j in range(nm):
            if accepts[i][j] and j not in seen:
                seen.add(j)
                if owner[j] is None or aug(owner[j], seen):
                    owner[j] = i
                    return True
        return False
    return sum(1 for i in range(nv) if aug(i, set()))


def _exc_ref_type(v, cls):
    return issubclass(EXC_CLASSES[v["exc"]], cls)


def _str_of_exc(v):
    return str(EXC_CLASSES[v["exc"]](*v["args"]))


def _fs_kind(name, fs):
    """(exists, isdir, isfile) following symlinks, from the fs spec alone."""
    if name in ("file_a", "file_b", "link_a", "tar_a"):
        return True, False, True
    if name in ("dir_a", "dir_empty"):
        return True, True, False
    if name == "dir_a/inner":
        return ("inner" in fs["dir_a"]), False, ("inner" in fs["dir_a"])
    return False, False, False


def _canon_path(name):
    parts = []
    for p in name.split("/"):
        if p in ("", "."):
            continue
        if p == "..":
            parts.pop()
        else:
            parts.append(p)
    out = "/".join(parts)
    if out == "link_a":
        out = "file_a"
    if out == "link_dangling":
        out = "nowhere"
    return out


PASS_THROUGH = ("Annotate", "Not", "Raises", "raises", "Warnings", "IsDeprecated")


def ref(spec, v, env=None):
    """True iff the documented predicate of ``spec`` holds for spec-value ``v``.  Raises
    Propagates when the documentation says an exception of the matchee escapes; when that
    happens below a combinator whose evaluation order is not documented, the verdict is
    undefined (Propagates('undefined:...'))."""
    try:
        return _ref(spec, v, env)
    except Propagates as p:
        if spec["m"] in PASS_THROUGH or p.exc_name.startswith("undefined:"):
            raise
        if p.exc_name not in EXC_CLASSES:
            raise
        raise Propagates("undefined:%s below %s" % (p.exc_name, spec["m"]))


def _ref(spec, v, env=None):
    m = spec["m"]
    R = lambda s, x: ref(s, x, env)
    if m == "Always":
        return True
    if m == "Never":
        return False
    if m == "Equals":
        return v == spec.get("k", spec.get("s", spec.get("l", spec.get("v"))))
    if m == "NotEquals":
        return v != spec.get("k", spec.get("s"))
    if m == "LessThan":
        return v < spec["k"]
    if m == "GreaterThan":
        return v > spec["k"]
    if m == "IsNone":
        return v is None
    if m == "IsInstance":
        return isinstance(v, tuple({"int": int, "str": str, "bool": bool, "int|str": (int, str)}[t] for t in spec["types"]))
    if m == "MatchesPredicate" and spec.get("which"):
        return v.isupper()
    if m == "MatchesPredicate":
        return v % 2 == 0
    if m == "MatchesPredicateWithParams":
        form = spec.get("form", "pos")
        if form == "two":
            return spec["k"] - 1 <= v <= spec["k"] + 1
        if form == "truthy":
            return spec["k"] == 0 or v % spec["k"] != 0
        return spec["k"] != 0 and v % spec["k"] == 0
    if m == "Is":
        return bool(spec["same"])
    if m == "StartsWith":
        return v[:len(spec["s"])] == spec["s"]
    if m == "EndsWith":
        return spec["s"] == (v[len(v) - len(spec["s"]):] if len(spec["s"]) <= len(v) else None)
    if m == "Contains":
        needle = spec.get("s", spec.get("k"))
        if isinstance(v, (str, bytes)):
            return v.find(needle) >= 0
        return any(x == needle for x in v)
    if m == "MatchesRegex":
        return re.compile(spec["p"], spec["flags"]).match(v) is not None
    if m == "DocTestMatches":
        return _doc_ref(spec["ex"], v, spec["flags"])
    if m == "HasLength":
        return len(v) == spec["n"]
    if m == "SameMembers":
        return sorted(v) == sorted(spec["l"])
    if m == "ContainsAll":
        return all(x in v for x in spec["l"])
    if m == "KeysEqual":
        return set(v.keys()) == set(spec["keys"])
    if m == "Not":
        return not R(spec["inner"], v)
    if m == "MatchesAll":
        return all([R(x, v) for x in spec["inner"]])
    if m == "MatchesAny":
        return any([R(x, v) for x in spec["inner"]])
    if m == "Annotate":
        return R(spec["inner"], v)
    if m == "AllMatch":
        return all([R(spec["inner"], x) for x in v])
    if m == "AnyMatch":
        return any([R(spec["inner"], x) for x in v])
    if m == "MatchesListwise":
        return len(v) == len(spec["inner"]) and all([R(ms, x) for ms, x in zip(spec["inner"], v)])
    if m == "MatchesSetwise":
        if len(v) != len(spec["inner"]):
            return False
        acc = [[R(ms, x) for ms in spec["inner"]] for x in v]
        return _max_matching(acc) == len(v)
    if m == "AfterPreprocessing":
        fn = spec["fn"]
        if fn == "attr_a":
            return R(spec["inner"], v["a"])
        return R(spec["inner"], FNS[fn](v))
    if m == "MatchesDict":
        return set(v) == set(spec["inner"]) and all([R(ms, v[k]) for k, ms in spec["inner"].items()])
    if m == "ContainsDict":
        return set(v) >= set(spec["inner"]) and all([R(ms, v[k]) for k, ms in spec["inner"].items()])
    if m == "ContainedByDict":
        return set(v) <= set(spec["inner"]) and all([R(ms, v[k]) for k, ms in spec["inner"].items() if k in v])
    if m == "MatchesStructure":
        kw = {k: spec[k] for k in ("a", "b") if spec.get(k) is not None}
        if spec.get("update") is not None and spec.get("keep", "derived") == "derived":
            kw["a"] = spec["update"]
            kw.pop("b", None)
        return all([R(ms, v[k]) for k, ms in kw.items()])
    if m == "MatchesStructure.byEquality":
        return v["a"] == spec["a"] and (spec["b"] is None or v["b"] == spec["b"])
    if m == "MatchesStructure.fromExample":
        return all(v[k] == spec["ex"][k] for k in spec["attrs"])
    if m == "MatchesException":
        if spec["form"] == "instance":
            return _exc_ref_type(v, EXC_CLASSES[spec["inst"]["exc"]]) and \
                EXC_CLASSES[v["exc"]](*v["args"]).args == EXC_CLASSES[spec["inst"]["exc"]](*spec["inst"]["args"]).args
        if spec["form"] == "tuple":
            return any(_exc_ref_type(v, EXC_CLASSES[e]) for e in spec["excs"])
        if not _exc_ref_type(v, EXC_CLASSES[spec["exc"]]):
            return False
        if spec.get("value_args") is not None:
            return list(v["args"]) == list(spec["value_args"])
        if spec.get("value_matcher") is not None:
            return R(spec["value_matcher"], _str_of_exc(v))
        if spec.get("value_re") is not None:
            return re.match(spec["value_re"], _str_of_exc(v)) is not None
        return True
    if m in ("Raises", "raises"):
        if "raise" not in v:
            return False
        if m == "raises":
            inner = M("MatchesException", "exc_info", **{k: spec[k] for k in ("form", "exc", "inst") if k in spec})
        else:
            inner = spec["inner"]
        ok = True if inner is None else R(inner, v["raise"])
        user = issubclass(EXC_CLASSES[v["raise"]["exc"]], Exception)
        if not user and (inner is None or not ok):
            raise Propagates(v["raise"]["exc"])
        return ok
    if m == "Warnings":
        if "raise" in v:
            raise Propagates(v["raise"]["exc"])
        w = v.get("warn", [])
        if spec["inner"] is None:
            return len(w) > 0
        return R(spec["inner"], [None] * len(w))      # only used with AfterPreprocessing(len)
    if m == "IsDeprecated":
        if "raise" in v:
            raise Propagates(v["raise"]["exc"])
        w = v.get("warn", [])
        return len(w) == 1 and w[0][0] == "DeprecationWarning" and R(spec["inner"], w[0][1])
    if m == "WarningMessage":
        # "match captured warnings of this category type" (identity of the category), message matched as text
        ok = spec["cat"] == v["cat"]
        if spec.get("message") is not None:
            ok = ok and R(spec["message"], v["msg"])
        if spec.get("lineno") is not None:
            ok = ok and R(spec["lineno"], v["lineno"])
        return ok
    fs = env.fs if env is not None else None
    if m in ("PathExists", "DirExists", "FileExists"):
        ex, isd, isf = _fs_kind(v, fs)
        return {"PathExists": ex, "DirExists": ex and isd, "FileExists": ex and isf}[m]
    if m == "DirContains":
        ex, isd, isf = _fs_kind(v, fs)
        if not (ex and isd):
            return False
        listing = sorted(fs["dir_a"]) if v == "dir_a" else []
        if "matcher" in spec:
            return R(spec["matcher"], listing)
        return listing == sorted(spec["filenames"])
    if m == "FileContains":
        ex, isd, isf = _fs_kind(v, fs)
        if not ex:
            return False
        if isd:
            raise Propagates("IsADirectoryError")
        content = {"file_a": fs["file_a"], "link_a": fs["file_a"], "file_b": fs["file_b"], "dir_a/inner": "inner"}.get(v)
        if content is None:
            raise Propagates("tarball-bytes")
        if "matcher" in spec:
            return R(spec["matcher"], content)
        return content == spec["contents"]
    if m == "HasPermissions":
        if v not in ("file_a", "link_a"):
            raise Propagates("not-asserted")
        return fs["file_a_mode"] == spec["perm"]
    if m == "SamePath":
        return _canon_path(v) == _canon_path(spec["other"])
    if m == "TarballContains":
        if v != "tar_a":
            raise Propagates("not-a-tarball")
        return sorted(fs["tar_a"]) == sorted(spec["paths"])
    raise AssertionError("no reference for %r" % (spec,))


def has_node(spec, pred):
    """Does some node of the matcher tree satisfy ``pred``?"""
    if pred(spec):
        return True
    for val in spec.values():
        kids = []
        if isinstance(val, dict) and "m" in val:
            kids = [val]
        elif isinstance(val, list):
            kids = [x for x in val if isinstance(x, dict) and "m" in x]
        elif isinstance(val, dict):
            kids = [x for x in val.values() if isinstance(x, dict) and "m" in x]
        if any(has_node(k, pred) for k in kids):
            return True
    return False


def uses_domain(spec, name):
    if spec.get("d") == name:
        return True
    for val in spec.values():
        if isinstance(val, dict) and "m" in val and uses_domain(val, name):
            return True
        if isinstance(val, list) and any(isinstance(x, dict) and "m" in x and uses_domain(x, name) for x in val):
            return True
        if isinstance(val, dict) and "m" not in val and any(isinstance(x, dict) and "m" in x and uses_domain(x, name) for x in val.values()):
            return True
    return False


# ----------------------------------------------------------------------------- snapshots
def snapshot(o, seen=None, depth=0):
    """Canonical structural rendering of matchers / values (for 'match modifies nothing')."""
    if seen is None:
        seen = set()
    if depth > 12:
        return "<deep>"
    if o is None or isinstance(o, (bool, int, float, str, bytes, type)):
        return repr(o)
    if callable(o) and not hasattr(o, "match"):
        return "<callable %s>" % getattr(o, "__name__", type(o).__name__)
    if id(o) in seen:
        return "<cycle>"
    seen = seen | {id(o)}
    if isinstance(o, dict):
        return "{%s}" % ", ".join("%s: %s" % (snapshot(k, seen, depth + 1), snapshot(v, seen, depth + 1)) for k, v in sorted(o.items(), key=lambda kv: repr(kv[0])))
    if isinstance(o, (list, tuple)):
        return "%s[%s]" % (type(o).__name__, ", ".join(snapshot(x, seen, depth + 1) for x in o))
    if isinstance(o, (set, frozenset)):
        return "set{%s}" % ", ".join(sorted(snapshot(x, seen, depth + 1) for x in o))
    if isinstance(o, BaseException):
        return "%s%s" % (type(o).__name__, snapshot(o.args, seen, depth + 1))
    if hasattr(o, "__dict__"):
        return "%s(%s)" % (type(o).__name__, snapshot(vars(o), seen, depth + 1))
    return "<%s>" % type(o).__name__
