"""Deterministic virtual-time reactor for Spinner / AsynchronousDeferredRunTest.

Twisted's task.Clock supplies real DelayedCall objects (callLater / cancel / reset); this
class adds the small part of IReactorCore / IReactorFDSet that Spinner touches, harness-owned
tie-breaking between calls due at the same instant, and 'external events' (e.g. a SIGINT
delivered at virtual time t) that are not DelayedCalls and therefore never junk."""
import signal

from twisted.internet import task
from twisted.internet.error import ReactorNotRunning

from .core import HarnessError


class Hang(HarnessError):
    pass


class VReactor(task.Clock):
    def __init__(self, ties=()):
        task.Clock.__init__(self)
        self.running = False
        self._when_running = []
        self.readers = []
        self.external = []          # [time, fn, fired]
        self.ties = list(ties)
        self._tie_pos = 0
        self.fired = []             # (time, repr of call) in firing order
        self.runs = 0
        self.threadpool = None
        self.installed_handlers = {}

    # -- scheduling of external events (not DelayedCalls)
    def at(self, t, fn):
        self.external.append([t, fn, False])

    in_iterate = False
    in_run = False               # inside run(): a pass that crash() interrupted is still finished
    interrupts_delivered = 0

    def interrupt_at(self, t):
        """Deliver SIGINT at virtual time t: invoke whatever handler is installed then."""
        def deliver():
            self.interrupts_delivered += 1
            h = signal.getsignal(signal.SIGINT)
            if callable(h):
                h(signal.SIGINT, None)
        self.at(t, deliver)

    # -- IReactorCore-ish
    def callWhenRunning(self, f, *a, **kw):
        if self.running:
            f(*a, **kw)
        else:
            self._when_running.append((f, a, kw))

    def _sig_stop(self, *a):
        # like Twisted's sigInt/sigTerm: look 'stop' up at delivery time
        self.stop()

    def _sig_chld(self, *a):
        pass

    def run(self, installSignalHandlers=True):
        if self.running:
            raise HarnessError("reactor already running")
        if installSignalHandlers:
            for name, h in (("SIGINT", self._sig_stop), ("SIGTERM", self._sig_stop), ("SIGCHLD", self._sig_chld)):
                sig = getattr(signal, name, None)
                if sig is not None:
                    signal.signal(sig, h)
                    self.installed_handlers[name] = h
        self.running = True
        self.runs += 1
        pending, self._when_running = self._when_running, []
        for f, a, kw in pending:
            if not self.running:
                break
            f(*a, **kw)
        guard = 0
        self.in_run = True
        try:
            while self.running:
                guard += 1
                if guard > 10000:
                    raise Hang("virtual reactor: too many steps")
                self._step()
        finally:
            self.in_run = False

    def _due_time(self):
        times = [c.getTime() for c in self.calls] + [e[0] for e in self.external if not e[2]]
        return min(times) if times else None

    def _step(self):
        """One pass of the event loop.  Like the real reactors' runUntilCurrent(), every call that is
        due when the pass starts is run in this pass - even if one of them crashes the reactor - and
        calls scheduled during the pass wait for the next one.  The order among calls due at the same
        instant is the harness's (tie bits)."""
        t = self._due_time()
        if t is None:
            raise Hang("virtual reactor: nothing scheduled and not stopped")
        if t > self.rightNow:
            self.rightNow = t
        due = [("call", c) for c in self.calls if c.getTime() <= self.rightNow] + \
              [("ext", e) for e in self.external if not e[2] and e[0] <= self.rightNow]
        due.sort(key=lambda d: d[1].getTime() if d[0] == "call" else d[1][0])
        while due:
            first_time = due[0][1].getTime() if due[0][0] == "call" else due[0][1][0]
            same = [d for d in due if (d[1].getTime() if d[0] == "call" else d[1][0]) == first_time]
            if len(same) > 1:
                k = self.ties[self._tie_pos] % len(same) if self._tie_pos < len(self.ties) else 0
                self._tie_pos += 1
            else:
                k = 0
            kind, item = same[k]
            due.remove((kind, item))
            if kind == "call":
                if item.cancelled or item.called:
                    continue
                self.calls.remove(item)
                item.called = 1
                self.fired.append((self.rightNow, item))
                item.func(*item.args, **item.kw)
            else:
                item[2] = True
                item[1]()

    def iterate(self, delay=0):
        # run what is due right now (used by Spinner._clean)
        n = 0
        self.in_iterate = True       # harness-owned: whatever fires now fires after run() has returned
        try:
            while n < 100:
                due = [c for c in self.calls if c.getTime() <= self.rightNow]
                if not due:
                    return
                c = due[0]
                self.calls.remove(c)
                c.called = 1
                self.fired.append((self.rightNow, c))
                c.func(*c.args, **c.kw)
                n += 1
        finally:
            self.in_iterate = False

    def crash(self):
        self.running = False

    def stop(self):
        if not self.running:
            raise ReactorNotRunning("Can't stop reactor that isn't running.")
        self.running = False

    # -- IReactorTime
    def getDelayedCalls(self):
        return list(self.calls)      # the real reactors return a copy

    # -- IReactorFDSet-ish
    def addReader(self, r):
        if r not in self.readers:
            self.readers.append(r)

    def removeAll(self):
        r, self.readers = self.readers, []
        return r

    def getReaders(self):
        return list(self.readers)


class SignalSandbox:
    """Save / restore the process signal state around a case."""
    NAMES = ("SIGINT", "SIGTERM", "SIGCHLD")

    def __enter__(self):
        self.saved = {n: signal.getsignal(getattr(signal, n)) for n in self.NAMES}
        return self

    def __exit__(self, *a):
        for n, h in self.saved.items():
            signal.signal(getattr(signal, n), h if h is not None else signal.SIG_DFL)
