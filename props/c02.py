"""C02 - stages run in order; every cleanup runs exactly once, LIFO, whatever failed."""
import itertools

from hypothesis import strategies as st

from vp.core import Case, Sub, V
from vp import programs as P
from vp import progrun as R
from vp.results import OUTCOMES

PROPERTY = "C02"
RULE = ("Generated test programs with addCleanup at every position (before/after the setUp upcall, test method, "
        "tearDown, inside other cleanups to depth 3, with args/kwargs), patch() of existing / None-valued / missing "
        "attributes on three scratch objects (most patches and reads of one program go to one attribute, so that the same attribute is patched several times and read in between, also by cleanups), useFixture of fixtures with optional "
        "failing _setUp / failing cleanup / one nested fixture, and all fault kinds incl. non-Exception ones; the same "
        "TestCase instance is run 2-3 times. Oracle: the execution log written by the generated code equals the "
        "reference interpreter's log in every run; scratch objects equal their pre-test state after every run; every "
        "run gives the same log, outcome and detail markers. Non-trivial: a cleanup registered from tearDown or from "
        "another cleanup, or a fault before pending cleanups, or a fixture; distinct = distinct canonical program.")
ASSUMPTIONS = [
    "programs are deterministic by construction, so repeating run() must repeat the sequence",
    "fixture internals follow the fixtures library (a failing _setUp runs the fixture's own cleanups immediately)",
]

PROG = P.programs(nonexc=True, multi=True, patch=True, fixture=True, expect=True, force=True, cleanup_depth=3, p_raise=4, extras=True,
                  rets=True, bursts=True, per_run=True, fixture_kbi=True)
CASE = st.fixed_dictionaries({"prog": PROG, "runs": st.sampled_from([2, 2, 3]), "flavour": st.sampled_from(["ext", "real", "py27"])})


def summarize(obs):
    outs = [e for e in obs["events"] if e[0] in OUTCOMES]
    markers = set()
    for e in outs:
        det = e[2].get("details") if isinstance(e[2], dict) else None
        if isinstance(det, dict):
            for name, d in det.items():
                data = d[2] if isinstance(d, tuple) else b""
                if isinstance(data, bytes):
                    for m in P.MARK.findall(data.decode("utf8", "replace")):
                        markers.add(int(m))
    return [e[0] for e in outs], markers


def run_case(spec):
    prog = spec["prog"]
    vs = []
    per_run = "'runs'" in repr(prog)        # some actions happen only in certain runs of the instance
    model = P.Model(prog).run()
    live = P.Live()
    case = None
    first = None
    pristine = [P.snapshot_obj(o) for o in live.objs]
    for n in range(spec["runs"]):
        del live.log[:]
        live.handler_calls[:] = []
        live.run_no = n
        if per_run:
            model = P.Model(prog, run_no=n).run()
            if case is not None:
                # force_failure is an attribute the test sets on itself; testtools leaves it alone between runs
                # (DESIGN 11.2), so a program whose runs differ starts each run with the value it was built with
                case.force_failure = bool(prog.get("force_outside"))
        obs = R.run_program(prog, spec["flavour"], case=case, live=live)
        case = obs["case"]
        log = list(live.log)
        if log != model.log:
            # classify the first divergence
            i = next((k for k, (a, b) in enumerate(zip(log, model.log)) if a != b), min(len(log), len(model.log)))
            got = log[i] if i < len(log) else None
            want = model.log[i] if i < len(model.log) else None
            kind = "missing" if got is None else ("extra" if want is None else "order")
            what = (want or got)[0]
            vs.append(V("sequence", "run%d-%s-%s" % (min(n, 1), kind, what),
                        "run %d: execution log diverges at %d: got %r, reference %r\n got: %r\n ref: %r" % (n, i, got, want, log, model.log)))
        now = [P.snapshot_obj(o) for o in live.objs]
        if now != pristine:
            vs.append(V("restore", "patched-attributes", "after run %d the scratch objects are %r, before the test %r" % (n, now, pristine)))
        if getattr(case, "_cleanups", None):
            vs.append(V("restore", "cleanups-left", "%d cleanups still registered after run %d" % (len(case._cleanups), n)))
        summ = summarize(obs)
        if per_run:
            # every run is judged against its own reference: nothing of an earlier run may linger
            admissible, propagates = model.admissible()
            admissible = {R.degrade(o, spec["flavour"]) for o in admissible}
            if not vs and (len(summ[0]) != 1 or summ[0][0] not in admissible):
                vs.append(V("rerun", "stale-outcome", "run %d reported %r, its own reference admits %r (raised in this run: %r)" % (
                    n, summ[0], sorted(admissible), [r["kind"] for r in model.raised])))
            if not vs and (obs["raised"] is not None) != propagates:
                vs.append(V("rerun", "stale-propagation", "run %d: run() raised %r, reference says propagates=%r" % (n, obs["raised"], propagates)))
        elif first is None:
            first = (log, summ, repr(type(obs["raised"])))
        elif (log, summ, repr(type(obs["raised"]))) != first and not vs:
            vs.append(V("rerun", "differs", "run %d differs from run 0: outcome/markers %r vs %r" % (n, summ, first[1])))
        for o, p in zip(live.objs, pristine):      # start the next run from a pristine world (isolates the clauses)
            P.restore_obj(o, p)
        if vs:
            break

    def walk(acts, depth, in_td):
        f = False
        for a in acts:
            if a["a"] == "cleanup":
                if depth >= 1 or in_td:
                    f = True
                f = walk(a["body"], depth + 1, in_td) or f
        return f
    late = walk(prog["tearDown_pre"] + prog["tearDown_post"], 0, True) or any(
        walk(prog[s], 0, False) for s in ("setUp_pre", "setUp_post", "body"))
    fx = "fixture" in repr(prog)
    nt = late or fx or (bool(model.raised) and any(x[0] == "C" for x in model.log))
    return Case(vs, nt, ["runs=%d" % spec["runs"], "late-cleanup" if late else "", "fixture" if fx else "",
                         "patch" if "'patch'" in repr(prog) else "", "per-run-actions" if per_run else "", "burst" if "cleanup_burst" in repr(prog) else "", "raises=%d" % min(len(model.raised), 4)],
                {"log": model.log[:12]})


def _enum():
    """One registration site x one fault site grid."""
    sites = ["setUp_pre", "setUp_post", "body", "tearDown_pre", "tearDown_post", "in_cleanup"]
    faults = [None, "setUp_pre", "setUp_post", "body", "tearDown_pre", "tearDown_post", "cleanup_body", "other_cleanup"]
    kinds = ["error", "kbi", "skip"]
    for reg in sites:
        for fault in faults:
            for kind in (kinds if fault else [None]):
                for what in ("cleanup", "patch", "fixture"):
                    ids = itertools.count(1)
                    prog = {"decor": "none", "setUp_pre": [], "setUp_post": [], "body": [], "tearDown_pre": [], "tearDown_post": [],
                            "handlers": [], "handlers_when": "init", "cells": 0}
                    item = {"cleanup": {"a": "cleanup", "i": next(ids), "args": True, "body": [{"a": "log", "i": next(ids)}]},
                            "patch": {"a": "patch", "i": next(ids), "obj": 0, "attr": "nonev", "value": "patched"},
                            "fixture": {"a": "fixture", "i": next(ids), "spec": {"i": next(ids), "setup_fail": False, "cleanup_fail": False, "details": {}, "nested": None}}}[what]
                    prog["setUp_post"].append({"a": "cleanup", "i": next(ids), "args": False, "body": [{"a": "read", "i": next(ids), "obj": 0, "attr": "nonev"}]})
                    if reg == "in_cleanup":
                        prog["body"].append({"a": "cleanup", "i": next(ids), "args": False, "body": [item]})
                    else:
                        prog[reg].append(item)
                    r = {"a": "raise", "i": next(ids), "kind": kind}
                    if fault == "cleanup_body" and what == "cleanup":
                        item["body"].append(r)
                    elif fault == "other_cleanup":
                        prog["body"].append({"a": "cleanup", "i": next(ids), "args": False, "body": [r]})
                    elif fault in prog:
                        prog[fault].append(r)
                    elif fault is not None:
                        continue
                    yield {"prog": prog, "runs": 2, "flavour": "ext"}


def _enum_double_patch():
    """The same attribute patched twice, with cleanups that read it registered before, between and after."""
    for obj in (0, 2):
        for attr in ("x", "nonev") + (("missing",) if obj == 0 else ()):
            for where in ("setUp_post", "body"):
                for fault in (None, "error", "kbi"):
                    ids = itertools.count(1)
                    rd = lambda: {"a": "cleanup", "i": next(ids), "args": False, "body": [{"a": "read", "i": next(ids), "obj": obj, "attr": attr}]}
                    acts = [rd(), {"a": "patch", "i": next(ids), "obj": obj, "attr": attr, "value": "first"}, rd(),
                            {"a": "patch", "i": next(ids), "obj": obj, "attr": attr, "value": "second"}, rd(),
                            {"a": "read", "i": next(ids), "obj": obj, "attr": attr}]
                    if fault:
                        acts.append({"a": "raise", "i": next(ids), "kind": fault})
                    prog = {"decor": "none", "setUp_pre": [], "setUp_post": [], "body": [], "tearDown_pre": [], "tearDown_post": [],
                            "handlers": [], "handlers_when": "init", "cells": 0}
                    prog[where] = acts
                    for flavour in ("ext", "real"):
                        yield {"prog": prog, "runs": 2, "flavour": flavour}


def subchecks(tier):
    q = tier == "quick"
    return [
        Sub("random_programs", run_case, CASE, 2000 if q else 60000),
        Sub("double_patch_grid", run_case, enum=_enum_double_patch, enum_complete=True,
            note="one attribute patched twice with reading cleanups before / between / after, x existing / None-valued / missing "
                 "attribute x plain / slotted object x setUp / test method x no fault / error / KeyboardInterrupt, run twice"),
        Sub("registration_x_fault_grid", run_case, enum=_enum, enum_complete=True,
            note="6 registration sites x 8 fault sites x {error, KeyboardInterrupt, skip} x {cleanup, patch, fixture}, each run twice"),
    ]
