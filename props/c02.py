"""C02 - stages run in order; every cleanup runs exactly once, LIFO, whatever failed."""
import copy
import itertools

from hypothesis import strategies as st

from vp.core import Case, Sub, V
from vp import programs as P
from vp import progrun as R
from vp.results import OUTCOMES

PROPERTY = "C02"
RULE = ("Generated test programs with addCleanup at every position (before/after the setUp upcall, test method, "
        "tearDown, inside other cleanups to depth 3, with args/kwargs), patch() of existing / None-valued / missing "
        "attributes on three scratch objects (most patches and reads of one program go to one attribute, so that the same attribute is patched several times and read in between, also by cleanups), useFixture of fixtures with optional "
        "failing _setUp / failing cleanup / one nested fixture, and all fault kinds incl. non-Exception ones; the same "
        "TestCase instance is run 2-3 times. Oracle: the execution log written by the generated code equals the "
        "reference interpreter's log in every run (for a fixture whose getDetails() raises: the log of either reading, see ASSUMPTIONS); scratch objects equal their pre-test state after every run; every "
        "run gives the same log, outcome and detail markers. A grid of hand-written programs adds what that vocabulary lacks: "
        "13 kinds of callable handed to addCleanup (functools.partial, callable instance, builtin method, class, Mock, "
        "methodcaller, bound method of the test, enterContext, keyword arguments named like the parameters of the runner's "
        "plumbing), entry through case(result) / run(), another TestCase or a clone of the running one run from inside a "
        "stage or a cleanup (each keeps its own cleanups), result.stop() during the test, patch() with a value equal to but "
        "distinct from the original or with incomparable values (the original object itself is back afterwards), one "
        "MonkeyPatcher with several patches undone by a cleanup / run_with_patches, a duck-typed fixture, and a chain of 1100 "
        "cleanups each registering the next. Non-trivial: a cleanup registered from tearDown or from "
        "another cleanup, or a fault before pending cleanups, or a fixture; distinct = distinct canonical program.")
ASSUMPTIONS = [
    "programs are deterministic by construction, so repeating run() must repeat the sequence",
    "fixture internals follow the fixtures library (a failing _setUp runs the fixture's own cleanups immediately)",
    "'has its pre-test value' is read as identity in the direct grid: after the run the attribute holds the very object it held before, "
    "not merely one that compares equal (a test that patches os.environ with a copy must get os.environ itself back)",
    "MonkeyPatcher.patch() / run_with_patches count as patch(): the statement names TestCase.patch(), its anchors name MonkeyPatcher.restore",
    "a test that runs another TestCase instance (or a clone made with clone_test_with_new_id before the first run) from inside one of its "
    "stages is inside 'for every test'; the programs of C01 do not nest, so this reading is the check's",
    "result.stop() called while the test runs does not cancel the cleanups it owes (stop() before the test starts is not exercised)",
    "the 'no cleanup is left registered' clause reads the private list TestCase._cleanups (there is no public accessor); "
    "under another name the clause is vacuous and only the exactly-once log clauses remain",
    "a clone runs *inside* its original only in the direct grid; there the clause is that run() gives the test a cleanup list of its "
    "own (rebinds it) - a _reset() that empties the shared list in place is equally fine for every test of C01's programs and "
    "would be reported by those 24 cases only",
    "useFixture 'schedules a clean up to attach all details held by the fixture' (its docstring): whether the fixture is asked for its "
    "details at registration or when that cleanup runs is open, so for a fixture whose first getDetails() raises both logs are "
    "admitted - the stage is aborted, or it goes on and the error belongs to the cleanup phase; the fixture is cleaned up once in both",
    "which outcome a single run has is C01's / C03's subject; where a run is judged on its own (programs whose runs differ) C02 "
    "admits both readings of two things its statement does not fix: the undo of a patch() that created an attribute the test has "
    "already deleted may be an error or a no-op ('or is absent again'), and force_failure set on the instance before run() may "
    "survive the start of run() or be reset by it",
    "excluded inputs (recorded, not filed): an exception whose traceback cannot be rendered, raised at any site (the outcome handler "
    "itself raises while rendering it - the exception object is broken, not the runner, DESIGN 11.2; whether later stages and "
    "cleanups still run then depends on try/finally layering the statement does not prescribe), keyword "
    "arguments named 'self' / 'function' (refused by addCleanup's own signature), cleanups registered before run() or by an "
    "addOnException handler, explicit doCleanups() / debug()",
]

PROG = P.programs(nonexc=True, multi=True, patch=True, fixture=True, expect=True, force=True, cleanup_depth=3, p_raise=4, extras=True,
                  rets=True, bursts=True, per_run=True, fixture_kbi=True)
CASE = st.fixed_dictionaries({"prog": PROG, "runs": st.sampled_from([2, 2, 3]), "flavour": st.sampled_from(["ext", "real", "py27"])})


def summarize(obs):
    outs = [e for e in obs["events"] if e[0] in OUTCOMES]
    markers = set()
    for e in outs:
        det = e[2].get("details") if isinstance(e[2], dict) else None
        if isinstance(det, dict):
            for name, d in det.items():
                data = d[2] if isinstance(d, tuple) else b""
                if isinstance(data, bytes):
                    for m in P.MARK.findall(data.decode("utf8", "replace")):
                        markers.add(int(m))
    return [e[0] for e in outs], markers


def _acts(prog):
    """Every action of a program, nested cleanup bodies included (structural: no substring tests on repr)."""
    todo = [a for s in ("setUp_pre", "setUp_post", "body", "tearDown_pre", "tearDown_post") for a in prog[s]]
    while todo:
        a = todo.pop()
        yield a
        if isinstance(a.get("body"), list):
            todo += a["body"]


class LazyDetailsModel(P.Model):
    """The second reading of useFixture's 'schedules a clean up to attach all details held by the fixture': the fixture is
    asked for its details when that cleanup runs, not when it is registered.  A getDetails() that raises is then an error
    of the cleanup phase and the stage that called useFixture goes on; the fixture is cleaned up once either way."""

    def use_fixture(self, f, stage):
        if f.get("details_fail"):
            f = dict(f, details_fail=False, lazy_details_fail=True)
        return P.Model.use_fixture(self, f, stage)

    def run_cleanup(self, item):
        kind, x = item
        if kind == "gather" and x.get("lazy_details_fail"):
            self.note("error", x["i"], "cleanup")
        else:
            P.Model.run_cleanup(self, item)


def _references(prog, run_no, acts):
    """Reference runs of one program: the model of vp.programs first, then the other readings the statement leaves open."""
    refs = [P.Model(prog, run_no=run_no).run()]
    if any(a["a"] == "fixture" and a["spec"].get("details_fail") for a in acts):
        refs.append(LazyDetailsModel(prog, run_no=run_no).run())
    return refs


def _outcome_readings(ref, prog, run_no):
    """[(admissible outcomes, propagates)] of one run judged on its own.  The statement fixes the sequence and that a run
    repeats; which outcome a run has is C01's / C03's subject, so where C02's statement is silent both readings count:
    - the undo of a patch() that created an attribute the test has deleted again: an error today, nothing to do for an
      undo that only cares that the attribute 'is absent again';
    - force_failure set on the instance before run(): testtools leaves it alone (DESIGN 11.2, an observation); a run()
      that starts 'as if the test had never been run' clears it."""
    variants = [ref]
    if prog.get("force_outside"):
        variants.append(type(ref)(dict(prog, force_outside=False), run_no=run_no).run())
    out = []
    for m in variants:
        out.append(m.admissible())
        if any(r["kind"] == "restore_error" for r in m.raised):
            m2 = copy.copy(m)
            m2.raised = [r for r in m.raised if r["kind"] != "restore_error"]
            out.append(m2.admissible())
    return out


def run_case(spec):
    prog = spec["prog"]
    vs = []
    acts = list(_acts(prog))
    per_run = any(a.get("runs") is not None for a in acts)        # some actions happen only in certain runs of the instance
    refs = _references(prog, 0, acts)
    model = refs[0]
    live = P.Live()
    case = None
    first = None
    pristine = [P.snapshot_obj(o) for o in live.objs]
    for n in range(spec["runs"]):
        del live.log[:]
        live.handler_calls[:] = []
        live.run_no = n
        if per_run:
            refs = _references(prog, n, acts)
            model = refs[0]
            if case is not None:
                # force_failure is an attribute the test sets on itself; testtools leaves it alone between runs
                # (DESIGN 11.2), so a program whose runs differ starts each run with the value it was built with
                case.force_failure = bool(prog.get("force_outside"))
        obs = R.run_program(prog, spec["flavour"], case=case, live=live)
        case = obs["case"]
        log = list(live.log)
        ref = next((m for m in refs if m.log == log), model)        # the reading this run followed (if any)
        if log != ref.log:
            # classify the first divergence
            i = next((k for k, (a, b) in enumerate(zip(log, model.log)) if a != b), min(len(log), len(model.log)))
            got = log[i] if i < len(log) else None
            want = model.log[i] if i < len(model.log) else None
            kind = "missing" if got is None else ("extra" if want is None else "order")
            what = (want or got)[0]
            vs.append(V("sequence", "run%d-%s-%s" % (min(n, 1), kind, what),
                        "run %d: execution log diverges at %d: got %r, reference %r\n got: %r\n ref: %r" % (n, i, got, want, log, model.log)))
        now = [P.snapshot_obj(o) for o in live.objs]
        if now != pristine:
            vs.append(V("restore", "patched-attributes", "after run %d the scratch objects are %r, before the test %r" % (n, now, pristine)))
        if getattr(case, "_cleanups", None):
            vs.append(V("restore", "cleanups-left", "%d cleanups still registered after run %d" % (len(case._cleanups), n)))
        summ = summarize(obs)
        if per_run:
            # every run is judged against its own reference: nothing of an earlier run may linger
            readings = [({R.degrade(o, spec["flavour"]) for o in adm}, prop) for adm, prop in _outcome_readings(ref, prog, n)]
            admissible = set().union(*[adm for adm, _ in readings])
            if not vs and (len(summ[0]) != 1 or summ[0][0] not in admissible):
                vs.append(V("rerun", "stale-outcome", "run %d reported %r, its own reference admits %r (raised in this run: %r)" % (
                    n, summ[0], sorted(admissible), [r["kind"] for r in ref.raised])))
            if not vs and not any(summ[0][0] in adm and (obs["raised"] is not None) == prop for adm, prop in readings):
                vs.append(V("rerun", "stale-propagation", "run %d: %r and run() raised %r; the reference admits %r" % (
                    n, summ[0][0], obs["raised"], [(sorted(adm), "propagates" if prop else "returns") for adm, prop in readings])))
        elif first is None:
            first = (log, summ, repr(type(obs["raised"])))
        elif (log, summ, repr(type(obs["raised"]))) != first and not vs:
            vs.append(V("rerun", "differs", "run %d differs from run 0: outcome/markers %r vs %r" % (n, summ, first[1])))
        for o, p in zip(live.objs, pristine):      # start the next run from a pristine world (isolates the clauses)
            P.restore_obj(o, p)
        if vs:
            break

    def walk(acts, depth, in_td):
        f = False
        for a in acts:
            if a["a"] == "cleanup":
                if depth >= 1 or in_td:
                    f = True
                f = walk(a["body"], depth + 1, in_td) or f
        return f
    late = walk(prog["tearDown_pre"] + prog["tearDown_post"], 0, True) or any(
        walk(prog[s], 0, False) for s in ("setUp_pre", "setUp_post", "body"))
    fx = any(a["a"] == "fixture" for a in acts)
    nt = late or fx or (bool(model.raised) and any(x[0] == "C" for x in model.log))
    return Case(vs, nt, ["runs=%d" % spec["runs"], "late-cleanup" if late else "", "fixture" if fx else "",
                         "patch" if any(a["a"] == "patch" for a in acts) else "", "per-run-actions" if per_run else "",
                         "burst" if any(a["a"] == "cleanup_burst" for a in acts) else "", "raises=%d" % min(len(model.raised), 4)],
                {"log": model.log[:12]})


def _enum():
    """One registration site x one fault site grid."""
    sites = ["setUp_pre", "setUp_post", "body", "tearDown_pre", "tearDown_post", "in_cleanup"]
    faults = [None, "setUp_pre", "setUp_post", "body", "tearDown_pre", "tearDown_post", "cleanup_body", "other_cleanup"]
    kinds = ["error", "kbi", "skip"]
    for reg in sites:
        for fault in faults:
            for kind in (kinds if fault else [None]):
                for what in ("cleanup", "patch", "fixture"):
                    ids = itertools.count(1)
                    prog = {"decor": "none", "setUp_pre": [], "setUp_post": [], "body": [], "tearDown_pre": [], "tearDown_post": [],
                            "handlers": [], "handlers_when": "init", "cells": 0}
                    item = {"cleanup": {"a": "cleanup", "i": next(ids), "args": True, "body": [{"a": "log", "i": next(ids)}]},
                            "patch": {"a": "patch", "i": next(ids), "obj": 0, "attr": "nonev", "value": "patched"},
                            "fixture": {"a": "fixture", "i": next(ids), "spec": {"i": next(ids), "setup_fail": False, "cleanup_fail": False, "details": {}, "nested": None}}}[what]
                    prog["setUp_post"].append({"a": "cleanup", "i": next(ids), "args": False, "body": [{"a": "read", "i": next(ids), "obj": 0, "attr": "nonev"}]})
                    if reg == "in_cleanup":
                        prog["body"].append({"a": "cleanup", "i": next(ids), "args": False, "body": [item]})
                    else:
                        prog[reg].append(item)
                    r = {"a": "raise", "i": next(ids), "kind": kind}
                    if fault == "cleanup_body" and what == "cleanup":
                        item["body"].append(r)
                    elif fault == "other_cleanup":
                        prog["body"].append({"a": "cleanup", "i": next(ids), "args": False, "body": [r]})
                    elif fault in prog:
                        prog[fault].append(r)
                    elif fault is not None:
                        continue
                    yield {"prog": prog, "runs": 2, "flavour": "ext"}


def _enum_double_patch():
    """The same attribute patched twice, with cleanups that read it registered before, between and after."""
    for obj in (0, 2):
        for attr in ("x", "nonev") + (("missing",) if obj == 0 else ()):
            for where in ("setUp_post", "body"):
                for fault in (None, "error", "kbi"):
                    ids = itertools.count(1)
                    rd = lambda: {"a": "cleanup", "i": next(ids), "args": False, "body": [{"a": "read", "i": next(ids), "obj": obj, "attr": attr}]}
                    acts = [rd(), {"a": "patch", "i": next(ids), "obj": obj, "attr": attr, "value": "first"}, rd(),
                            {"a": "patch", "i": next(ids), "obj": obj, "attr": attr, "value": "second"}, rd(),
                            {"a": "read", "i": next(ids), "obj": obj, "attr": attr}]
                    if fault:
                        acts.append({"a": "raise", "i": next(ids), "kind": fault})
                    prog = {"decor": "none", "setUp_pre": [], "setUp_post": [], "body": [], "tearDown_pre": [], "tearDown_post": [],
                            "handlers": [], "handlers_when": "init", "cells": 0}
                    prog[where] = acts
                    for flavour in ("ext", "real"):
                        yield {"prog": prog, "runs": 2, "flavour": flavour}


# ----------------------------------------------------------------------------- direct programs
# (third audit A2, A3 and the open items of the first two.)  The vocabulary of vp.programs registers Python closures
# only, runs one instance at a time and patches strings.  The programs below are written out as small op lists:
#   {"o": "log", "n": name} | {"o": "raise", "k": error|kbi|skip|fail} | {"o": "stop"} |
#   {"o": "reg", "n": name, "k": callable kind, "b": [ops run by the cleanup]} | {"o": "inner"} |
#   {"o": "patchv", "v": value kind} | {"o": "patcher", "n": name, "via": cleanup|rwp|rwp_raise} |
#   {"o": "read", "n": name} | {"o": "chain", "n": length, "fail_at": k|None}
# A plan is {"setUp": ops, "body": ops, "tearDown": ops}; DModel is its reference interpreter.
D_CALLABLES = ("closure", "lambda", "partial", "partial_args", "instance", "builtin", "class", "bound", "mock",
               "methodcaller", "self_method", "cm", "kwnames")
D_VALUES = ("list_copy", "dict_copy", "str_copy", "bool_int", "always_equal", "never_equal", "nan", "eq_raises")
D_ATTRS = ("x", "nonev", "missing")


class DModel:
    """Reference interpreter of a direct program: stages in order, then every registered callable once, LIFO."""

    def __init__(self, spec):
        self.spec = spec
        self.log = []
        self.state = {"x": "orig-x", "nonev": None}

    def get(self, attr):
        return self.state.get(attr, "<absent>")

    def run(self, plan=None):
        plan = plan or self.spec["plan"]
        stack = []

        def ops(lst):
            for op in lst:
                o = op["o"]
                if o == "log":
                    self.log.append(("L", op["n"]))
                elif o == "raise":
                    self.log.append(("X", op["k"]))
                    return False
                elif o == "stop":
                    pass
                elif o == "reg":
                    if op["k"] == "cm":
                        self.log.append(("L", op["n"] + ":enter"))
                    stack.append(op)
                elif o == "inner":
                    self.run(self.spec["inner"]["plan"])        # its own stack; whatever it raised stays inside its run()
                elif o == "patchv":
                    pass                                        # judged by identity after the run
                elif o == "read":
                    self.log.append(("R", op["n"]) + tuple(self.get(a) for a in D_ATTRS))
                elif o == "patcher":
                    before = dict(self.state)
                    self.state.update({"x": "b", "missing": "m", "nonev": "n"})
                    if op["via"] == "cleanup":
                        stack.append({"o": "unpatcher", "state": before})
                        self.log.append(("R", op["n"]) + tuple(self.get(a) for a in D_ATTRS))
                    else:
                        self.log.append(("R", op["n"]) + tuple(self.get(a) for a in D_ATTRS))
                        self.state = before
                        self.log.append(("R", op["n"] + ":after") + tuple(self.get(a) for a in D_ATTRS))
                        if op["via"] == "rwp_raise":
                            return False
                elif o == "chain":
                    stack.append({"o": "link", "i": 0, "n": op["n"], "fail_at": op.get("fail_at")})
                elif o == "duck":
                    self.log.append(("FS", op["n"]))
                    stack.append(op)
                else:
                    raise AssertionError(o)
            return True

        if ops(plan["setUp"]):
            ops(plan["body"])
            ops(plan["tearDown"])
        while stack:
            op = stack.pop()
            if op["o"] == "reg":
                self.log.append(("C", op["n"]))
                ops(op["b"])
            elif op["o"] == "unpatcher":
                self.state = op["state"]
            elif op["o"] == "duck":
                self.log.append(("FC", op["n"]))
            elif op["o"] == "link":
                self.log.append(("K", op["i"]))
                if op["i"] + 1 < op["n"]:
                    stack.append(dict(op, i=op["i"] + 1))
        return self


def _d_kw_names():
    """Keyword names a cleanup may legitimately be registered with and that the plumbing between addCleanup and the
    call could be tempted to use for its own parameters: read off the tree under test (input generation only; the
    oracle does not depend on them).  addCleanup's own positional parameters are left out: testtools does not
    declare them positional-only, so those names are refused at registration (recorded, not filed)."""
    import inspect
    from testtools.runtest import RunTest
    from testtools.testcase import TestCase
    names = {"k", "fn", "function_", "result", "exc_info", "tb_label"}
    own = {"self", "function"}
    try:
        ps = list(inspect.signature(TestCase.addCleanup).parameters.values())
        own |= {q.name for q in ps if q.kind in (q.POSITIONAL_ONLY, q.POSITIONAL_OR_KEYWORD, q.KEYWORD_ONLY)}
        names |= {q.name for q in ps if q.kind in (q.VAR_POSITIONAL, q.VAR_KEYWORD)}
    except (TypeError, ValueError):
        pass
    for meth in ("_run_user", "_run_cleanups", "_got_user_exception", "_run_core", "_run_one", "run"):
        f = getattr(RunTest, meth, None)
        try:
            ps = list(inspect.signature(f).parameters.values())
        except (TypeError, ValueError):
            continue
        names |= {q.name for q in ps}
    return sorted(names - own)


def _d_value(kind, copy):
    """The pre-test value of a patched attribute (copy=False) / what the test patches in: equal to it, or of a type
    whose == cannot be asked, but never the same object."""
    class AlwaysEqual:
        __hash__ = object.__hash__

        def __eq__(self, other):
            return True

        def __ne__(self, other):
            return False

    class NeverEqual:
        __hash__ = object.__hash__

        def __eq__(self, other):
            return False

        def __ne__(self, other):
            return True

    class Ambiguous:
        def __bool__(self):
            raise ValueError("The truth value of an array with more than one element is ambiguous")

    class ArrayLike:
        __hash__ = object.__hash__

        def __eq__(self, other):
            return Ambiguous()

        def __ne__(self, other):
            return Ambiguous()

    if kind == "list_copy":
        return [1, 2]
    if kind == "dict_copy":
        return {"PATH": "/bin"}
    if kind == "str_copy":
        return "-".join(["orig", "value"])            # built at run time: two calls give two objects
    if kind == "bool_int":
        return 0 if copy else False
    if kind == "nan":
        return float("nan")
    return {"always_equal": AlwaysEqual, "never_equal": NeverEqual, "eq_raises": ArrayLike}[kind]()


def _d_build(spec, ctx):
    """-> (outer case, inner case or None); the stage bodies interpret the plans and write ctx['log']."""
    import functools
    import operator
    import types
    import unittest.mock
    import testtools
    from testtools.monkey import MonkeyPatcher
    log = ctx["log"]
    WANT = ((1, "two"), {"k": 3})

    class Duck:
        """Not a fixtures.Fixture: just the three methods useFixture needs."""

        def __init__(self, op):
            self.op = op

        def setUp(self):
            log.append(("FS", self.op["n"]))

        def cleanUp(self):
            log.append(("FC", self.op["n"]))
            if self.op.get("cfail"):
                raise RuntimeError("MARK-9-")

        def getDetails(self):
            return {}

    def read(name):
        o = ctx["obj"]
        log.append(("R", name) + tuple(getattr(o, a, "<absent>") for a in D_ATTRS))

    def register(case, op):
        name, kind = op["n"], op["k"]
        want = WANT

        def fn(*args, **kw):
            log.append(("C", name))
            if (args, kw) != want:
                log.append(("BADARGS", name, repr(args), repr(kw)))
            do(case, op["b"])

        if kind == "closure":
            want = ((), {})
            case.addCleanup(fn)
        elif kind == "lambda":
            want = ((), {})
            case.addCleanup(lambda: fn())
        elif kind == "partial":
            want = ((1, "two"), {"k": 3})
            case.addCleanup(functools.partial(fn, 1, "two", k=3))
        elif kind == "partial_args":
            case.addCleanup(functools.partial(fn, 1), "two", k=3)
        elif kind == "instance":
            class Closer:                      # a callable object: no __name__, no __code__
                def __call__(self, *a, **kw):
                    return fn(*a, **kw)
            case.addCleanup(Closer(), 1, "two", k=3)
        elif kind == "builtin":
            assert not op["b"]
            case.addCleanup(log.append, ("C", name))
        elif kind == "class":
            class Rec:
                def __init__(self, *a, **kw):
                    fn(*a, **kw)
            case.addCleanup(Rec, 1, "two", k=3)
        elif kind == "bound":
            class Res:
                def close(self, *a, **kw):
                    return fn(*a, **kw)
            case.addCleanup(Res().close, 1, "two", k=3)
        elif kind == "mock":
            case.addCleanup(unittest.mock.Mock(side_effect=fn), 1, "two", k=3)
        elif kind == "methodcaller":
            class Res2:
                def close(self, *a, **kw):
                    return fn(*a, **kw)
            case.addCleanup(operator.methodcaller("close", 1, "two", k=3), Res2())
        elif kind == "self_method":
            case.addCleanup(types.MethodType(lambda self_, *a, **kw: fn(*a, **kw), case), 1, "two", k=3)
        elif kind == "cm":
            want = ((None, None, None), {})

            class CM:
                def __enter__(self):
                    log.append(("L", name + ":enter"))
                    return self

                def __exit__(self, *exc):
                    fn(*exc)
            if hasattr(case, "enterContext"):
                case.enterContext(CM())
            else:
                cm = CM()
                cm.__enter__()
                case.addCleanup(cm.__exit__, None, None, None)
        elif kind == "kwnames":
            kws = {n: i for i, n in enumerate(_d_kw_names())}
            want = ((), kws)
            case.addCleanup(fn, **kws)
        else:
            raise AssertionError(kind)

    def do(case, ops):
        for op in ops:
            o = op["o"]
            if o == "log":
                log.append(("L", op["n"]))
            elif o == "raise":
                log.append(("X", op["k"]))
                if op["k"] == "error":
                    raise RuntimeError("MARK-1-")
                if op["k"] == "kbi":
                    raise KeyboardInterrupt("MARK-2-")
                if op["k"] == "skip":
                    raise case.skipException("MARK-3-")
                raise case.failureException("MARK-4-")
            elif o == "stop":
                ctx["result"].stop()
            elif o == "reg":
                register(case, op)
            elif o == "inner":
                ctx["inner"].run(testtools.TestResult())
            elif o == "patchv":
                case.patch(ctx["obj"], "x", _d_value(op["v"], True))
            elif o == "read":
                read(op["n"])
            elif o == "patcher":
                obj = ctx["obj"]
                mp = MonkeyPatcher((obj, "x", "a"), (obj, "x", "b"), (obj, "missing", "m"), (obj, "nonev", "n"))
                if op["via"] == "cleanup":
                    mp.patch()
                    case.addCleanup(mp.restore)
                    read(op["n"])
                else:
                    def inside():
                        read(op["n"])
                        if op["via"] == "rwp_raise":
                            raise RuntimeError("MARK-5-")
                    try:
                        mp.run_with_patches(inside)
                    finally:
                        read(op["n"] + ":after")
            elif o == "chain":
                def link(i, n=op["n"], fail_at=op.get("fail_at")):
                    log.append(("K", i))
                    if i + 1 < n:
                        case.addCleanup(link, i + 1)
                    if i == fail_at:
                        raise RuntimeError("MARK-6-")
                case.addCleanup(link, 0)
            elif o == "duck":
                case.useFixture(Duck(op))
            else:
                raise AssertionError(o)

    def mk(plan_of):
        class Direct(testtools.TestCase):
            def setUp(self):
                super().setUp()
                do(self, plan_of(self)["setUp"])

            def test_direct(self):
                do(self, plan_of(self)["body"])

            def tearDown(self):
                do(self, plan_of(self)["tearDown"])
                super().tearDown()
        return Direct

    inner_spec = spec.get("inner")
    outer_cls = mk(lambda self: inner_spec["plan"] if self.id() == "vp-inner" else spec["plan"])
    outer = outer_cls("test_direct")
    inner = None
    if inner_spec:
        if inner_spec["how"] == "clone":
            # cloned from the constructed, not yet executed test (the documented use); a shallow copy
            inner = testtools.clone_test_with_new_id(outer, "vp-inner")
        else:
            inner = mk(lambda self: inner_spec["plan"])("test_direct")
    return outer, inner


def run_direct(spec):
    import unittest
    import testtools
    from vp.results import Ext
    vs = []
    model = DModel(spec).run()
    live = P.Live()
    obj = live.objs[spec.get("obj", 0)]
    ctx = {"log": [], "obj": obj, "result": None, "inner": None}
    case, ctx["inner"] = _d_build(spec, ctx)
    vkind = spec.get("vkind")
    orig = _d_value(vkind, False) if vkind else None
    if vkind:
        setattr(obj, "x", orig)
    pristine = [P.snapshot_obj(o) for o in live.objs]

    def absent(v):
        return type(v) is str and v == "<absent>"

    def same_val(a, b):  # with the value kinds above the attribute values are compared by identity: their == says nothing
        if a is b or (absent(a) and absent(b)):
            return True
        return not vkind and not absent(a) and not absent(b) and a == b

    def same(a, b):
        return all(same_val(x[k], y[k]) for x, y in zip(a, b) for k in x)
    first = None
    for n in range(spec.get("runs", 2)):
        del ctx["log"][:]
        shared = []
        res = {"ext": lambda: Ext(log=shared), "real": testtools.TestResult, "stdlib": unittest.TestResult}[spec.get("result", "ext")]()
        ctx["result"] = res
        raised = None
        try:
            entry = spec.get("entry", "run")
            if entry == "run":
                case.run(res)
            elif entry == "call":
                case(res)
            else:
                case.defaultTestResult = lambda: res
                case.run()
        except BaseException as e:
            if isinstance(e, MemoryError):
                raise
            raised = e
        log = list(ctx["log"])
        if log != model.log:
            i = next((k for k, (a, b) in enumerate(zip(log, model.log)) if a != b), min(len(log), len(model.log)))
            got = log[i] if i < len(log) else None
            want = model.log[i] if i < len(model.log) else None
            kind = "missing" if got is None else ("extra" if want is None else "order")
            vs.append(V("sequence", "direct-%s-%s" % (spec["direct"], kind),
                        "run %d: execution log diverges at %d: got %r, reference %r (run() raised %r)\n got: %r\n ref: %r" % (
                            n, i, got, want, raised, log[:40], model.log[:40])))
        now = [P.snapshot_obj(o) for o in live.objs]
        if not same(now, pristine):
            vs.append(V("restore", "direct-patched-attributes", "after run %d the scratch objects are %r, before the test %r%s" % (
                n, now, pristine, " (compared by identity)" if vkind else "")))
        if getattr(case, "_cleanups", None):
            vs.append(V("restore", "direct-cleanups-left", "%d cleanups still registered after run %d" % (len(case._cleanups), n)))
        if spec.get("result", "ext") == "ext":
            summ = [e[0] for e in shared if e[0] in OUTCOMES]
        else:
            summ = [res.testsRun, len(res.errors), len(res.failures), len(getattr(res, "skipped", ()))]
        cur = (log, summ, type(raised).__name__)
        if first is None:
            first = cur
        elif cur != first and not vs:
            vs.append(V("rerun", "direct-differs", "run %d differs from run 0: outcome %r / raised %s vs %r / %s" % (n, summ, cur[2], first[1], first[2])))
        for o, p in zip(live.objs, pristine):
            for a, v in p.items():
                if not same_val(v, getattr(o, a, "<absent>")):
                    if absent(v):
                        delattr(o, a)
                    else:
                        setattr(o, a, v)
        if vs:
            break
    return Case(vs, True, ["direct-" + spec["direct"], "runs=%d" % spec.get("runs", 2)] + list(spec.get("labels", [])), {"log": model.log[:12]})


def _plan():
    return {"setUp": [], "body": [], "tearDown": []}


def _reg(n, k="closure", b=()):
    return {"o": "reg", "n": n, "k": k, "b": list(b)}


def _place(plan, site, ops):
    """Put ops at a site; 'cleanup' = inside a cleanup registered by the test method."""
    if site == "cleanup":
        plan["body"].append(_reg("holder", "closure", ops))
    else:
        plan[site] += ops


def _fault(plan, fault):
    if fault:
        plan["body"].append({"o": "raise", "k": fault})


def _enum_direct():
    sites = ("setUp", "body", "tearDown", "cleanup")
    # A2: what kind of callable is registered (x where, x what fails)
    for kind in D_CALLABLES:
        for site in sites:
            for fault in (None, "error", "kbi", "self_error"):
                if fault == "self_error" and kind == "builtin":
                    continue
                plan = _plan()
                plan["setUp"].append(_reg("first"))
                b = [{"o": "log", "n": "in-x"}] if kind != "builtin" else []
                if fault == "self_error":
                    b.append({"o": "raise", "k": "error"})
                _place(plan, site, [_reg("a"), _reg("x", kind, b), _reg("b")])
                _fault(plan, fault if fault != "self_error" else None)
                yield {"direct": "callable", "plan": plan, "labels": ["callable=" + kind]}
    # entry points other than run(result)
    for entry in ("call", "noresult"):
        for site in sites:
            for fault in (None, "error", "kbi"):
                plan = _plan()
                plan["setUp"].append(_reg("first"))
                _place(plan, site, [_reg("a"), _reg("b", "closure", [_reg("late")])])
                _fault(plan, fault)
                yield {"direct": "entry", "plan": plan, "entry": entry, "labels": ["entry=" + entry]}
    # A3: another test (another class / a clone of this one) runs while this one is between setUp and its cleanups
    for how in ("other", "clone"):
        for site in sites:
            for ifault in (None, "error"):
                for fault in (None, "error", "kbi"):
                    plan = _plan()
                    plan["setUp"].append(_reg("o-setUp"))
                    plan["body"].append(_reg("o-body"))
                    _place(plan, site, [{"o": "inner"}, {"o": "log", "n": "after-inner"}])
                    _fault(plan, fault)
                    iplan = _plan()
                    iplan["setUp"].append(_reg("i-setUp"))
                    iplan["body"] += [_reg("i-body", "closure", [_reg("i-late")]), {"o": "log", "n": "i-body"}]
                    _fault(iplan, ifault)
                    yield {"direct": "nested", "plan": plan, "inner": {"how": how, "plan": iplan}, "labels": ["inner=" + how]}
    # the result is told to stop while the test runs: its cleanups are still owed
    for where in ("setUp", "body", "tearDown", "cleanup"):
        for result in ("real", "stdlib", "ext"):
            for fault in (None, "error"):
                plan = _plan()
                plan["setUp"].append(_reg("first"))
                plan["body"] += [_reg("a"), _reg("b", "closure", [_reg("late")])]
                _place(plan, where, [{"o": "stop"}])
                plan["body"].append(_reg("c"))
                _fault(plan, fault)
                yield {"direct": "stop", "plan": plan, "result": result, "labels": ["stop=" + where]}
    # patch() with a value that equals the original, or whose == cannot be asked: the original object is back afterwards
    for vkind in D_VALUES:
        for site in ("setUp", "body"):
            for fault in (None, "error"):
                for obj in (0, 2):
                    plan = _plan()
                    plan[site] += [_reg("a"), {"o": "patchv", "v": vkind}, _reg("b")]
                    _fault(plan, fault)
                    yield {"direct": "identity", "plan": plan, "vkind": vkind, "obj": obj, "labels": ["value=" + vkind]}
    # one MonkeyPatcher holding several patches (two of them of one attribute), undone by a cleanup / by run_with_patches
    for via in ("cleanup", "rwp", "rwp_raise"):
        for site in ("setUp", "body", "cleanup"):
            for fault in (None, "error", "kbi"):
                for obj in (0, 2):
                    plan = _plan()
                    plan["setUp"].append(_reg("reader0", "closure", [{"o": "read", "n": "r0"}]))
                    _place(plan, site, [_reg("reader1", "closure", [{"o": "read", "n": "r1"}]), {"o": "patcher", "n": "p", "via": via},
                                        _reg("reader2", "closure", [{"o": "read", "n": "r2"}])])
                    _fault(plan, fault)
                    yield {"direct": "patcher", "plan": plan, "obj": obj, "labels": ["patcher=" + via]}
    # (no unrenderable exceptions - an error object whose traceback cannot be rendered makes the outcome handler itself
    # raise: the exception object is broken, not the runner (DESIGN 11.2), at every site; see ASSUMPTIONS)
    # a duck-typed fixture (setUp / cleanUp / getDetails, not a fixtures.Fixture)
    for site in sites:
        for cfail in (False, True):
            for fault in (None, "error", "kbi"):
                plan = _plan()
                plan["setUp"].append(_reg("first"))
                _place(plan, site, [_reg("a"), {"o": "duck", "n": "d", "cfail": cfail}, _reg("b")])
                _fault(plan, fault)
                yield {"direct": "duck-fixture", "plan": plan, "labels": ["duck-fixture"]}
    # a cleanup that registers the next one, more links than the interpreter allows frames
    for site in ("setUp", "body"):
        for fail_at in (None, 0, 600):
            plan = _plan()
            plan["setUp"].append(_reg("first"))
            plan[site].append({"o": "chain", "n": 1100, "fail_at": fail_at})
            yield {"direct": "chain", "plan": plan, "labels": ["chain"]}


def subchecks(tier):
    q = tier == "quick"
    return [
        Sub("random_programs", run_case, CASE, 2000 if q else 60000),
        Sub("double_patch_grid", run_case, enum=_enum_double_patch, enum_complete=True,
            note="one attribute patched twice with reading cleanups before / between / after, x existing / None-valued / missing "
                 "attribute x plain / slotted object x setUp / test method x no fault / error / KeyboardInterrupt, run twice"),
        Sub("direct_programs_grid", run_direct, enum=_enum_direct, enum_complete=True,
            note="hand-written programs outside the generated vocabulary: 13 kinds of callable handed to addCleanup (partial, callable "
                 "instance, builtin method, class, Mock, methodcaller, enterContext, keyword names of the plumbing, ...) x 4 sites x 4 faults; "
                 "entry points case(result) / run(); another test or a clone run from inside setUp / test / tearDown / a cleanup; "
                 "result.stop() during the test x 3 results; patch() with equal-but-distinct / incomparable values (identity after the run); "
                 "one MonkeyPatcher with several patches undone by a cleanup / run_with_patches; a 1100-link chain of cleanups "
                 "registering cleanups; each run twice"),
        Sub("registration_x_fault_grid", run_case, enum=_enum, enum_complete=True,
            note="6 registration sites x 8 fault sites x {error, KeyboardInterrupt, skip} x {cleanup, patch, fixture}, each run twice"),
    ]
