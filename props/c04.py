"""C04 - run verdict and stop control are consistent with the outcomes reported."""
import io
import os
import re
import subprocess
import sys
import threading
import types
import unittest

from hypothesis import strategies as st

from vp.core import Case, Sub, V, VERIF, REPO
from vp import history as H
import warnings

# plain unittest.TestCase tests run against testtools results, which have no addDuration (Python 3.12 only warns)
warnings.filterwarnings("ignore", message="TestResult has no addDuration method")

PROPERTY = "C04"
RULE = ("(1) Model-based histories of outcomes over 0..4 tests with startTestRun/stopTestRun boundaries, stop() and "
        "failfast (off / set on the inner results before wrapping / set on the outer object after wrapping) on "
        "generated stacks (TestResult, TextTestResult, MultiTestResult, ThreadsafeForwardingResult, each under 0..2 "
        "of ExtendedToOriginalDecorator / TestResultDecorator / Tagger, and ExtendedToStreamDecorator with "
        "StreamFailFast), driven through an ExtendedToOriginalDecorator as TestCase.run does; after every call "
        "wasSuccessful()/shouldStop of the outer object and of every underlying result are compared with the "
        "model (in the states listed under ASSUMPTIONS as 'not asserted' both answers are admitted). (2) TextTestResult "
        "output parsed after stopTestRun, including errors/failures reported about things "
        "that are not started tests (as unittest reports setUpClass/setUpModule failures) and runs in which no test "
        "is started at all. (3) generated suites of real TestCases run by "
        "unittest.TestSuite / TestToolsTestRunner / testtools.run.main (in-process, exit status derived from "
        "SystemExit.code as the OS would; real subprocesses in the thorough tier). (4) on and off are spelled in every way "
        "a caller does (True / 1; False / None / 0 / argument omitted) and the tests reported about are TestCases, "
        "PlaceHolders and ErrorHolders; two exhaustive grids, run at every seed, cover per base: failfast switched "
        "on / off / on again right before the one outcome that decides (each failing kind, add*() and native status() "
        "for the stream adapter, with and without an explicit startTestRun, with and without any earlier read of the "
        "adapter), a change between two tests and one that must survive startTestRun; and per runner: each failing "
        "kind raised by a testtools and by a plain unittest TestCase (which reports to the result directly, so that "
        "the result's own failfast branch decides) in second position of three tests. Only truth values of "
        "wasSuccessful()/shouldStop are compared; the duration in 'Ran N tests in Xs' is not looked at and the verdict line "
        "may carry further counts in its brackets ('OK (skipped=1)', 'FAILED (failures=2, skipped=1)'). Non-trivial: >= 2 tests with a "
        "bad outcome not in first position, or a second startTestRun, or stack depth >= 2; distinct = distinct spec.")
ASSUMPTIONS = [
    "wasSuccessful() of ExtendedToStreamDecorator after an unexpected success is not asserted (sentence 1 names TestResult-family objects)",
    "results are driven through ExtendedToOriginalDecorator(outer), exactly what TestCase.run does; failfast set on a "
    "plain TestResultDecorator/Tagger/ThreadsafeForwardingResult takes effect through that decorator",
    "startTestRun resets shouldStop (documented: resets the result to a pristine condition)",
    "detail texts contain no lines that look like TextTestResult section headers",
    "a change of failfast takes effect at once, for the very next outcome, not at the next startTestRun (the statement "
    "says 'set before or after wrapping' and is silent about a change in the middle of a run; an implementation that "
    "reads the flag once per run would be reported as stop:*-early / *-missing by the failfast op and by failfast_grid); "
    "when it is switched on after a failing outcome of the same run, shouldStop is not asserted until stop(), the next "
    "failing outcome or the flag being switched off again pins it ('the first such outcome' may be the one already there)",
    "stop() called on ONE constituent of a MultiTestResult, not on the multiplexer: that constituent's shouldStop is "
    "asserted, the multiplexer's is not (the statement speaks of stop() reaching the underlying results, not of a "
    "multiplexer noticing what happened behind its back)",
    "an adapter over a 2.6/2.7-style target (no startTestRun of its own): whether a stop request made in an earlier run "
    "is still standing after the adapter's startTestRun is not asserted; stop() or a failing outcome under failfast in "
    "the new run are asserted as ever",
    "two ThreadsafeForwardingResults over one target: after a failing outcome that went through the OTHER forwarder only, "
    "the verdict of a forwarder (and of decorators around it) is not asserted (the target's is), and after failfast was "
    "ASSIGNED to one forwarder shouldStop at a failure reported through the other is not asserted (a plain attribute of "
    "that forwarder, or a property reaching the shared target); a target CREATED failfast, with no later assignment, must "
    "stop for either",
    "a plain unittest.TestCase (suites_grid, std_* kinds) with failfast on is only run against objects that act on the "
    "flag themselves (TestResult, TextTestResult, MultiTestResult, ExtendedToOriginalDecorator, a forwarder whose target "
    "has it): TestResultDecorator / Tagger / ThreadsafeForwardingResult keep an assigned failfast as a plain attribute",
]

BASES = ["TestResult", "TextTestResult", "Multi", "TSFR", "ETSD", "ETOD-py26", "Multi-py26", "ETOD-py27", "Multi-hetero"]
WRAPS = ["ETOD", "Decorator", "Tagger"]
HIST = H.s_history(max_tests=4, with_control=False, with_tags=False, with_time=False, max_ops=22,
                   test_kinds=("case", "case", "case", "placeholder", "errorholder"))
# "failfast on or off": what counts is the truth value.  None is what TestToolsTestRunner passes when it was not given
# the argument, 0 / 1 are what an option parser or a C-minded caller hands over.
FF_ON = (True, 1)
FF_OFF = (False, None, 0)
S_FF_ON = st.sampled_from([True, True, 1])
S_FF_OFF = st.sampled_from([False, False, None, 0])
S_FF_ANY = st.sampled_from([True, False, 1, None, 0, True, False])


@st.composite
def s_case(draw):
    base = draw(st.sampled_from(BASES))
    wraps = draw(st.lists(st.sampled_from(WRAPS), max_size=2)) if base != "ETSD" else []
    ff = draw(st.sampled_from(["off", "before", "after", "after", "before2", "after2"]))
    if ff == "after2" and base != "Multi":
        ff = "after"
    if base in ("ETSD", "ETOD-py26", "Multi-py26", "ETOD-py27") and ff in ("before", "before2"):
        ff = "after"
    if ff == "before2" and base != "Multi":
        ff = "before"
    if base in ("ETOD-py26", "Multi-py26", "ETOD-py27"):
        wraps = []
    hist = draw(HIST)
    # sprinkle stop() / failfast toggles
    ops = []
    toggles = ff in ("off", "after") and draw(st.integers(0, 2)) == 0
    for op in hist["ops"]:
        if op["op"] == "outcome" and base == "ETSD" and draw(st.integers(0, 2)) == 0:
            op = dict(op, via_status=draw(st.sampled_from(["keyword", "positional"])))    # a native StreamResult event instead of add*()
        ops.append(op)
        if op["op"] in ("stopTest", "startTestRun") and draw(st.integers(0, 6)) == 0:
            # stop() on the outermost object or on any layer below it
            ops.append({"op": "stop", "layer": draw(st.integers(0, len(wraps))),
                        "child": draw(st.integers(0, 2)) if base == "Multi-hetero" and draw(st.booleans()) else None})
        if op["op"] in ("stopTest", "startTestRun") and toggles and draw(st.integers(0, 3)) == 0:
            ops.append({"op": "failfast", "value": draw(S_FF_ANY)})
        if op["op"] == "stopTest" and base == "TSFR" and ff in ("off", "before") and draw(st.integers(0, 3)) == 0:
            # another worker's forwarder reports a whole test to the shared target
            ops.append({"op": "sibling_test", "kind": draw(H.KIND)})
    spec = {"base": base, "wraps": wraps, "failfast": ff, "ops": ops, "ff_on": draw(S_FF_ON), "ff_off": draw(S_FF_OFF)}
    if base == "ETSD" and draw(st.booleans()):
        spec["late_first_read"] = True       # nothing is read from the adapter before the first call reaches it
    return spec


def build(spec):
    """-> (outer, underlying results list)"""
    import testtools
    from testtools.testresult import real
    on, off = spec.get("ff_on", True), spec.get("ff_off", False)
    ff_inner = on if spec["failfast"] == "before" else off
    under = []
    made = []
    siblings = []

    def TR():
        # "before2": only the second constituent was created with failfast
        r = testtools.TestResult(failfast=on if spec["failfast"] == "before2" and len(made) == 1 else ff_inner)
        made.append(r)
        under.append(r)
        return r
    b = spec["base"]
    text = None
    if b == "TestResult":
        r = TR()
    elif b == "TextTestResult":
        text = io.StringIO()
        r = testtools.TextTestResult(text, failfast=ff_inner)
        under.append(r)
    elif b == "Multi":
        r = testtools.MultiTestResult(TR(), TR())
    elif b == "Multi-hetero":
        # constituents that are not alike: a bare result, one behind a Tagger, one behind a pass-through decorator
        kids = [TR(), real.Tagger(TR(), {"y"}, set()), real.TestResultDecorator(TR())]
        build.children = kids
        r = testtools.MultiTestResult(*kids)
    elif b == "TSFR":
        sem = threading.Semaphore(1)
        target = TR()
        r = testtools.ThreadsafeForwardingResult(target, sem)
        # what ConcurrentTestSuite builds: one forwarder per worker over the same target
        sibling = testtools.ThreadsafeForwardingResult(target, sem)
        sibling.startTest(H.make_test(99))
        sibling.addSuccess(H.make_test(99))
        sibling.stopTest(H.make_test(99))
        siblings.append(sibling)
    elif b in ("ETOD-py26", "ETOD-py27"):
        from vp.results import Py26, Py27
        old_style = (Py26 if b == "ETOD-py26" else Py27)()
        under.append(old_style)
        r = testtools.ExtendedToOriginalDecorator(old_style)
    elif b == "Multi-py26":
        from vp.results import Py26
        old_style = Py26()
        under.append(old_style)
        r = testtools.MultiTestResult(old_style, TR())
    else:
        r = testtools.ExtendedToStreamDecorator(testtools.StreamResult())
    layers = [r]
    for w in reversed(spec["wraps"]):
        if w == "ETOD":
            r = testtools.ExtendedToOriginalDecorator(r)
        elif w == "Decorator":
            r = real.TestResultDecorator(r)
        else:
            r = real.Tagger(r, {"x"}, set())
        layers.insert(0, r)
    if spec["failfast"] == "after":
        r.failfast = on
    if spec["failfast"] == "after2":
        made[1].failfast = on        # asked of the second constituent only, once it is wrapped
    build.siblings = siblings
    build.layers = layers          # outermost first
    return r, under, text


def run_case(spec):
    import testtools
    vs = []
    outer, under, text = build(spec)
    # results wrapped around an old-style (2.6/2.7) target are driven directly: reporting straight to the
    # adapter is what a plain unittest.TestCase does
    direct = spec["base"] in ("ETOD-py26", "Multi-py26", "ETOD-py27")
    driver = outer if direct else testtools.ExtendedToOriginalDecorator(outer)
    ff = spec["failfast"] != "off"
    latched = False             # a failing outcome arrived while failfast was on (since the last startTestRun)
    child_stopped = set()       # (Multi-hetero) constituents that were told to stop individually
    bad = False
    bad_strict = False          # error/failure only (ETSD)
    bad_own = False             # ... reported through the object under test itself (bad: through any door to the same result)
    bad_sib = False             # ... reported through the sibling forwarder
    bad_ever = False            # ... at any time, through any door
    stop_open = False           # shouldStop is not pinned while nothing asks for a stop (see ASSUMPTIONS: two readings are admitted)
    toggled = False             # a failfast op has been applied to the outer object
    stopped = False
    cur = None
    ntests = 0
    bad_pos = None
    restarts = 0
    tag = spec["base"] + ("+" + "+".join(spec["wraps"]) if spec["wraps"] else "")

    n_before = [0]

    def check(step):
        n_before[0] = len(vs)
        try:
            ok = bool(outer.wasSuccessful())     # the truth value is what callers use (sys.exit(not ...), if ...)
        except Exception as e:
            vs.append(V("verdict", "wasSuccessful-raises-" + spec["base"], "wasSuccessful() raised %r after %s" % (e, step)))
            return
        if spec["base"] == "ETSD":
            if bad_strict and ok:
                vs.append(V("verdict", "ETSD-true-after-failure", "wasSuccessful() True after a failure (%s)" % step))
            if not bad and not ok:
                vs.append(V("verdict", "ETSD-false-without-failure", "wasSuccessful() False without any failing outcome (%s)" % step))
        elif ok != (not bad) and not (bad and not bad_own and ok):
            # (bad and not bad_own: the only failing outcome went through ANOTHER forwarder to the shared target; whether
            # this forwarder's verdict is the target's or its own is not pinned)
            vs.append(V("verdict", "%s-%s" % (spec["base"], "stale-failure" if not bad else "missed-failure"),
                        "wasSuccessful() is %r after %s on %s; failing outcome since last startTestRun: %r" % (ok, step, tag, bad)))
        want_stop = stopped or latched
        ss = outer.shouldStop
        # not pinned while nothing asks for a stop: failfast was switched on when a failing outcome had been reported already
        # ("at the first such outcome": the one before the switch, or the next one)
        open_now = stop_open or (ff and bad and not latched)
        if child_stopped and not want_stop:
            # stop() went to one constituent only, behind the multiplexer's back: that one is stopped; whether the
            # multiplexer notices is not part of the statement ("stop() called on any adapter or multiplexer reaches the
            # underlying result(s)" is the downward direction)
            for ui in sorted(child_stopped):
                if not under[ui].shouldStop:
                    vs.append(V("stop", "constituent-not-stopped", "stop() on constituent %d did not reach its underlying result (after %s)" % (ui, step)))
            return
        pinned = want_stop or not open_now
        if pinned and bool(ss) != want_stop:
            vs.append(V("stop", "%s-failfast=%s-%s" % (spec["base"], spec["failfast"], "early" if ss else "missing"),
                        "shouldStop is %r after %s on %s (failfast=%s, stop() called=%r, failing outcome=%r)" % (
                            ss, step, tag, spec["failfast"], stopped, bad)))
        for sib in getattr(build, "siblings", []) if pinned else []:
            if bool(sib.shouldStop) != want_stop and not (bool(ss) != want_stop):
                vs.append(V("stop", "sibling-forwarder", "a second ThreadsafeForwardingResult on the same target has shouldStop=%r, the first says %r after %s" % (sib.shouldStop, ss, step)))
        for ui, u in enumerate([] if direct or not pinned else under):
            if spec["failfast"] == "after2" and not stopped and ui != 1:
                # fail-fast was asked of the second constituent alone: until a startTestRun has spread the flag, the
                # other constituents were never asked to stop at a failure (the multiplexer says stop because one did)
                continue
            if bool(u.shouldStop) != want_stop and not (bool(ss) != want_stop):
                vs.append(V("stop", "underlying-%s" % spec["base"], "an underlying result has shouldStop=%r, outer says %r after %s" % (u.shouldStop, ss, step)))
        # the verdict as seen through every other door to the same result(s)
        if spec["base"] != "ETSD" and not direct and len(vs) == n_before[0]:
            for who, obj in [("underlying", u) for u in under] + [("sibling-forwarder", sib) for sib in getattr(build, "siblings", [])] + \
                    [("layer-%d" % i, l) for i, l in enumerate(getattr(build, "layers", [])[1:], 1)]:
                said = bool(obj.wasSuccessful())
                if who == "sibling-forwarder":
                    # the other worker's forwarder: says "failed" when something failing went through it, never before
                    # anything failing was reported at all; between the two it may answer for the shared target or for itself
                    wrong = (bad_sib and said) or (not bad_ever and not said)
                elif who == "underlying":
                    wrong = said != (not bad)
                else:
                    wrong = said != (not bad) and not (bad and not bad_own and said)
                if wrong:
                    vs.append(V("verdict", "%s-%s" % (who.split("-")[0], spec["base"]), "%s says wasSuccessful() %r after %s on %s, failing outcome reported: %r" % (
                        who, obj.wasSuccessful(), step, tag, bad)))
                    break

    if not spec.get("late_first_read"):
        # (wasSuccessful() starts a not yet started ExtendedToStreamDecorator: with late_first_read the first call of
        # the history meets an adapter that nothing has touched)
        check("construction")
    for n, op in enumerate(spec["ops"]):
        k = op["op"]
        if k == "startTestRun":
            driver.startTestRun()
            if not direct:
                bad = bad_strict = bad_own = bad_sib = stopped = latched = stop_open = False
                child_stopped.clear()
            elif stopped or latched:
                # 2.6/2.7-style targets know nothing of runs: their verdict persists; whether the adapter in front of them
                # starts the new run with the old stop request or with a fresh flag is not pinned (a new stop() / failing
                # outcome under failfast pins it again)
                stopped = latched = False
                stop_open = True
            restarts += 1
        elif k == "stopTestRun":
            driver.stopTestRun()
        elif k == "startTest":
            cur = H.make_test(op["i"], op.get("tk", "case"))
            driver.startTest(cur)
            ntests += 1
        elif k in ("outcome", "loose_outcome"):
            if k == "loose_outcome":
                # a problem reported about something that is not a started test (what unittest does with its
                # _ErrorHolder when setUpClass / setUpModule raises): no startTest before, no stopTest after
                cur = H.make_test(800 + n, op.get("tk", "placeholder"))
            if op.get("via_status"):
                status = {"success": "success", "error": "fail", "failure": "fail", "skip": "skip", "xfail": "xfail", "uxsuccess": "uxsuccess"}[op["kind"]]
                if op["via_status"] == "positional":
                    outer.status(cur.id(), status)
                else:
                    outer.status(test_id=cur.id(), test_status=status)
            else:
                H.outcome_call(driver, cur, op)
            if op["kind"] in H.BAD and ff:
                latched = True
            if op["kind"] in H.BAD:
                if not bad:
                    bad_pos = ntests
                bad = bad_own = bad_ever = True
                if op["kind"] != "uxsuccess":
                    bad_strict = True
                elif spec["base"] == "ETSD" and ff:
                    pass
        elif k == "stopTest":
            driver.stopTest(cur)
        elif k == "stop" and op.get("child") is not None and spec["base"] == "Multi-hetero":
            build.children[op["child"]].stop()
            child_stopped.add(op["child"])
        elif k == "stop":
            getattr(build, "layers", [outer])[min(op.get("layer", 0), len(build.layers) - 1)].stop()
            stopped = True
        elif k == "failfast":
            outer.failfast = op["value"]
            ff = bool(op["value"])
            toggled = True
        elif k == "sibling_test":
            sib = build.siblings[0]
            t2 = H.make_test(90 + n)
            sib.startTest(t2)
            getattr(sib, H.METHOD[op["kind"]])(t2, **({"details": {}} if op["kind"] != "skip" else {"reason": "r"}))
            sib.stopTest(t2)
            if op["kind"] in H.BAD:
                bad = bad_strict = bad_sib = bad_ever = True
                if spec["failfast"] == "before" and not toggled:
                    latched = True          # the shared target itself was created failfast
                elif ff or spec["failfast"] == "before":
                    # failfast was assigned to the other forwarder (or to something around it): whether that is a flag of
                    # that forwarder alone or reaches the shared target, which then stops at the sibling's failure, is not pinned
                    stop_open = True
        else:
            continue
        before = len(vs)
        check("%s#%d" % (k if not k.endswith("outcome") else k + ":" + op["kind"], n))
        if len(vs) > before:
            break
    nt = (ntests >= 2 and bad_pos is not None and bad_pos > 1) or restarts >= 2 or len(spec["wraps"]) >= 1 and spec["base"] in ("Multi", "TSFR") or len(spec["wraps"]) >= 2
    return Case(vs, nt, ["base=" + spec["base"], "wraps=%d" % len(spec["wraps"]), "failfast=" + spec["failfast"],
                         "bad" if bad_pos else "good", "stop" if any(o["op"] == "stop" for o in spec["ops"]) else "",
                         "stop-below-outer" if any(o["op"] == "stop" and o.get("layer") for o in spec["ops"]) else "",
                         "failfast-toggled" if any(o["op"] == "failfast" for o in spec["ops"]) else "",
                         "sibling-reports" if any(o["op"] == "sibling_test" for o in spec["ops"]) else "",
                         "native-status" if any(o.get("via_status") for o in spec["ops"]) else "",
                         "holder-test" if any(o.get("tk", "case") != "case" for o in spec["ops"]) else "",
                         "unbracketed-outcome" if any(o["op"] == "loose_outcome" for o in spec["ops"]) else "",
                         "failfast-spelled-1/None/0" if any(v is not True and v is not False for v in
                                                            [spec.get("ff_on", True), spec.get("ff_off", False)] +
                                                            [o["value"] for o in spec["ops"] if o["op"] == "failfast"]) else "",
                         "late-first-read" if spec.get("late_first_read") else ""],
                {"tests": ntests})


# ---------------------------------------------------------------- directed grids (the same run_case, every seed)
def _outcome(kind, native=None, form=None):
    if kind == "skip":
        payload = {"form": "reason", "reason": "r", "details": {}, "call": "pos"}
    elif kind in ("uxsuccess", "success"):
        payload = {"form": form or "none", "details": {}}
    else:
        payload = {"form": form or "details", "details": {}, "exc": "RuntimeError", "call": "pos"}
    op = {"op": "outcome", "kind": kind, "marker": 1, "payload": payload}
    if native:
        op["via_status"] = native
    return op


def _one_test(kind, native=None, tk="case", form=None, i=0):
    return [{"op": "startTest", "i": i, "tk": tk}, _outcome(kind, native, form), {"op": "stopTest"}]


def grid_failfast():
    """(a) failfast switched on / off / on again before the one outcome that decides, per base, per kind of outcome, per
    way of reporting it to the stream adapter, with and without an explicit startTestRun; (b) every spelling of
    on (True, 1) and off (False, None, 0), given at construction, after wrapping, or assigned later; (c) outcomes
    reported about a PlaceHolder / ErrorHolder.  A random history shows each of these unmasked (no stop(), no earlier
    latch, no later toggle) a handful of times per 2500 at best, and not at all for some bases at some seeds."""
    for base in BASES:
        natives = [None, "keyword", "positional"] if base == "ETSD" else [None]
        lates = [False, True] if base == "ETSD" else [False]
        # (a)
        for start_ff in ("off", "after"):
            for seq in ([False], [True], [True, False], [False, True], [True, False, True]):
                for kind in ("error", "failure", "uxsuccess", "skip"):
                    for native in natives:
                        for started in (True, False):
                            for late in lates:
                                ops = [{"op": "startTestRun"}] if started else []
                                ops += [{"op": "failfast", "value": v} for v in seq]
                                ops += _one_test(kind, native)
                                spec = {"base": base, "wraps": [], "failfast": start_ff, "ops": ops, "ff_on": True, "ff_off": False}
                                if late:
                                    spec["late_first_read"] = True
                                yield spec
        # a change between two tests of one run, and one made before the run starts that must survive startTestRun
        for start_ff in ("off", "after"):
            for kind in ("error", "failure", "uxsuccess"):
                for native in natives:
                    flip = {"op": "failfast", "value": start_ff == "off"}
                    yield {"base": base, "wraps": [], "failfast": start_ff, "ff_on": True, "ff_off": False,
                           "ops": [{"op": "startTestRun"}] + _one_test("success") + [flip] + _one_test(kind, native, i=1)}
                    yield {"base": base, "wraps": [], "failfast": start_ff, "ff_on": True, "ff_off": False,
                           "ops": [flip, {"op": "startTestRun"}] + _one_test(kind, native) + [{"op": "stopTestRun"}, {"op": "startTestRun"}] +
                           _one_test(kind, native, i=1)}
        # (b)
        modes = ["after"]
        if base not in ("ETSD", "ETOD-py26", "Multi-py26", "ETOD-py27"):
            modes.append("before")
        if base == "Multi":
            modes += ["before2", "after2"]
        for kind in ("error", "failure", "uxsuccess"):
            for wraps in ([], ["Tagger"], ["ETOD", "Decorator"]) if base in ("TestResult", "Multi", "TSFR", "TextTestResult") else ([],):
                for on in FF_ON:
                    for mode in modes:
                        yield {"base": base, "wraps": wraps, "failfast": mode, "ff_on": on, "ff_off": False,
                               "ops": [{"op": "startTestRun"}] + _one_test("success") + _one_test(kind, i=1)}
                    yield {"base": base, "wraps": wraps, "failfast": "off", "ff_on": True, "ff_off": False,
                           "ops": [{"op": "startTestRun"}, {"op": "failfast", "value": on}] + _one_test(kind)}
                for off in FF_OFF:
                    yield {"base": base, "wraps": wraps, "failfast": "off", "ff_on": True, "ff_off": off,
                           "ops": [{"op": "startTestRun"}] + _one_test(kind) + _one_test("success", i=1)}
                    yield {"base": base, "wraps": wraps, "failfast": "after", "ff_on": True, "ff_off": off,
                           "ops": [{"op": "startTestRun"}, {"op": "failfast", "value": off}] + _one_test(kind)}
        # (c)
        for tk in ("placeholder", "errorholder"):
            for kind, form in (("uxsuccess", "none"), ("uxsuccess", "details"), ("error", "details"), ("error", "err"), ("failure", "err"),
                               ("skip", None), ("xfail", "err"), ("success", "none")):
                for ffm in ("off", "after"):
                    yield {"base": base, "wraps": [], "failfast": ffm, "ff_on": True, "ff_off": False,
                           "ops": [{"op": "startTestRun"}] + _one_test(kind, None, tk, form) + _one_test("success", i=1)}
            # ... and reported outside any startTest/stopTest bracket, before the first test or between two
            for kind, form in (("error", "err"), ("error", "details"), ("failure", "err")):
                for ffm in ("off", "after"):
                    loose = dict(_outcome(kind, None, form), op="loose_outcome", tk=tk)
                    yield {"base": base, "wraps": [], "failfast": ffm, "ff_on": True, "ff_off": False,
                           "ops": [{"op": "startTestRun"}, loose] + _one_test("success")}
                    yield {"base": base, "wraps": [], "failfast": ffm, "ff_on": True, "ff_off": False,
                           "ops": [{"op": "startTestRun"}] + _one_test("success") + [loose] + _one_test("success", i=1) + [{"op": "stopTestRun"}]}


# ---------------------------------------------------------------- TextTestResult summary
TEXT_HIST = H.s_history(max_tests=5, with_run=False, with_control=False, with_tags=False, with_time=True, max_ops=28)


@st.composite
def s_text(draw):
    runs = [draw(TEXT_HIST)["ops"] for _ in range(draw(st.sampled_from([1, 1, 2])))]
    # problems reported about something that is not a started test (what unittest does when setUpClass /
    # setUpModule raises): (position among the ops, kind)
    holders = [[(draw(st.integers(0, len(ops))), draw(st.sampled_from(["error", "error", "failure"])))
                for _ in range(draw(st.sampled_from([0, 0, 0, 1, 2])))] for ops in runs]
    if draw(st.integers(0, 7)) == 0:
        runs = [[] for _ in runs]          # nothing but such reports: no test is ever started
    return {"runs": runs, "holders": holders, "wraps": draw(st.lists(st.sampled_from(WRAPS), max_size=2)), "failfast": draw(st.booleans()),
            "id_mod": draw(st.sampled_from([99, 99, 2, 1])),
            "keep_time": draw(st.booleans())}         # the last time() supplied is still in effect when the run is stopped


def run_text(spec):
    import testtools
    from testtools.testresult import real
    vs = []
    stream = io.StringIO()
    inner = testtools.TextTestResult(stream, failfast=spec["failfast"])
    r = inner
    for w in reversed(spec["wraps"]):
        r = {"ETOD": testtools.ExtendedToOriginalDecorator, "Decorator": real.TestResultDecorator,
             "Tagger": lambda x: real.Tagger(x, {"x"}, set())}[w](r)
    driver = testtools.ExtendedToOriginalDecorator(r)
    total_problems = 0
    for run_no, ops in enumerate(spec["runs"]):
        stream.seek(0)
        stream.truncate(0)
        driver.startTestRun()
        n = 0
        problems = []       # (label, id)
        cur = None
        pending = sorted((min(pos, len(ops)), j, kind) for j, (pos, kind) in enumerate(spec.get("holders", [[]] * 9)[run_no]))
        in_test = False

        def holders_due(at):
            while pending and pending[0][0] <= at and not in_test:
                pos, j, kind = pending.pop(0)
                holder = H.make_test(900 + j, "placeholder")
                getattr(driver, "addError" if kind == "error" else "addFailure")(holder, details={})
                problems.append(("ERROR" if kind == "error" else "FAIL", holder.id()))
        for at, op in enumerate(ops):
            holders_due(at)
            k = op["op"]
            in_test = k in ("startTest", "outcome") or (in_test and k != "stopTest")
            if k == "startTest":
                cur = H.make_test(op["i"] % spec.get("id_mod", 99), "case")
                driver.startTest(cur)
                n += 1
            elif k == "outcome":
                H.outcome_call(driver, cur, op)
                lab = {"error": "ERROR", "failure": "FAIL", "uxsuccess": "UNEXPECTED SUCCESS"}.get(op["kind"])
                if lab:
                    problems.append((lab, cur.id()))
            elif k == "stopTest":
                driver.stopTest(cur)
            elif k == "time":
                driver.time(H.ts(op["t"]))
        in_test = False
        holders_due(len(ops) + 1)
        if not spec.get("keep_time"):
            driver.time(None)
        driver.stopTestRun()
        out = stream.getvalue()
        lines = out.split("\n")
        # (the duration is the difference of two clock readings and may be negative when the wall clock is stepped
        # back, or when the last time() supplied lies before the moment the run started; nothing is said about it)
        m = re.search(r"^Ran (\d+) tests? in -?[0-9.]+s$", out, re.M)
        if not m:
            vs.append(V("text", "no-ran-line", "no 'Ran N tests' line in %r" % out[-300:]))
            continue
        if int(m.group(1)) != n:
            vs.append(V("text", "test-count", "summary says Ran %s, %d tests were started" % (m.group(1), n)))
        if ("Ran 1 test " in out) != (n == 1):
            vs.append(V("text", "plural", "wrong plural for %d tests" % n))
        tail = out[m.end():].strip().split("\n")[0] if out[m.end():].strip() else ""
        # "OK or FAILED, failure total": further counts in the brackets (unittest prints 'OK (skipped=1)',
        # 'FAILED (failures=1, skipped=1)') are not excluded by the statement
        if problems:
            mm = re.match(r"^FAILED \((?:.*, )?failures=(\d+)(?:, .*)?\)$", tail)
            if not mm:
                vs.append(V("text", "verdict-line", "run with problems %r ends with %r" % (problems, tail)))
            elif int(mm.group(1)) != len(problems):
                vs.append(V("text", "failure-total", "FAILED (failures=%s) for %d problems" % (mm.group(1), len(problems))))
        elif not re.match(r"^OK(?: \(.*\))?$", tail):
            vs.append(V("text", "verdict-line", "clean run ends with %r" % tail))
        sections = []
        for i, ln in enumerate(lines):
            mm = re.match(r"^(ERROR|FAIL|UNEXPECTED SUCCESS): (.*)$", ln)
            if mm and i > 0 and lines[i - 1] == "=" * 70:
                sections.append((mm.group(1), mm.group(2)))
        if sorted(sections) != sorted(problems):
            vs.append(V("text", "sections", "sections %r, problems reported %r" % (sections, problems)))
        if bool(inner.wasSuccessful()) != (not problems):
            vs.append(V("text", "wasSuccessful", "wasSuccessful() %r with problems %r" % (inner.wasSuccessful(), problems)))
        total_problems += len(problems)
    nt = len(spec["runs"]) >= 2 or total_problems >= 2
    return Case(vs, nt, ["runs=%d" % len(spec["runs"]), "problems=%d" % min(total_problems, 5),
                         "unbracketed-problem" if any(spec.get("holders", [])) else "",
                         "no-test-started" if not any(spec["runs"]) else ""], {"tail": out[-120:]})


# ---------------------------------------------------------------- suites of real tests, runner, exit status
KIND = st.sampled_from(["success", "success", "failure", "error", "skip", "xfail", "uxsuccess", "stop", "subtest_fail", "subtest_ok"])


@st.composite
def s_suite(draw):
    spec = {"tests": draw(st.lists(KIND, max_size=6)), "failfast": draw(st.booleans()),
            "runner": draw(st.sampled_from(["suite+TestResult", "suite+Multi", "suite+TSFR", "TestToolsTestRunner", "run.main", "run.main"])),
            "wraps": draw(st.lists(st.sampled_from(WRAPS), max_size=1))}
    if spec["runner"].startswith("suite+") and spec["wraps"]:
        # sub-tests need a result with addSubTest at the outside (unittest probes for it); the pass-through
        # decorators do not have one
        spec["tests"] = [k if not k.startswith("subtest") else "success" for k in spec["tests"]]
    # how "on" / "off" is spelled ("omit": the argument is not given at all, which is None inside TestToolsTestRunner)
    spec["ff_raw"] = draw(S_FF_ON) if spec["failfast"] else draw(st.sampled_from([False, False, None, 0, "omit"]))
    return spec


# std_*: the same three bad outcomes from a plain unittest.TestCase, which reports straight to the result it was given
# (no ExtendedToOriginalDecorator in front that would call stop() itself)
PLAIN_BAD = tuple(H.BAD) + ("std_failure", "std_error", "std_uxsuccess")
SUITE_BAD = PLAIN_BAD + ("subtest_fail",)


def grid_suites():
    """Every spelling of failfast on/off x every runner x each bad outcome (from a testtools and from a stdlib TestCase)
    in second position of three tests."""
    for bad in PLAIN_BAD:
        tests = ["success", bad, "success"]
        std = bad.startswith("std_")
        for raw in FF_OFF + FF_ON:
            for runner in ("suite+TestResult", "suite+Multi", "suite+TSFR"):
                for mode in ("after", "before"):
                    if std and raw and mode == "after" and runner == "suite+TSFR":
                        # ASSUMPTIONS: a flag assigned to a forwarder / pass-through decorator is a plain attribute that
                        # only the ExtendedToOriginalDecorator of testtools.TestCase.run reads; a stdlib TestCase has none
                        continue
                    yield {"tests": tests, "failfast": bool(raw), "ff_raw": raw, "ff_mode": mode, "runner": runner, "wraps": []}
            yield {"tests": tests, "failfast": bool(raw), "ff_raw": raw, "runner": "TestToolsTestRunner", "wraps": []}
        yield {"tests": tests, "failfast": False, "ff_raw": "omit", "runner": "TestToolsTestRunner", "wraps": []}
        for ff in (False, True):
            yield {"tests": tests, "failfast": ff, "runner": "run.main", "wraps": []}
        for wrap in WRAPS:
            for ff in (False, True):
                if std and ff and wrap != "ETOD":
                    continue
                yield {"tests": tests, "failfast": ff, "runner": "suite+TestResult", "wraps": [wrap]}


def make_tests(kinds, ran, result_holder):
    import testtools

    class G(testtools.TestCase):
        pass

    class S(unittest.TestCase):
        """A plain stdlib TestCase (sub-tests are reported through the inherited addSubTest)."""
    tests = []
    for i, k in enumerate(kinds):
        def body(self, i=i, k=k):
            ran.append(i)
            if k == "failure":
                self.fail("MARK-fail-%d" % i)
            if k == "error":
                raise RuntimeError("MARK-error-%d" % i)
            if k == "skip":
                self.skipTest("skipping %d" % i)
            if k == "xfail":
                self.expectFailure("known", self.assertEqual, 1, 2)
            if k == "uxsuccess":
                self.expectFailure("known", self.assertEqual, 1, 1)
            if k == "stop":
                result_holder[0].stop()
        name = "test_%02d_%s" % (i, k)
        if k.startswith("std_"):
            def pbody(self, i=i, k=k):
                ran.append(i)
                if k == "std_failure":
                    self.fail("MARK-fail-%d" % i)
                if k == "std_error":
                    raise RuntimeError("MARK-error-%d" % i)
            setattr(S, name, unittest.expectedFailure(pbody) if k == "std_uxsuccess" else pbody)
            tests.append((S, name))
        elif k.startswith("subtest"):
            def sbody(self, i=i, k=k):
                ran.append(i)
                with self.subTest(part=1):
                    if k == "subtest_fail":
                        self.fail("MARK-subtest-%d" % i)
                with self.subTest(part=2):
                    pass
            setattr(S, name, sbody)
            tests.append((S, name))
        else:
            setattr(G, name, body)
            tests.append((G, name))
    return G, tests


def says_ok(txt):
    """The verdict line of a summary is 'OK', possibly followed by counts in brackets as unittest prints them."""
    return bool(re.search(r"^OK(?: \(.*\))?$", txt, re.M))


def exit_status(code):
    """What the OS reports for SystemExit(code)."""
    if code is None:
        return 0
    if isinstance(code, bool):
        return int(code)
    if isinstance(code, int):
        return code & 0xFF
    return 1


def run_suite(spec):
    import testtools
    from testtools import run as ttrun
    from testtools.testresult import real
    vs = []
    ran = []
    holder = [None]
    G, names = make_tests(spec["tests"], ran, holder)
    kinds = spec["tests"]
    ff = spec["failfast"]
    # model: which tests execute
    want_ran = []
    for i, k in enumerate(kinds):
        want_ran.append(i)
        if k == "stop" or (ff and k in SUITE_BAD):
            break
    good = not any(kinds[i] in SUITE_BAD for i in want_ran)
    # what the run looks like if failing sub-tests are not counted at all (see known_findings.json)
    alt_ran = []
    for i, k in enumerate(kinds):
        alt_ran.append(i)
        if k == "stop" or (ff and k in PLAIN_BAD):
            break
    alt_good = not any(kinds[i] in PLAIN_BAD for i in alt_ran)
    runner = spec["runner"]
    if runner.startswith("suite+"):
        base = {"suite+TestResult": "TestResult", "suite+Multi": "Multi", "suite+TSFR": "TSFR"}[runner]
        raw = spec.get("ff_raw", ff)
        raw = None if raw == "omit" else raw
        outer, under, _ = build({"base": base, "wraps": spec["wraps"], "failfast": spec.get("ff_mode", "after") if ff else "off",
                                 "ff_on": raw if ff else True, "ff_off": False if ff else raw})
        holder[0] = outer
        suite = unittest.TestSuite([c(n) for c, n in names])
        suite.run(outer)
        subtest_only = (not good) and not any(kinds[i] in PLAIN_BAD for i in ran)     # the only failing thing executed is a sub-test
        if base in ("Multi", "TSFR") and subtest_only and bool(outer.wasSuccessful()) and ran in (want_ran, alt_ran):
            vs.append(V("subtest", "not-forwarded-" + base, "a failing sub-test of a stdlib TestCase reported through %s is not counted: "
                        "wasSuccessful() %r, tests executed %r (kinds %r, failfast %r)" % (base, outer.wasSuccessful(), ran, kinds, ff)))
            return Case(vs, True, ["runner=" + runner, "subtest-known-finding"], {"ran": ran})
        if bool(outer.wasSuccessful()) != good:
            vs.append(V("suite", "verdict-" + base, "wasSuccessful() %r after outcomes %r" % (outer.wasSuccessful(), [kinds[i] for i in ran])))
        tag = base
    elif runner == "TestToolsTestRunner":
        out = io.StringIO()
        r = ttrun.TestToolsTestRunner(stdout=out, **({} if spec.get("ff_raw") == "omit" else {"failfast": spec.get("ff_raw", ff)}))
        suite = unittest.TestSuite([c(n) for c, n in names])

        class Spy(unittest.TestSuite):
            def run(self, result, debug=False):
                holder[0] = result
                return super().run(result, debug)
        res = r.run(Spy([suite]))
        if bool(res.wasSuccessful()) != good:
            vs.append(V("suite", "verdict-runner", "runner result wasSuccessful() %r after %r" % (res.wasSuccessful(), [kinds[i] for i in ran])))
        txt = out.getvalue()
        if says_ok(txt) != good:
            vs.append(V("suite", "runner-text", "runner printed %r for outcomes %r" % (txt[-80:], [kinds[i] for i in ran])))
        tag = "runner"
    else:
        mod = types.ModuleType("vp_c04_mod")

        class Spy(unittest.TestSuite):
            def run(self, result, debug=False):
                holder[0] = result
                return super().run(result, debug)
        mod.test_suite = lambda: Spy([c(n) for c, n in names])
        sys.modules["vp_c04_mod"] = mod
        out = io.StringIO()
        try:
            try:
                ttrun.main(["testtools.run"] + (["--failfast"] if ff else []) + ["vp_c04_mod.test_suite"], out)
                code = None
            except SystemExit as e:
                code = e.code
        finally:
            sys.modules.pop("vp_c04_mod", None)
        status = exit_status(code)
        if (status == 0) != good:
            vs.append(V("exit-status", "run.main", "exit status %r (SystemExit(%r)) for outcomes %r" % (status, code, [kinds[i] for i in ran])))
        txt = out.getvalue()
        if says_ok(txt) != good:
            vs.append(V("suite", "main-text", "main printed %r for outcomes %r" % (txt[-80:], [kinds[i] for i in ran])))
        tag = "main"
    if ran != want_ran:
        vs.append(V("dispatch", "%s-failfast=%s" % (tag, ff), "tests executed %r, model expects %r (kinds %r)" % (ran, want_ran, kinds)))
    nt = len(kinds) >= 2 and any(k in SUITE_BAD or k == "stop" for k in kinds[1:])
    return Case(vs, nt, ["runner=" + runner, "failfast=%s" % ff, "good" if good else "bad"], {"ran": ran})


def custom_counts(ctx):
    """Problem totals around the byte boundary of a process exit status (aimed generator)."""
    out = []
    for total in ((255, 256, 257, 512) if ctx["tier"] == "thorough" else (256,)):
        spec = {"tests": ["failure"] * (total - 56) + ["error"] * 50 + ["uxsuccess"] * 6, "failfast": False, "runner": "run.main", "wraps": []}
        out.append((spec, run_suite(spec)))
    return out


def custom_subprocess(ctx):
    """True child interpreters: python -m testtools.run on a generated module."""
    if ctx["tier"] != "thorough":
        return []
    out = []
    work = os.path.join(VERIF, ".work", "c04-sub-%d" % os.getpid())
    os.makedirs(work, exist_ok=True)
    try:
        for i, kinds in enumerate([[], ["success"], ["failure"], ["success", "error"], ["skip", "xfail"], ["uxsuccess"],
                                   ["success"] * 3, ["failure"] * 256, ["error", "success"], ["skip"]]):
            src = "import testtools\nclass G(testtools.TestCase):\n"
            if not kinds:
                src += "    pass\n"
            for j, k in enumerate(kinds):
                body = {"success": "pass", "failure": "self.fail('x')", "error": "raise RuntimeError('x')", "skip": "self.skipTest('s')",
                        "xfail": "self.expectFailure('k', self.assertEqual, 1, 2)", "uxsuccess": "self.expectFailure('k', self.assertEqual, 1, 1)"}[k]
                src += "    def test_%03d(self):\n        %s\n" % (j, body)
            with open(os.path.join(work, "gen_%d.py" % i), "w") as f:
                f.write(src)
            env = dict(os.environ, PYTHONPATH=REPO + os.pathsep + work)
            p = subprocess.run([sys.executable, "-m", "testtools.run", "gen_%d" % i], env=env, capture_output=True, text=True, cwd=work)
            good = not any(k in H.BAD for k in kinds)
            vs = []
            if (p.returncode == 0) != good:
                vs.append(V("exit-status", "subprocess", "python -m testtools.run exited %d for %r" % (p.returncode, kinds[:6])))
            if says_ok(p.stdout) != good:
                vs.append(V("suite", "subprocess-text", "child printed %r" % p.stdout[-80:]))
            out.append(({"subprocess_kinds": kinds[:8], "n": len(kinds)}, Case(vs, len(kinds) >= 2, ["subprocess"])))
    finally:
        import shutil
        shutil.rmtree(work, ignore_errors=True)
    return out


def subchecks(tier):
    q = tier == "quick"
    return [
        Sub("verdict_stop_histories", run_case, s_case(), 2500 if q else 150000),
        Sub("failfast_grid", run_case, enum=grid_failfast, enum_complete=True),
        Sub("text_summary", run_text, s_text(), 600 if q else 40000),
        Sub("suites_and_runner", run_suite, s_suite(), 600 if q else 40000),
        Sub("suites_grid", run_suite, enum=grid_suites, enum_complete=True),
        Sub("exit_status_byte_boundary", run_suite, custom=custom_counts),
        Sub("subprocess_exit_status", run_suite, custom=custom_subprocess),
    ]
