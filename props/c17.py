"""C17 - tags are scoped: test-local changes never leak, run-level changes persist."""
import io
import threading

from hypothesis import strategies as st

from vp.core import Case, Sub, V
from vp import history as H
from vp import streams
from vp.results import Ext, Py27

PROPERTY = "C17"
RULE = ("Model-based histories (Hypothesis composite tracking inside/outside-test state while drawing): "
        "startTestRun, tags(new, gone) with disjoint sets outside / inside a test and between outcome and "
        "stopTest, startTest, outcome, stopTest, the startTest-less addSkip+stopTest pair, PlaceHolder(tags).run; "
        "replayed on every reporter class; after every call current_tags must equal the (global, local) model "
        "and at every outcome the tags seen by wrapped results / the stream consumer must equal the model. "
        "Also: run boundaries anywhere between tests (a first explicit start after activity, a start during a run, reports after a stop), tags() by keyword, the caller adding to the set current_tags returned, tests that drop every current tag, doubles.ExtendedTestResult and ETOD over 2.6 / Twisted-style results as reporters, the tags handed to TestByTestResult's callback. "
        "Non-trivial: a test-local change followed by a later test, or a second startTestRun, or the start-less "
        "pair; distinct = distinct canonical (reporter, history).")
ASSUMPTIONS = [
    "tags() is called with disjoint new/gone sets",
    "for PlaceHolder.run only the tags observed at its outcome are asserted (its own add/remove calls are "
    "ordinary global tags() calls that the model follows)",
]

REPORTERS = ["TestResult", "TextTestResult", "TestByTestResult", "MultiTestResult", "ThreadsafeForwardingResult",
             "Tagger", "TestResultDecorator", "ETOD-ext", "ETOD-py27", "ETSD-S2E", "ETOD-TestResult", "Tagger-TSFR",
             "doubles-Extended", "ETOD-py26", "ETOD-twisted", "ETOD-doubles"]

HIST = H.s_history(max_tests=4, with_time=False, with_startless=True, with_placeholder=True, max_ops=24, loose_runs=True)


@st.composite
def s_case(draw):
    return {"reporter": draw(st.sampled_from(REPORTERS)), "history": draw(HIST), "scratch_tags": draw(st.booleans()),
            "tags_by_keyword": draw(st.booleans()), "mutate_returned": draw(st.booleans()),
            "tagger": [sorted(draw(H.TAGSET)), sorted(draw(H.TAGSET))]}


def build(name, spec):
    """-> (reporter, observers) where observers is a list of (label, fn() -> list of frozenset tags at outcomes)."""
    from testtools.testresult import real
    import testtools
    obs = []

    def ext_obs(label, ext):
        obs.append((label, lambda: [e[2]["tags"] for e in ext.events if e[0].startswith("add")]))

    class Probe(testtools.TestResult):
        """A real testtools.TestResult that notes its own current_tags at each outcome."""

        def __init__(self):
            super().__init__()
            self.seen = []

        def _note(self):
            try:
                self.seen.append(frozenset(self.current_tags))
            except Exception as e:
                self.seen.append("raised %r" % e)
    for m in H.METHOD.values():
        def mk(m):
            def f(self, test, *a, **kw):
                self._note()
                return getattr(testtools.TestResult, m)(self, test, *a, **kw)
            return f
        setattr(Probe, m, mk(m))

    tagger_new, tagger_gone = set(spec["tagger"][0]), set(spec["tagger"][1]) - set(spec["tagger"][0])
    extra = (set(), set())
    if name == "TestResult":
        r = testtools.TestResult()
    elif name == "TextTestResult":
        r = testtools.TextTestResult(io.StringIO())
    elif name == "TestByTestResult":
        handed = []
        r = real.TestByTestResult(lambda **kw: handed.append(frozenset(kw["tags"])))
        obs.append(("@stop:TestByTestResult-callback", lambda: handed))       # the tags current when the test stopped
    elif name == "MultiTestResult":
        e, p = Ext(), Probe()
        r = testtools.MultiTestResult(e, p)
        ext_obs("multi->ext", e)
        obs.append(("multi->TestResult", lambda: p.seen))
    elif name == "ThreadsafeForwardingResult":
        e = Ext()
        r = testtools.ThreadsafeForwardingResult(e, threading.Semaphore(1))
        ext_obs("tsfr->ext", e)
    elif name == "Tagger":
        e = Ext()
        r = real.Tagger(e, tagger_new, tagger_gone)
        extra = (tagger_new, tagger_gone)
        ext_obs("tagger->ext", e)
    elif name == "Tagger-TSFR":
        e = Ext()
        r = real.Tagger(testtools.ThreadsafeForwardingResult(e, threading.Semaphore(1)), tagger_new, tagger_gone)
        extra = (tagger_new, tagger_gone)
        ext_obs("tagger->tsfr->ext", e)
    elif name == "TestResultDecorator":
        e = Ext()
        r = real.TestResultDecorator(e)
        ext_obs("decorator->ext", e)
    elif name == "ETOD-ext":
        e = Ext()
        r = testtools.ExtendedToOriginalDecorator(e)
        ext_obs("etod->ext", e)
    elif name == "ETOD-TestResult":
        p = Probe()
        r = testtools.ExtendedToOriginalDecorator(p)
        obs.append(("etod->TestResult", lambda: p.seen))
    elif name == "ETOD-py27":
        r = testtools.ExtendedToOriginalDecorator(Py27())
    elif name in ("ETOD-py26", "ETOD-twisted"):
        # targets without startTestRun / tags: the decorator keeps the tags itself
        from vp.results import Py26, Twisted
        r = testtools.ExtendedToOriginalDecorator((Py26 if name == "ETOD-py26" else Twisted)())
    elif name in ("doubles-Extended", "ETOD-doubles"):
        from testtools.testresult import doubles
        r = doubles.ExtendedTestResult()
        if name == "ETOD-doubles":
            r = testtools.ExtendedToOriginalDecorator(r)
    elif name == "ETSD-S2E":
        e = Ext()
        rec = streams.Recorder()
        dicts = []
        s2d = testtools.StreamToDict(dicts.append)
        r = testtools.ExtendedToStreamDecorator(
            testtools.CopyStreamResult([rec, testtools.StreamToExtendedDecorator(e), s2d]))
        ext_obs("stream->ext", e)
        # a consumer that keeps the test dicts it was given and looks at them after the run
        obs.append(("StreamToDict-kept-dicts", lambda: [frozenset(d["tags"]) for d in dicts if d["status"] != "inprogress"]))
        obs.append(("final-status-events", lambda: [
            (s["test_tags"] or frozenset()) for s in rec.statuses()
            if s["test_status"] in streams.FINAL]))
    else:
        raise AssertionError(name)
    return r, obs, extra


def run_case(spec):
    vs = []
    name = spec["reporter"]
    r, obs, extra = build(name, spec)
    model = H.TagModel()
    scratch = (set(), set())
    expected_at_outcome = []
    expected_at_stop = []
    tests = {}
    cur = None
    local_then_later = second_run = startless = False
    local_change_seen = False
    nruns = 0

    def check(step):
        try:
            got = set(r.current_tags)
        except Exception as e:
            vs.append(V("current_tags", "%s-raises-%s" % (name, type(e).__name__),
                        "current_tags raised %r after %s" % (e, step)))
            return False
        if spec.get("mutate_returned"):
            # what current_tags hands out is the caller's to scribble on
            try:
                handed = r.current_tags
                handed.add("scribbled-by-the-caller")
            except Exception:
                pass
        if got != model.current:
            vs.append(V("current_tags", "%s-after-%s" % (name, step.split("(")[0]),
                        "current_tags is %r, model says %r after %s" % (sorted(got), sorted(model.current), step)))
            return False
        return True

    ok = True
    for n, op in enumerate(spec["history"]["ops"]):
        k = op["op"]
        try:
            if k == "startTestRun":
                r.startTestRun()
                model.start_run()
                nruns += 1
                if nruns >= 2 or n > 0:
                    second_run = True
            elif k == "stopTestRun":
                r.stopTestRun()
            elif k == "tags":
                if spec.get("scratch_tags"):
                    # a reporter that refills two scratch sets instead of building new ones for every call
                    scratch[0].clear(); scratch[0].update(op["new"])
                    scratch[1].clear(); scratch[1].update(op["gone"])
                    r.tags(scratch[0], scratch[1])
                elif spec.get("tags_by_keyword"):
                    r.tags(new_tags=set(op["new"]), gone_tags=set(op["gone"]))
                else:
                    r.tags(set(op["new"]), set(op["gone"]))
                model.change(op["new"], op["gone"])
                if model.l is not None and (op["new"] or op["gone"]):
                    local_change_seen = True
            elif k == "startTest":
                cur = H.make_test(op["i"], op["tk"])
                r.startTest(cur)
                model.start_test()
                model.change(*extra)
                if local_change_seen:
                    local_then_later = True
            elif k == "outcome":
                expected_at_outcome.append(frozenset(model.current))
                H.outcome_call(r, cur, op)
            elif k == "stopTest":
                expected_at_stop.append(frozenset(model.current))
                r.stopTest(cur)
                model.stop_test()
            elif k == "startless_skip":
                t = H.make_test(op["i"], "case")
                # a Tagger tags at startTest, which never happens here
                expected_at_outcome.append(frozenset(model.current))
                r.addSkip(t, op["reason"])
                tb = op.get("tags_between")
                if tb:
                    # there is no test-local scope (startTest never happened): this is a run-level change
                    r.tags(set(tb["new"]), set(tb["gone"]))
                    model.change(tb["new"], tb["gone"])
                expected_at_stop.append(frozenset(model.current))
                r.stopTest(t)
                startless = True
            elif k == "placeholder":
                import testtools
                ph = testtools.PlaceHolder("ph.%d" % op["i"], outcome=H.METHOD[op["kind"]], tags=set(op["tags"]))
                model.change(op["tags"], ())
                model.start_test()
                model.change(*extra)
                expected_at_outcome.append(frozenset(model.current))
                expected_at_stop.append(frozenset(model.current))
                model.stop_test()
                model.change((), op["tags"])
                ph.run(r)
            else:
                continue
        except Exception as e:
            if type(e).__module__.startswith("vp."):
                raise
            vs.append(V("call", "%s-%s-raises-%s" % (name, k, type(e).__name__), "%s raised %r at op %d" % (k, e, n)))
            ok = False
            break
        if not check("%s(#%d)" % (k, n)):
            ok = False
            break
    if ok:
        for label, fn in obs:
            got = list(fn())
            if label.startswith("@stop:"):
                # one callback per finished test, with the tags that were current when it stopped
                want_stop = expected_at_stop[:len(got)] if len(got) <= len(expected_at_stop) else expected_at_stop
                if got != want_stop or len(got) > len(expected_at_stop):
                    vs.append(V("observed", label[6:], "per-test callbacks saw tags %r, the reporter had %r when those tests stopped" % (
                        [sorted(g) for g in got], [sorted(w) for w in expected_at_stop])))
                continue
            if len(got) != len(expected_at_outcome):
                vs.append(V("observed", label + "-count", "%d outcomes observed, %d reported" % (len(got), len(expected_at_outcome))))
                continue
            for i, (g, w) in enumerate(zip(got, expected_at_outcome)):
                if g != w:
                    vs.append(V("observed", label, "outcome %d: observer saw tags %r, reporter had %r" % (
                        i, sorted(g) if isinstance(g, (set, frozenset)) else g, sorted(w))))
                    break
    nt = local_then_later or second_run or startless
    return Case(vs, nt, ["reporter=" + name, "local-then-later" if local_then_later else "",
                         "second-run" if second_run else "", "startless" if startless else ""],
                {"expected_at_outcome": [sorted(x) for x in expected_at_outcome][:6]})


def subchecks(tier):
    q = tier == "quick"
    return [Sub("tag_histories", run_case, s_case(), 3000 if q else 200000)]
