"""C17 - tags are scoped: test-local changes never leak, run-level changes persist."""
import io
import threading

from hypothesis import strategies as st

from vp.core import Case, Sub, V
from vp import history as H
from vp import streams
from vp.results import Ext, Py27

PROPERTY = "C17"
RULE = ("Model-based histories (Hypothesis composite tracking inside/outside-test state while drawing): "
        "startTestRun, tags(new, gone) with disjoint sets outside / inside a test and between outcome and "
        "stopTest, startTest, outcome, stopTest, the startTest-less addSkip+stopTest pair, PlaceHolder(tags).run; "
        "replayed on every reporter class; after every call current_tags must equal the (global, local) model "
        "and at every outcome the tags seen by wrapped results / the stream consumer must equal the model. "
        "Also: run boundaries anywhere between tests (a first explicit start after activity, a start during a run, reports after a stop), tags() by keyword, the caller adding to the set current_tags returned, tests that drop every current tag, doubles.ExtendedTestResult and ETOD over 2.6 / Twisted-style results as reporters, the tags handed to TestByTestResult's callback. "
        "Also: in half of the cases current_tags is read only after a drawn subset of the calls (and after the last one) - a read is "
        "not an event of the history, so a reporter nobody looks at in between must end up in the same state - backed by an "
        "exhaustive grid (every reporter x 6 fixed histories x 4 probe masks); a second ThreadsafeForwardingResult on the same "
        "target reporting its own tagged tests in between (each forwarder's tests are observed with that forwarder's tags only); "
        "an empty and a non-ASCII multi-character tag (a ValueError from the very call that hands such a tag over ends the history "
        "without a report); the sets given to Tagger / PlaceHolder changed by the caller after "
        "construction (the Tagger / PlaceHolder may have copied them or go on looking at them: both readings are admitted), a Tagger "
        "may apply its change at startTest or right before it forwards the outcome; the two scratch sets a reporter refills for "
        "every tags() call; after a stopTestRun ExtendedToStreamDecorator, which starts runs on demand, may go on with the run's tags "
        "or begin a new run; current_tags compared as handed out (a list is not a set of tags) and the sets handed to "
        "TestByTestResult's callback / kept in StreamToDict's dicts looked at after the run, one callback per stopTest (tags as at the stop or as at the outcome). "
        "PlaceHolder.run may scope its tags either way (run level around the test as today, with or without the final "
        "removal of tags that were current before, or inside the test): every reading the reporter stays consistent with is admitted. "
        "Non-trivial: a test-local change followed by a later test, or a second startTestRun, or the start-less "
        "pair; distinct = distinct canonical (reporter, history).")
ASSUMPTIONS = [
    "tags() is called with disjoint new/gone sets",
    "PlaceHolder.run is part of the reporter side, not a result under test: how it brackets its tags (run level before "
    "startTest and removed after stopTest - today's code, DESIGN 11.2 - or restored exactly, or inside the test after "
    "startTest) is not asserted; what is asserted is that the result's current_tags and what observers saw fit one of "
    "these readings throughout the history, and that the placeholder's tags are current at its outcome",
    "a tags() call between a start-less addSkip and its stopTest is a run-level change (there is no startTest, hence no "
    "test scope): the letter of 'changes made outside a test persist'",
    "TestByTestResult's callback may get the tags current when the test stopped (its docstring: 'called on stopTest with "
    "the accumulated values' - today's code) or those at the outcome (the only moment the statement knows), as any iterable, "
    "but the same reading for every test of a history",
    "copy semantics (DESIGN 11.10): what current_tags returns is the caller's, and the tag set of a final event / a "
    "callback does not change after it was handed over",
    "the sets passed to tags() stay the caller's: it may clear and refill them for the next call, and a result that buffers "
    "tag changes (ThreadsafeForwardingResult) replays what it was told at the time of the call, not what the caller's set "
    "holds later (copy semantics, DESIGN 11.10; this is what the stored change C17-r3-3 breaks).  The sets given to Tagger() "
    "and PlaceHolder(tags=) are NOT covered by this: whether they are copied or kept by reference is not asserted",
    "a Tagger's change is test-local and applied once per test, at startTest (before the test's own changes - today's code) "
    "or right before the outcome is forwarded (after them); either way it is current at the outcome in the reporter and for "
    "every observer",
    "a stopTestRun changes no tags ('persist until the next startTestRun', and stopTestRun is not in the statement's alphabet), "
    "except on ExtendedToStreamDecorator, which starts a run by itself whenever it is used outside one: there a stopTestRun "
    "may also be read as the end of the run, the next call or read starting a fresh one (an implicit start by the adapter "
    "is then the 'next startTestRun')",
    "any str is a tag for the purposes of scoping, also '' and one with a blank; an implementation that refuses such a tag "
    "with ValueError at the call that hands it over (tags(), PlaceHolder) is not reported - the history just ends there",
    "with two ThreadsafeForwardingResults on one target only the first one starts / stops runs on it; the second one "
    "reports whole tests (startTest, tags, addSuccess, stopTest) and run-level tags() calls between the first one's calls",
]

REPORTERS = ["TestResult", "TextTestResult", "TestByTestResult", "MultiTestResult", "ThreadsafeForwardingResult",
             "Tagger", "TestResultDecorator", "ETOD-ext", "ETOD-py27", "ETSD-S2E", "ETOD-TestResult", "Tagger-TSFR",
             "doubles-Extended", "ETOD-py26", "ETOD-twisted", "ETOD-doubles", "TSFR-pair"]

# the usual four letters (twice: two changes must keep meeting on the same tag), an empty tag, a non-ASCII tag with a blank
TAGS17 = H.TAGS + H.TAGS + ["", "été long"]
TAGSET17 = st.sets(st.sampled_from(TAGS17), max_size=2)
# reporters that start a run on demand when they are used outside one (ExtendedToStreamDecorator)
ON_DEMAND_RUNS = ("ETSD-S2E",)
HIST = H.s_history(max_tests=4, with_time=False, with_startless=True, with_placeholder=True, max_ops=24, loose_runs=True,
                   tagset=TAGSET17, all_tags=TAGS17)
PROBE_AT = st.sets(st.integers(0, 29))                        # after which calls current_tags is read (always after the last)
OTHER_AT = st.sets(st.integers(0, 20), min_size=1, max_size=4)    # before which calls the second forwarder reports a test


@st.composite
def s_case(draw):
    spec = {"reporter": draw(st.sampled_from(REPORTERS)), "history": draw(HIST), "scratch_tags": draw(st.booleans()),
            "tags_by_keyword": draw(st.booleans()), "mutate_returned": draw(st.booleans()),
            "tagger": [sorted(draw(H.TAGSET)), sorted(draw(H.TAGSET))],
            "probe": sorted(draw(PROBE_AT)) if draw(st.booleans()) else None,
            "touch_args": draw(st.booleans())}
    if spec["reporter"] == "TSFR-pair":
        spec["other_at"] = sorted(draw(OTHER_AT))
    return spec


def build(name, spec):
    """-> (reporter, observers, extras, other) where observers is a list of (label, fn() -> list of tag sets at outcomes),
    extras the (new, gone) pairs a Tagger may be applying to every test (one pair unless the caller went on using the sets it
    gave to the constructor) and other a second forwarder on the same target (or None)."""
    from testtools.testresult import real
    import testtools
    obs = []
    other = None

    def ext_obs(label, ext):
        obs.append((label, lambda: [e[2]["tags"] for e in ext.events if e[0].startswith("add")]))

    class Probe(testtools.TestResult):
        """A real testtools.TestResult that notes its own current_tags at each outcome."""

        def __init__(self):
            super().__init__()
            self.seen = []

        def _note(self):
            try:
                self.seen.append(frozenset(self.current_tags))
            except Exception as e:
                self.seen.append("raised %r" % e)
    for m in H.METHOD.values():
        def mk(m):
            def f(self, test, *a, **kw):
                self._note()
                return getattr(testtools.TestResult, m)(self, test, *a, **kw)
            return f
        setattr(Probe, m, mk(m))

    tagger_new, tagger_gone = set(spec["tagger"][0]), set(spec["tagger"][1]) - set(spec["tagger"][0])
    given_new, given_gone = set(tagger_new), set(tagger_gone)         # the objects the constructor gets

    def touch():
        if spec.get("touch_args"):
            # the caller goes on using its two sets; the Tagger was told what to do when it was made
            given_new.add("later")
            given_gone.update(set(H.TAGS) - given_new)

    def tagger_extras():
        # the Tagger may have copied what it was given (today's code) or have kept the caller's objects, each set on its own
        out = []
        for new in (tagger_new, given_new):
            for gone in (tagger_gone, given_gone):
                pair = (frozenset(new), frozenset(gone))
                if pair not in out:
                    out.append(pair)
        return out
    extras = [(frozenset(), frozenset())]
    if name == "TestResult":
        r = testtools.TestResult()
    elif name == "TextTestResult":
        r = testtools.TextTestResult(io.StringIO())
    elif name == "TestByTestResult":
        handed = []
        r = real.TestByTestResult(lambda **kw: handed.append(kw["tags"]))
        obs.append(("@stop:TestByTestResult-callback", lambda: handed))       # the tags current when the test stopped
    elif name == "MultiTestResult":
        e, p = Ext(), Probe()
        r = testtools.MultiTestResult(e, p)
        ext_obs("multi->ext", e)
        obs.append(("multi->TestResult", lambda: p.seen))
    elif name == "ThreadsafeForwardingResult":
        e = Ext()
        r = testtools.ThreadsafeForwardingResult(e, threading.Semaphore(1))
        ext_obs("tsfr->ext", e)
    elif name == "TSFR-pair":
        e = Ext()
        sem = threading.Semaphore(1)
        r = testtools.ThreadsafeForwardingResult(e, sem)
        other = testtools.ThreadsafeForwardingResult(e, sem)
        ext_obs("tsfr-pair->ext", e)
    elif name == "Tagger":
        e = Ext()
        r = real.Tagger(e, given_new, given_gone)
        touch()
        extras = tagger_extras()
        ext_obs("tagger->ext", e)
    elif name == "Tagger-TSFR":
        e = Ext()
        r = real.Tagger(testtools.ThreadsafeForwardingResult(e, threading.Semaphore(1)), given_new, given_gone)
        touch()
        extras = tagger_extras()
        ext_obs("tagger->tsfr->ext", e)
    elif name == "TestResultDecorator":
        e = Ext()
        r = real.TestResultDecorator(e)
        ext_obs("decorator->ext", e)
    elif name == "ETOD-ext":
        e = Ext()
        r = testtools.ExtendedToOriginalDecorator(e)
        ext_obs("etod->ext", e)
    elif name == "ETOD-TestResult":
        p = Probe()
        r = testtools.ExtendedToOriginalDecorator(p)
        obs.append(("etod->TestResult", lambda: p.seen))
    elif name == "ETOD-py27":
        r = testtools.ExtendedToOriginalDecorator(Py27())
    elif name in ("ETOD-py26", "ETOD-twisted"):
        # targets without startTestRun / tags: the decorator keeps the tags itself
        from vp.results import Py26, Twisted
        r = testtools.ExtendedToOriginalDecorator((Py26 if name == "ETOD-py26" else Twisted)())
    elif name in ("doubles-Extended", "ETOD-doubles"):
        from testtools.testresult import doubles
        r = doubles.ExtendedTestResult()
        if name == "ETOD-doubles":
            r = testtools.ExtendedToOriginalDecorator(r)
    elif name == "ETSD-S2E":
        e = Ext()
        rec = streams.Recorder()
        dicts = []
        s2d = testtools.StreamToDict(dicts.append)
        r = testtools.ExtendedToStreamDecorator(
            testtools.CopyStreamResult([rec, testtools.StreamToExtendedDecorator(e), s2d]))
        ext_obs("stream->ext", e)
        # a consumer that keeps the test dicts it was given and looks at them after the run
        obs.append(("StreamToDict-kept-dicts", lambda: [d["tags"] for d in dicts if d["status"] != "inprogress"]))
        obs.append(("final-status-events", lambda: [
            (s["test_tags"] or frozenset()) for s in rec.statuses()
            if s["test_status"] in streams.FINAL]))
    else:
        raise AssertionError(name)
    return r, obs, extras, other


class _Reading:
    """One admissible reading of the history so far: the (global, local) model and what it says observers saw."""

    def __init__(self, m=None, at_outcome=(), at_stop=(), extra=(frozenset(), frozenset()), late=False, due=False):
        self.m = m or H.TagModel()
        self.at_outcome = list(at_outcome)
        self.at_stop = list(at_stop)
        self.extra = extra          # what a Tagger adds to / removes from every test
        self.late = late            # ... right before it forwards the test's outcome instead of at startTest
        self.due = due

    def fork(self):
        m = H.TagModel()
        m.g = set(self.m.g)
        m.l = None if self.m.l is None else set(self.m.l)
        return _Reading(m, self.at_outcome, self.at_stop, self.extra, self.late, self.due)

    def key(self):
        return (frozenset(self.m.g), None if self.m.l is None else frozenset(self.m.l),
                tuple(self.at_outcome), tuple(self.at_stop), self.extra, self.late, self.due)

    def start_test(self):
        self.m.start_test()
        if self.late:
            self.due = True
        else:
            self.m.change(*self.extra)

    def outcome(self):
        if self.due:
            self.m.change(*self.extra)
            self.due = False
        self.at_outcome.append(frozenset(self.m.current))

    def stop(self):
        self.at_stop.append(frozenset(self.m.current))

    def stop_test(self):
        self.due = False
        self.m.stop_test()


def _placeholder_readings(b, tags):
    """What PlaceHolder(tags).run may do to a result whose state is ``b`` (outside a test).  The first one is today's code."""
    out = []
    for how in ("run-level, removed", "run-level, restored", "inside the test"):
        f = b.fork()
        before = set(f.m.g)
        if how != "inside the test":
            f.m.change(tags, ())
        f.start_test()
        if how == "inside the test":
            f.m.change(tags, ())
        f.outcome()
        f.stop()
        f.stop_test()
        if how == "run-level, removed":
            f.m.change((), tags)
        elif how == "run-level, restored":
            f.m.g = before
        out.append(f)
    return out


def _odd_tag_handed_over(op):
    tags = list(op.get("new") or ()) + list(op.get("gone") or ()) + list(op.get("tags") or ())
    tb = op.get("tags_between")
    if tb:
        tags += list(tb["new"]) + list(tb["gone"])
    return any(t == "" or t != t.strip() or any(c.isspace() for c in t) for t in tags)


def _same_tags(got, want):
    """``got`` (whatever the code handed out) equals the set ``want`` - by the object's own equality, not after a conversion:
    a list of tags is not the set of tags."""
    try:
        return bool(got == want)
    except Exception:
        return False


def run_case(spec):
    vs = []
    name = spec["reporter"]
    r, obs, extras, other = build(name, spec)
    # every reading of the history the reporter has been consistent with so far; a Tagger may apply its change at startTest
    # (today's code) or right before it forwards the outcome - the statement only knows the tags at the outcome
    readings = [_Reading(extra=x, late=late) for x in extras for late in ((False, True) if any(x) else (False,))]
    scratch = (set(), set())
    cur = None
    local_then_later = second_run = startless = False
    local_change_seen = False
    nruns = 0
    ops = spec["history"]["ops"]
    probe = spec.get("probe")
    probe = None if probe is None else set(probe)
    other_at = set(spec.get("other_at") or ()) if other is not None else set()
    other_model = H.TagModel()
    other_n = 0

    def every(f):
        for b in readings:
            f(b)

    def check(step):
        try:
            handed = r.current_tags
            got = set(handed)
        except Exception as e:
            vs.append(V("current_tags", "%s-raises-%s" % (name, type(e).__name__),
                        "current_tags raised %r after %s" % (e, step)))
            return False
        fit = [b for b in readings if got == b.m.current]
        if fit and not _same_tags(handed, fit[0].m.current):
            vs.append(V("current_tags", "%s-not-a-set" % name,
                        "current_tags is %r after %s: the right tags, but not a set of them" % (handed, step)))
            return False
        if spec.get("mutate_returned"):
            # what current_tags hands out is the caller's to scribble on
            try:
                handed.add("scribbled-by-the-caller")
            except Exception:
                pass
        if not fit:
            want = sorted(readings[0].m.current)
            alt = [sorted(b.m.current) for b in readings[1:] if b.m.current != readings[0].m.current]
            vs.append(V("current_tags", "%s-after-%s" % (name, step.split("(")[0]),
                        "current_tags is %r, model says %r after %s%s" % (
                            sorted(got), want, step, " (or %r under the other admitted readings)" % alt if alt else "")))
            return False
        uniq = {}
        for b in fit:
            uniq.setdefault(b.key(), b)
        readings[:] = uniq.values()
        return True

    def other_reports(n):
        """The second forwarder on the same target: a run-level change, then one whole test with a tag of its own."""
        nonlocal other_n
        new, gone = (({"o"}, set()), (set(), {"o"}), ({"o", "t"}, set()))[other_n % 3]
        other.tags(set(new), set(gone))
        other_model.change(new, gone)
        t = H.make_test(100 + other_n, "case")
        other.startTest(t)
        other_model.start_test()
        other.tags({"p%d" % other_n}, {"t"})
        other_model.change({"p%d" % other_n}, {"t"})
        seen = frozenset(other_model.current)
        every(lambda b: b.at_outcome.append(seen))
        other.addSuccess(t)
        other.stopTest(t)
        other_model.stop_test()
        other_n += 1
        got = other.current_tags
        if set(got) != other_model.current:
            vs.append(V("current_tags", "TSFR-pair-second-forwarder",
                        "the second forwarder's current_tags is %r, it was told %r (before op %d)" % (
                            sorted(got), sorted(other_model.current), n)))
            return False
        return True

    ok = True
    for n, op in enumerate(ops):
        k = op["op"]
        try:
            if n in other_at and not other_reports(n):
                ok = False
                break
            if k == "startTestRun":
                r.startTestRun()
                every(lambda b: b.m.start_run())
                nruns += 1
                if nruns >= 2 or n > 0:
                    second_run = True
            elif k == "stopTestRun":
                r.stopTestRun()
                if name in ON_DEMAND_RUNS:
                    # an adapter that starts a run by itself when it is used outside one may take the stop for the end of
                    # the run: whatever comes next (a read of current_tags too) then begins a new run with no tags
                    forks = [b.fork() for b in readings]
                    for f in forks:
                        f.m.start_run()
                    seen = {b.key() for b in readings}
                    readings.extend(f for f in forks if f.key() not in seen)
            elif k == "tags":
                if spec.get("scratch_tags"):
                    # a reporter that refills two scratch sets instead of building new ones for every call
                    scratch[0].clear(); scratch[0].update(op["new"])
                    scratch[1].clear(); scratch[1].update(op["gone"])
                    r.tags(scratch[0], scratch[1])
                elif spec.get("tags_by_keyword"):
                    r.tags(new_tags=set(op["new"]), gone_tags=set(op["gone"]))
                else:
                    r.tags(set(op["new"]), set(op["gone"]))
                every(lambda b: b.m.change(op["new"], op["gone"]))
                if readings[0].m.l is not None and (op["new"] or op["gone"]):
                    local_change_seen = True
            elif k == "startTest":
                cur = H.make_test(op["i"], op["tk"])
                r.startTest(cur)
                every(_Reading.start_test)
                if local_change_seen:
                    local_then_later = True
            elif k == "outcome":
                every(_Reading.outcome)
                H.outcome_call(r, cur, op)
            elif k == "stopTest":
                every(_Reading.stop)
                r.stopTest(cur)
                every(_Reading.stop_test)
            elif k == "startless_skip":
                t = H.make_test(op["i"], "case")
                # a Tagger tags at startTest, which never happens here
                every(_Reading.outcome)
                r.addSkip(t, op["reason"])
                tb = op.get("tags_between")
                if tb:
                    # there is no test-local scope (startTest never happened): this is a run-level change
                    r.tags(set(tb["new"]), set(tb["gone"]))
                    every(lambda b: b.m.change(tb["new"], tb["gone"]))
                every(_Reading.stop)
                r.stopTest(t)
                startless = True
            elif k == "placeholder":
                import testtools
                given = set(op["tags"])
                ph = testtools.PlaceHolder("ph.%d" % op["i"], outcome=H.METHOD[op["kind"]], tags=given)
                if spec.get("touch_args"):
                    given.add("later")          # the caller's set, changed after the placeholder was made
                forks, seen = [], set()
                for b in readings:
                    # the placeholder has its own copy of the tags (today's code) or goes on looking at the caller's set
                    for tags in ([op["tags"]] + ([sorted(given)] if given != set(op["tags"]) else [])):
                        for f in _placeholder_readings(b, tags):
                            if f.key() not in seen:
                                seen.add(f.key())
                                forks.append(f)
                readings[:] = forks
                ph.run(r)
            else:
                continue
        except Exception as e:
            if type(e).__module__.startswith("vp."):
                raise
            if isinstance(e, ValueError) and _odd_tag_handed_over(op):
                # the statement does not say which strings are tags: an implementation that refuses an empty tag or one
                # with a blank at the call that hands it over is outside this history, not wrong about scoping
                ok = False
                break
            vs.append(V("call", "%s-%s-raises-%s" % (name, k, type(e).__name__), "%s raised %r at op %d" % (k, e, n)))
            ok = False
            break
        if (probe is None or n in probe or n == len(ops) - 1) and not check("%s(#%d)" % (k, n)):
            ok = False
            break
    if ok:
        first = readings[0]
        for label, fn in obs:
            got = list(fn())
            if label.startswith("@stop:"):
                # one callback per finished test ("an iterable of tags", says the docstring): with the tags that were current
                # when the test stopped ("called on stopTest with the accumulated values") or - the statement only knows that
                # moment - at its outcome; the same reading for every test of the history
                try:
                    got = [frozenset(g) for g in got]
                except Exception:
                    pass
                fit = [b for b in readings if len(got) == len(b.at_stop) and (got == b.at_stop or got == b.at_outcome)]
                if not fit:
                    vs.append(V("observed", label[6:], "per-test callbacks saw tags %r, the reporter had %r when those tests stopped%s" % (
                        [sorted(g) if isinstance(g, (set, frozenset)) else g for g in got], [sorted(w) for w in first.at_stop],
                        "" if first.at_outcome == first.at_stop else " (%r at their outcomes)" % [sorted(w) for w in first.at_outcome])))
                    break
                readings[:] = fit
                continue
            if len(got) != len(first.at_outcome):
                vs.append(V("observed", label + "-count", "%d outcomes observed, %d reported" % (len(got), len(first.at_outcome))))
                continue
            fit = [b for b in readings if all(_same_tags(g, w) for g, w in zip(got, b.at_outcome))]
            if not fit:
                for i, (g, w) in enumerate(zip(got, first.at_outcome)):
                    if not _same_tags(g, w):
                        vs.append(V("observed", label, "outcome %d: observer saw tags %r, reporter had %r" % (
                            i, sorted(g) if isinstance(g, (set, frozenset)) else g, sorted(w))))
                        break
                break
            readings[:] = fit
    nt = local_then_later or second_run or startless
    return Case(vs, nt, ["reporter=" + name, "local-then-later" if local_then_later else "",
                         "second-run" if second_run else "", "startless" if startless else "",
                         "sparse-probes" if probe is not None else ""],
                {"expected_at_outcome": [sorted(x) for x in readings[0].at_outcome][:6]})


# ------------------------------------------------------------------ the grid behind the probe mask
def _ok(marker):
    return {"op": "outcome", "kind": "success", "payload": {"form": "none", "details": {}}, "marker": marker}


def _tags(*new, gone=()):
    return {"op": "tags", "new": sorted(new), "gone": sorted(gone)}


_START, _STOP, _RUN = {"op": "startTest", "i": 0, "tk": "case"}, {"op": "stopTest"}, {"op": "startTestRun"}
GRID_HISTORIES = [
    # a tag set right after startTest, nobody looking: it must be gone for the next test
    [_RUN, _START, _tags("t"), _ok(1), _STOP, dict(_START, i=1), _ok(2), _STOP],
    # the same without an explicit startTestRun
    [_START, _tags("t"), _ok(1), _STOP, dict(_START, i=1), _ok(2), _STOP],
    # a run-level tag dropped inside the test, another one set after the outcome
    [_RUN, _tags("u"), _START, _tags("t", gone=["u"]), _ok(1), _tags("v"), _STOP, dict(_START, i=1), _ok(2), _STOP, {"op": "stopTestRun"}],
    # the start-less pair and a placeholder in between, then a second run
    [_RUN, _tags("u"), _START, _tags("t"), _ok(1), _STOP,
     {"op": "startless_skip", "i": 1, "reason": "because", "tk": "case", "tags_between": {"new": ["w"], "gone": []}},
     {"op": "placeholder", "i": 2, "tags": ["u", "v"], "kind": "success"}, dict(_START, i=3), _tags("", gone=["w"]), _ok(2), _STOP,
     _RUN, dict(_START, i=4), _tags("t"), _ok(3), _STOP],
    # a test that drops every tag that was current (the consumer must not fall back on what it saw earlier)
    [_RUN, _tags("u", "w"), _START, _tags(gone=["u", "w"]), _ok(1), _STOP, dict(_START, i=1), _ok(2), _STOP],
    # nothing but run-level changes around tests that change nothing
    [_tags("t"), _RUN, _tags("u"), _START, _ok(1), _STOP, _tags("v", gone=["u"]), dict(_START, i=1), _ok(2), _STOP, _tags(gone=["v"])],
]


def grid():
    for name in REPORTERS:
        for h, ops in enumerate(GRID_HISTORIES):
            after = {"last": [], "outcomes": [i for i, o in enumerate(ops) if o["op"] == "outcome"],
                     "stops": [i for i, o in enumerate(ops) if o["op"] in ("stopTest", "startless_skip", "placeholder")],
                     "all": None}
            for label in ("last", "outcomes", "stops", "all"):
                spec = {"reporter": name, "history": {"ops": ops}, "scratch_tags": False, "tags_by_keyword": False,
                        "mutate_returned": False, "tagger": [["v"], ["u"]], "probe": after[label], "touch_args": h % 2 == 1}
                if name == "TSFR-pair":
                    spec["other_at"] = [1, 3, 5, 8]
                yield spec


def subchecks(tier):
    q = tier == "quick"
    return [Sub("tag_histories", run_case, s_case(), 3000 if q else 200000),
            Sub("probe_grid", run_case, enum=grid, enum_complete=True,
                note="every reporter x 6 fixed histories x current_tags read after: the last call only / outcomes / stops / every call")]
