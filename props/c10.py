"""C10 - stream consumers account for every test exactly once."""
import codecs
import collections
import itertools

from hypothesis import strategies as st

from vp.core import Case, Sub, V
from vp import streams
from vp.results import Ext

PROPERTY = "C10"
RULE = ("Hypothesis-generated (and, for short lengths, exhaustively enumerated) sequences of status() "
        "events over small alphabets of ids/route codes/statuses/tags/files/timestamps, fed to "
        "StreamToDict, StreamSummary and StreamToExtendedDecorator (one after the other, or all three alive "
        "at once and fed in lockstep; strings built at run time, never the interned literals) and compared with a reference "
        "segmentation model written from the property statement. Also: an earlier run on the same consumer objects, reports re-read after stopTestRun, the run bracket at the wrapped result, interleaved attachments with a text attachment cut inside a character and a file called 'traceback', 65..1100 tests in progress at once, attachments up to 3 x 1 MiB, naive / sub-second / non-UTC stamps. "
        "Also (random and as a small exhaustive grid): the file name '', the routes '' / None, a latin-1 log (valid in its declared charset, not valid UTF-8), "
        "a stamp ahead of the real clock, 26 / 130 tests never finished, a wrapped result with failfast set, a caller passing the same set object for equal tags; "
        "content types (StreamToDict and the wrapped result) are compared with a table written in the check; a chunk after an eof chunk of the same "
        "attachment may be concatenated or discarded, events after a final status of the same id + route may start a new "
        "test or be discarded until the run stops (one combination of readings per case); the statuses sent are the ones "
        "the StreamResult.status docstring lists. "
        "Non-trivial: >=2 test ids "
        "interleaved (events of another key between first and last event of a key), or one id on two "
        "routes, or an id reused after a final status; distinct = distinct canonical event list.")
ASSUMPTIONS = [
    "text attachments carry bytes valid for their declared charset (a consumer may decode them)",
    "the file name 'reason' is not used (StreamSummary decodes it as the skip reason)",
    "content type of an attachment is asserted only when every chunk of it names the same mime type",
    "wasSuccessful() after 'uxsuccess' is not asserted (statement: failed or incomplete tests)",
    "wasSuccessful() is expected to be True only when at least one counted test was reported and none failed, hung or "
    "unexpectedly succeeded (the converse of the statement's clause; a run without tests may answer either way)",
    "a chunk that follows an eof=True chunk of the same attachment of the same test: the statement is silent; both the "
    "code's reading (concatenated) and the StreamResult.status docstring's (discarded) are accepted, anything else is reported",
    "timestamps are compared as instants (==): a consumer that hands back an equal datetime in another zone satisfies "
    "'first and last timestamps'; naive stamps must come back naive (== between naive and aware is False)",
    "events without a test id are ignored, as the statement says (the StreamToExtendedDecorator docstring promises a "
    "'testtools.extradata' pseudo-test that the code does not produce; producing it would be reported as an extra test)",
    "beyond the letter of the statement but documented: the StreamToDict 'timestamps' entry has exactly two elements, a "
    "test dict still reads the same after stopTestRun, startTest/outcome/stopTest of one bracket name the same test id",
    "the caller never mutates a tag set it has passed (the consumers keep a reference to it); with share=True it passes "
    "the same set object again for equal tags",
    "the meaning of the mime strings of the alphabets is tabulated in MIME_TABLE; only a mime string outside the table "
    "(hand-written replay) is parsed with the library's private _make_content_type",
    "events that follow a final status of the same test id + route code: StreamResult.status says they 'may be discarded "
    "or associated with a new test'; both readings are accepted (a new test, as the code does; or discarded until "
    "stopTestRun), the whole case - all three consumers - must follow one of them",
    "'exists' at StreamToExtendedDecorator (the extended API has no call for it): either the event is dropped whole (the "
    "code) or only its status is dropped and its chunk/tags/timestamp still reach a test that is in progress; an 'exists' "
    "that closes a test in progress without any report is NOT accepted ('reported when its final status arrives, or as "
    "incomplete when the run stops'; it is what the stored changes C10-r6-1 / C10-r7-1 do)",
    "'first timestamp' is read as the timestamp of the first event received for the test, None when that event carried "
    "none (StreamToDict docstring: 'the first one received with this test id'); a consumer that back-fills it with the "
    "first non-None timestamp of a later event is reported at StreamToDict (stored changes C10-r2-2, C10-r5-3, C10-r6-2)",
    "content type parameters are expected verbatim, except 'charset', which is compared by the codec it names "
    "(codecs.lookup: 'utf8' == 'utf-8')",
    "an explicit test_status='unknown' is not sent (it is in the library's FINAL_STATES but not among the values the "
    "status() docstring lists); in a hand-written replay the model treats it as final",
]

OUTCOME_OF = {"success": "addSuccess", "skip": "addSkip", "fail": "addFailure",
              "xfail": "addExpectedFailure", "uxsuccess": "addUnexpectedSuccess"}


def reference(events, eof_closes=False, discard_after_final=False):
    """Segment the stream per (test_id, route_code).  Returns (finals in order, flushed).

    ``eof_closes``: the documented reading of ``eof`` ("any additional chunks with the same name should be
    treated as an error and discarded") instead of plain concatenation; the statement allows both.

    ``discard_after_final``: StreamResult.status says that after a final status further events of the same
    test_id+route_code "may be discarded or associated with a new test"; False is "a new test" (what the code
    does), True is "discarded" (until the run stops)."""
    open_ = collections.OrderedDict()
    finals = []
    done = set()
    for ev in events:
        if ev["test_id"] is None:
            continue
        key = (ev["test_id"], ev["route_code"])
        if discard_after_final and key in done:
            continue
        rec = open_.get(key)
        if rec is None:
            rec = open_[key] = {"id": ev["test_id"], "route": ev["route_code"], "status": "unknown",
                                "tags": frozenset(), "files": collections.OrderedDict(),
                                "first": ev["timestamp"], "last": None, "closed": set()}
        if ev["test_status"] is not None:
            rec["status"] = ev["test_status"]
        rec["last"] = ev["timestamp"]
        if ev["file_name"] is not None and not (eof_closes and ev["file_name"] in rec["closed"]):
            f = rec["files"].setdefault(ev["file_name"], {"data": b"", "mimes": set()})
            f["data"] += ev["file_bytes"]
            f["mimes"].add(ev["mime_type"])
            if ev["eof"]:
                rec["closed"].add(ev["file_name"])
        if ev["test_tags"] is not None:
            rec["tags"] = frozenset(ev["test_tags"])
        if ev["test_status"] in streams.FINAL:
            finals.append(open_.pop(key))
            done.add(key)
    flushed = list(open_.values())
    for rec in flushed:
        rec["last"] = None
    return finals, flushed


def _canon_model(rec):
    files = {n: f["data"] for n, f in rec["files"].items() if f["data"]}
    return (rec["id"], rec["status"], rec["tags"], streams.ts(rec["first"]), streams.ts(rec["last"]),
            tuple(sorted(files.items())))


# what the mime strings of the alphabets mean, written down here (not computed by the tree under test)
MIME_TABLE = {
    None: ("application", "octet-stream", {}),
    "application/octet-stream": ("application", "octet-stream", {}),
    'application/x-bar; k="v"': ("application", "x-bar", {"k": "v"}),
    "text/plain": ("text", "plain", {}),
    'text/plain; charset="utf8"': ("text", "plain", {"charset": "utf8"}),
    "text/plain;charset=utf8": ("text", "plain", {"charset": "utf8"}),
    'text/x-log; charset="utf8"': ("text", "x-log", {"charset": "utf8"}),
    "text/plain; charset=latin-1": ("text", "plain", {"charset": "latin-1"}),
    'text/x-log;charset="iso-8859-1"': ("text", "x-log", {"charset": "iso-8859-1"}),
}


def _ct_tuple(ct):
    """(type, subtype, parameters) of a content type, the charset spelled the way ``codecs`` spells it (a consumer
    that hands on 'utf-8' for 'utf8' names the same charset)."""
    if not isinstance(ct, tuple):
        ct = (getattr(ct, "type", None), getattr(ct, "subtype", None), getattr(ct, "parameters", None))
    params = dict(ct[2] or {})
    cs = params.get("charset")
    if isinstance(cs, str):
        try:
            params["charset"] = codecs.lookup(cs).name
        except LookupError:
            pass
    return (ct[0], ct[1], params)


def _mime_ok(vs, who, rec, name, ct):
    mimes = rec["files"][name]["mimes"]
    if len(mimes) != 1:
        return
    mime = next(iter(mimes))
    if mime in MIME_TABLE:
        want = MIME_TABLE[mime]
    else:       # a mime string from a hand-written replay: ask the library's parser
        from testtools.testresult.real import _make_content_type
        want = _make_content_type(mime)
    if _ct_tuple(ct) != _ct_tuple(want):
        vs.append(V("attachment-type", who, "file %r has content type %r, events said %r (%r)" % (name, ct, mime, want)))


def _report_key(t):
    """A total order on canonical tuples that does not depend on set iteration order."""
    return (repr(t[0]), repr(t[1]), sorted(map(repr, t[2])), repr(t[3]), repr(t[4]), repr(t[5]))


def _check_reports(vs, who, got, finals, flushed):
    """got: list of canonical tuples (id,status,tags,first,last,files) in report order."""
    want_f = [_canon_model(r) for r in finals]
    want_x = sorted((_canon_model(r) for r in flushed), key=_report_key)
    nf = len(want_f)
    if len(got) != nf + len(want_x):
        vs.append(V("exactly-once", who + "-count", "%d tests reported, model expects %d final + %d incomplete; got ids %r" % (
            len(got), nf, len(want_x), [g[0] for g in got])))
        return
    for i, (g, w) in enumerate(zip(got[:nf], want_f)):
        if g != w:
            field = next(n for n, a, b in zip(("id", "status", "tags", "first-timestamp", "last-timestamp", "attachments"), g, w) if a != b)
            vs.append(V("report-content", who + "-" + field, "report %d is %r, model expects %r" % (i, g, w)))
            return
    rest = sorted(got[nf:], key=_report_key)
    if rest != want_x:
        vs.append(V("report-content", who + "-incomplete", "incomplete reports %r, model expects %r" % (rest, want_x)))


def _enum_many_open():
    """Hundreds of tests in progress at once (each with an attachment), finished in reverse order."""
    for n in (65, 300, 1100):
        evs = []
        for k in range(n):
            evs.append(dict(test_id="t%d" % k, route_code=None, test_status="inprogress", test_tags=None, runnable=True, timestamp=1,
                            file_name="f", file_bytes=b"%d" % k, eof=True, mime_type="text/plain"))
        for k in reversed(range(n)):
            evs.append(dict(test_id="t%d" % k, route_code=None, test_status="success" if k % 3 else "fail", test_tags=None, runnable=True,
                            timestamp=2, file_name=None, file_bytes=None, eof=False, mime_type=None))
        yield {"events": evs}
    # more tests than any plausible cap still in progress when the run stops (none is ever finished)
    for n in (26, 130):
        evs = [dict(test_id="t%d" % k, route_code=None, test_status="inprogress" if k % 2 else None, test_tags=None, runnable=True,
                    timestamp=1, file_name="f", file_bytes=b"%d" % k, eof=False, mime_type="text/plain") for k in range(n)]
        yield {"events": evs}
    # and attachments far beyond any buffer size
    for size in (5000, 70000, 1 << 20):
        evs = [dict(test_id="a", route_code=None, test_status=None, test_tags=None, runnable=True, timestamp=1,
                    file_name="f", file_bytes=bytes([65 + k]) * size, eof=False, mime_type="text/plain") for k in range(3)]
        evs.append(dict(test_id="a", route_code=None, test_status="fail", test_tags=None, runnable=True, timestamp=2,
                        file_name=None, file_bytes=None, eof=False, mime_type=None))
        yield {"events": evs}


def _enum_interleaved_files():
    """One test whose attachments arrive interleaved (f, g, f, g, ...), with a text attachment cut inside a
    multi-byte character, a file called 'traceback', and every final status."""
    def ev(**kw):
        base = dict(test_id="a", route_code=None, test_status=None, test_tags=None, runnable=True, timestamp=1,
                    file_name=None, file_bytes=None, eof=False, mime_type=None)
        base.update(kw)
        return base
    for status in ("success", "fail", "xfail", "skip", "uxsuccess", None):
        for names in (("f", "g"), ("f", "traceback"), ("traceback", "g", "f")):
            for rounds in (2, 3):
                evs = [ev(test_status="inprogress")]
                for r in range(rounds):
                    for k, n in enumerate(names):
                        text = n != "g"
                        chunk = (b"caf\xc3", b"\xa9 ", b"au lait")[r] if text else bytes([r, 255, k])
                        evs.append(ev(file_name=n, file_bytes=chunk, mime_type='text/plain; charset="utf8"' if text else "application/octet-stream"))
                        if r == 0:
                            # another test's events in between
                            evs.append(ev(test_id="b", test_status="inprogress", file_name="f", file_bytes=b"other", mime_type="text/plain"))
                if rounds == 2:
                    continue_ok = False      # a text attachment that stops inside a character is not valid text: make it whole
                    for n in names:
                        if n != "g":
                            evs.append(ev(file_name=n, file_bytes=b"", mime_type='text/plain; charset="utf8"'))
                if status is not None:
                    evs.append(ev(test_status=status, timestamp=2))
                yield {"events": evs}
                yield {"events": evs, "mode": "lockstep"}


def _enum_values():
    """Single values that the random alphabets hold too, but too thinly to be met at every seed."""
    def ev(**kw):
        base = dict(test_id="a", route_code=None, test_status=None, test_tags=None, runnable=True, timestamp=1,
                    file_name=None, file_bytes=None, eof=False, mime_type=None)
        base.update(kw)
        return base

    def both(evs, **kw):
        yield dict(kw, events=evs)
        yield dict(kw, events=evs, mode="lockstep")
    for status in ("fail", "success", "skip", "xfail", None):
        tail = [ev(test_status=status, timestamp=2)] if status else []
        # the empty file name is a file name
        for mime in (None, "application/octet-stream"):
            yield from both([ev(file_name="", file_bytes=b"x", mime_type=mime), ev(file_name="g", file_bytes=b"y"),
                             ev(file_name="", file_bytes=b"\xff", mime_type=mime)] + tail)
        # a log in latin-1: valid in its declared charset, not valid UTF-8
        for mime in LATIN_MIMES:
            yield from both([ev(file_name=LATIN_NAME, file_bytes=b"caf\xe9", mime_type=mime), ev(test_status="inprogress"),
                             ev(file_name=LATIN_NAME, file_bytes=b"\xe9t\xe9\n", mime_type=mime)] + tail)
        # the routes '' and None are two routes
        for r1, r2 in (("", None), (None, ""), ("", "0")):
            yield from both([ev(route_code=r1, test_status="inprogress", test_tags={"t"}),
                             ev(route_code=r2, test_status="inprogress", timestamp=3, file_name="f", file_bytes=b"1", mime_type="text/plain"),
                             ev(route_code=r1, file_name="f", file_bytes=b"2", mime_type="text/plain")]
                            + [dict(e, route_code=r1) for e in tail])
        # a chunk after an eof chunk of the same attachment: concatenated or discarded, nothing else
        yield from both([ev(file_name="f", file_bytes=b"1", eof=True, mime_type="text/plain"), ev(file_name="g", file_bytes=b"\x00"),
                         ev(file_name="f", file_bytes=b"2", mime_type="text/plain")] + tail)
    # timestamps ahead of the real clock, sub-second, not in UTC, naive - first and last
    for s1 in (None, 1, "future", "tz", "usec", "naive"):
        for s2 in (None, 2, "future", "tz", "usec", "naive"):
            yield {"events": [ev(test_status="inprogress", timestamp=s1), ev(test_id="b", timestamp=s2), ev(test_status="success", timestamp=s2)]}
    # a wrapped result that asks to stop at the first failure is still told about every later and every hung test
    for first in ("fail", "uxsuccess"):
        yield from both([ev(test_status=first), ev(test_id="b", test_status="inprogress"), ev(test_id="c", test_status="success"),
                         ev(test_id="d", test_status="fail"), ev(test_id="e", test_status="inprogress")], failfast=True)
    # a caller that passes the very same set object whenever the tags are the same
    for t1, t2 in (({"t"}, {"u"}), ({"t"}, set()), (frozenset({"t"}), frozenset({"u", "v"})), ({"t", "u"}, {"t"})):
        yield from both([ev(test_tags=t1), ev(test_tags=t2), ev(test_id="b", test_tags=t1), ev(test_status="fail"),
                         ev(test_id="c", test_tags=t1, test_status="success"), ev(test_id="b", test_status="skip")], share=True)


def _enum_long():
    for n in (1, 63, 64, 65, 66, 130):
        for two in (False, True):
            evs = []
            for k in range(n):
                evs.append(dict(test_id="a", route_code=None, test_status=None, test_tags=None, runnable=True, timestamp=1,
                                file_name="f", file_bytes=b"%d," % k, eof=False, mime_type="text/plain"))
                if two:
                    evs.append(dict(test_id="b", route_code="0", test_status="inprogress", test_tags=None, runnable=True, timestamp=1,
                                    file_name="g", file_bytes=b"x", eof=False, mime_type=None))
            evs.append(dict(test_id="a", route_code=None, test_status="fail", test_tags=None, runnable=True, timestamp=2,
                            file_name=None, file_bytes=None, eof=False, mime_type=None))
            yield {"events": evs}


def send(result, ev, npos, cache=None):
    """One status() call, the first ``npos`` parameters positionally (documented parameter order).
    ``cache``: the caller keeps one set object per distinct tag set and passes it again and again (it never
    changes it itself)."""
    kw = streams.kwargs_of(ev)
    if cache is not None and kw["test_tags"] is not None:
        t = kw["test_tags"]
        kw["test_tags"] = cache.setdefault((isinstance(t, frozenset), frozenset(t)), t)
    args = [kw.pop(f) for f in streams.FIELDS[:npos]]
    result.status(*args, **kw)


def _canon_all(events, eof_closes, discard_after_final=False):
    finals, flushed = reference(events, eof_closes, discard_after_final)
    return [_canon_model(r) for r in finals], sorted((_canon_model(r) for r in flushed), key=_report_key)


def run_case(spec):
    """Two points on which the statement is silent and the StreamResult.status docstring allows more than the code
    does: a chunk that follows an ``eof`` chunk of the same attachment (the code concatenates it, the docstring
    says it is discarded) and events that follow a final status of the same id + route ("may be discarded or
    associated with a new test"; the code starts a new test).  Every reading is accepted - the whole case must
    follow one combination of them."""
    first, tried = None, []
    for eof_closes, discard in ((False, False), (True, False), (False, True), (True, True)):
        canon = _canon_all(spec["events"], eof_closes, discard)
        if canon in tried:
            continue
        tried.append(canon)
        case = _run(spec, eof_closes, discard)
        if not case.violations:
            return case
        if first is None:
            first = case
    return first


def _s2e_events(events, exists_keeps_data):
    """What StreamToExtendedDecorator works on.  The extended API has no call for 'exists': the code drops such an
    event whole (False).  Also accepted (True): only the *status* is dropped - what the event carries (chunk, tags,
    timestamp) still goes to a test that is in progress, an 'exists' for a test that is not in progress is dropped."""
    if not exists_keeps_data:
        return [e for e in events if e["test_status"] != "exists"]
    out, open_ = [], set()
    for e in events:
        key = (e["test_id"], e["route_code"])
        if e["test_status"] == "exists":
            if e["test_id"] is not None and key in open_:
                out.append(dict(e, test_status=None))
            continue
        out.append(e)
        if e["test_id"] is not None:
            if e["test_status"] in streams.FINAL:
                open_.discard(key)
            else:
                open_.add(key)
    return out


def _tid(test):
    try:
        return test.id()
    except Exception as e:      # not a test object: compare it by what it is
        return ("not-a-test", repr(test), type(e).__name__)


def _run(spec, eof_closes, discard_after_final=False):
    from testtools.testresult.real import StreamToDict, StreamSummary, StreamToExtendedDecorator
    events = spec["events"]
    npos = list(spec.get("npos", [])) + [0] * len(events)
    finals, flushed = reference(events, eof_closes, discard_after_final)
    vs = []
    cache = {} if spec.get("share") else None

    # ---- StreamToDict
    reports = []

    kept = []           # the dicts handed to the callback, looked at again after the run

    def canon_dict(d):
        files = {n: b"".join(c.iter_bytes()) for n, c in d["details"].items()}
        return (d["id"], d["status"], frozenset(d["tags"]), d["timestamps"][0], d["timestamps"][1],
                tuple(sorted((n, b) for n, b in files.items() if b)))

    def on_test(d):
        kept.append(d)
        reports.append((canon_dict(d), {n: c.content_type for n, c in d["details"].items()}, len(d["timestamps"])))
    s2d = StreamToDict(on_test)
    summ = StreamSummary()
    ext = Ext()
    ext.failfast = bool(spec.get("failfast"))     # a result that asks to stop at the first failure is still told about every test
    s2e = StreamToExtendedDecorator(ext)
    lockstep = spec.get("mode") == "lockstep"
    if spec.get("prelude"):
        # an earlier run on the very same consumer objects: nothing of it may show up in this one
        for c in (s2d, summ, s2e):
            c.startTestRun()
            for ev in spec["prelude"]:
                send(c, ev, 0)
            c.stopTestRun()
        del reports[:], kept[:], ext.events[:]
    if lockstep:
        # the three consumers are alive at the same time and see every event in turn (as behind a
        # CopyStreamResult): one consumer's bookkeeping must not leak into another's
        for c in (s2d, summ, s2e):
            c.startTestRun()
        for ev, n in zip(events, npos):
            for c in (s2d, summ, s2e):
                send(c, ev, n, cache)
        n_before_stop = len(reports)
        n_out_before = len([e for e in ext.events if e[0].startswith("add")])
        for c in (s2d, summ, s2e):
            c.stopTestRun()
    else:
        s2d.startTestRun()
        for ev, n in zip(events, npos):
            send(s2d, ev, n, cache)
        n_before_stop = len(reports)
        s2d.stopTestRun()
    if n_before_stop != len(finals):
        vs.append(V("exactly-once", "StreamToDict-timing", "%d reports before stopTestRun, %d final statuses arrived" % (n_before_stop, len(finals))))
    _check_reports(vs, "StreamToDict", [r[0] for r in reports], finals, flushed)
    if not vs and [canon_dict(d) for d in kept] != [r[0] for r in reports]:
        vs.append(V("report-content", "StreamToDict-changed-after-the-callback", "a test dict read again after stopTestRun differs from what the callback saw"))
    if not vs:
        for (canon, cts, nts), rec in zip(reports, finals):
            for name, ct in cts.items():
                if name in rec["files"]:
                    _mime_ok(vs, "StreamToDict", rec, name, ct)
            if nts != 2:
                vs.append(V("report-content", "StreamToDict-timestamps-len", "timestamps has %d entries" % nts))

    # ---- StreamSummary
    if not lockstep:
        summ.startTestRun()
        for ev, n in zip(events, npos):
            send(summ, ev, n, cache)
        summ.stopTestRun()
    allrecs = finals + flushed
    counted = [r for r in allrecs if r["status"] != "exists"]
    if summ.testsRun != len(counted):
        vs.append(V("summary", "testsRun", "testsRun=%d, model expects %d" % (summ.testsRun, len(counted))))
    want_lists = {
        "errors": sorted(r["id"] for r in counted if r["status"] in ("fail", "unknown", "inprogress")),
        "skipped": sorted(r["id"] for r in counted if r["status"] == "skip"),
        "expectedFailures": sorted(r["id"] for r in counted if r["status"] == "xfail"),
        "unexpectedSuccesses": sorted(r["id"] for r in counted if r["status"] == "uxsuccess"),
        "failures": [],
    }
    for name, want in want_lists.items():
        lst = getattr(summ, name)
        got = sorted((x[0] if isinstance(x, tuple) else x).id() for x in lst)
        if name == "errors":    # a failed test may be filed under errors or failures
            got = sorted(got + sorted((x[0]).id() for x in summ.failures))
        if name == "failures":
            continue
        if got != want:
            vs.append(V("summary", name, "%s holds %r, model expects %r" % (name, got, want)))
    bad = bool(want_lists["errors"])
    ok = summ.wasSuccessful()
    if summ.wasSuccessful() != ok:
        vs.append(V("summary", "wasSuccessful-unstable", "wasSuccessful() answered %r, then %r" % (ok, not ok)))
    if bad and ok:
        vs.append(V("summary", "wasSuccessful-true", "wasSuccessful() is True with failed/incomplete tests %r" % want_lists["errors"]))
    if counted and not bad and not want_lists["unexpectedSuccesses"] and not ok:
        vs.append(V("summary", "wasSuccessful-false", "wasSuccessful() is False although no test failed"))

    # ---- StreamToExtendedDecorator
    if not lockstep:
        s2e.startTestRun()
        for ev, n in zip(events, npos):
            send(s2e, ev, n, cache)
        n_out_before = len([e for e in ext.events if e[0].startswith("add")])
        s2e.stopTestRun()
    brackets, cur = [], None
    shape_ok = True
    for e in ext.events:
        if e[0] == "startTest":
            if cur is not None:
                shape_ok = False
            cur = [e]
        elif e[0].startswith("add") or e[0] == "stopTest":
            if cur is None:
                shape_ok = False
            else:
                cur.append(e)
                if e[0] == "stopTest":
                    brackets.append(cur)
                    cur = None
    if cur is not None:
        shape_ok = False
    run_calls = [e[0] for e in ext.events if e[0] in ("startTestRun", "stopTestRun")]
    if run_calls != ["startTestRun", "stopTestRun"] or ext.events[0][0] != "startTestRun" or ext.events[-1][0] != "stopTestRun":
        vs.append(V("extended", "run-bracket", "the wrapped result saw %r around %d other events" % (run_calls, len(ext.events) - len(run_calls))))
    if not shape_ok or any(len(b) != 3 or not (_tid(b[0][1]) == _tid(b[1][1]) == _tid(b[2][1])) for b in brackets):
        vs.append(V("extended", "bracket-shape", "not one startTest/outcome/stopTest bracket per test: %r" % [e[0] for e in ext.events]))
    else:
        got, dets = [], []
        for b in brackets:
            start, out, stop = b
            ctx = out[2]
            det = ctx.get("details") or {}
            files = tuple(sorted((n, d[2]) for n, d in det.items() if d[2]))
            got.append((_tid(start[1]), out[0], ctx["tags"], start[2]["time"], ctx["time"], files))
            dets.append(det)

        def want_of(rec):
            return (rec["id"], OUTCOME_OF.get(rec["status"], "INCOMPLETE"), rec["tags"], streams.ts(rec["first"]),
                    streams.ts(rec["last"]), tuple(sorted((n, f["data"]) for n, f in rec["files"].items() if f["data"])))

        def same(g, w, prev_time):
            if g[0] != w[0] or g[2] != w[2] or g[5] != w[5]:
                return False
            if w[1] == "INCOMPLETE":
                if g[1] not in ("addFailure", "addError"):
                    return False
            elif g[1] != w[1]:
                return False
            if w[3] is not None and g[3] != w[3]:
                return False
            if w[4] is not None and g[4] != w[4]:
                return False
            return True

        def compare(s2e_events):
            vs = []
            f2, x2 = reference(s2e_events, eof_closes, discard_after_final)
            if n_out_before != len(f2):
                vs.append(V("exactly-once", "StreamToExtended-timing", "%d outcomes before stopTestRun, %d final statuses" % (n_out_before, len(f2))))
            wf = [want_of(r) for r in f2]
            wx = [want_of(r) for r in x2]
            if len(got) != len(wf) + len(wx):
                vs.append(V("exactly-once", "StreamToExtended-count", "%d brackets, model expects %d+%d" % (len(got), len(wf), len(wx))))
                return vs
            for g, w, rec, det in zip(got, wf, f2, dets):
                if not same(g, w, None):
                    vs.append(V("report-content", "StreamToExtended", "bracket %r, model expects %r" % (g, w)))
                    break
                for name, d in det.items():
                    if name in rec["files"]:
                        _mime_ok(vs, "StreamToExtended", rec, name, d[1])
            rest = list(got[len(wf):])
            if wx:
                # an incomplete test without a first timestamp accepts any start time: assign brackets
                # to expected reports by maximum matching, not greedily
                from vp.matchers import _max_matching
                acc = [[same(g, w, None) for g in rest] for w in wx]
                if _max_matching(acc) != len(wx):
                    vs.append(V("report-content", "StreamToExtended-incomplete", "incomplete tests %r cannot be matched one-to-one with the brackets %r" % (wx, rest)))
            return vs
        dropped, kept_data = _s2e_events(events, False), _s2e_events(events, True)
        found = compare(dropped)
        if found and kept_data != dropped and not compare(kept_data):
            found = []      # the other reading of 'exists' at this consumer (see _s2e_events)
        vs.extend(found)

    # ---- non-triviality
    keys = [(e["test_id"], e["route_code"]) for e in events if e["test_id"] is not None]
    ids_routes = collections.defaultdict(set)
    for i, r in keys:
        ids_routes[i].add(r)
    two_routes = any(len(r) > 1 for r in ids_routes.values())
    reuse = len(finals) + len(flushed) > len(set(keys))
    interleaved = False
    first, last = {}, {}
    for n, k in enumerate(keys):
        first.setdefault(k, n)
        last[k] = n
    for k in first:
        if any(first[k] < n < last[k] and kk != k for n, kk in enumerate(keys)):
            interleaved = True
    nt = two_routes or reuse or interleaved
    labels = ["two-routes" if two_routes else "", "id-reuse" if reuse else "", "interleaved" if interleaved else "",
              "has-incomplete" if flushed else "all-final", "lockstep" if lockstep else "one-by-one", "has-files" if any(r["files"] for r in allrecs) else "no-files"]
    return Case(vs, nt, [l for l in labels if l], {"reports": [r[0][:2] for r in reports]})


LATIN_NAME = "l1"       # a text attachment whose bytes are valid in its declared charset and are NOT valid UTF-8
LATIN_MIMES = ("text/plain; charset=latin-1", 'text/x-log;charset="iso-8859-1"')
LATIN_CHUNKS = (b"caf\xe9", b"", b"\xe9t\xe9\n")
# the statuses the StreamResult.status docstring lists; an explicit "unknown" (in the library's private FINAL_STATES,
# not among the documented values) is not sent
STATUSES = streams.INTERIM + streams.INTERIM + tuple(x for x in streams.FINAL if x != "unknown")
PRELUDE_EVENT = streams.event(statuses=STATUSES)
BASE_EVENT = streams.event(ids=(None, "a", "b", "c", "0/a", ""), statuses=STATUSES,
                           routes=st.one_of(streams.ROUTE, streams.ROUTE, streams.ROUTE, streams.ROUTE, streams.ROUTE, st.just("")),
                           stamps=(None, 0, 1, 2, 3, 5, "usec", "tz", "naive", "future"))


@st.composite
def c10_event(draw):
    """streams.event plus two values of C10's own: the file name '' (for the binary attachment) and a latin-1 log."""
    ev = draw(BASE_EVENT)
    if ev["file_name"] is not None:
        x = draw(st.integers(0, 7))
        if x < 2 and ev["file_name"] in streams.BIN_NAMES:
            ev["file_name"] = ""
        elif x < 2:
            ev["file_name"] = LATIN_NAME
            ev["mime_type"] = draw(st.sampled_from(LATIN_MIMES))
            ev["file_bytes"] = draw(st.sampled_from(LATIN_CHUNKS))
    return ev


EVENTS = st.lists(c10_event(), max_size=25)
NPOS = st.lists(st.integers(0, 10), max_size=25)


def _enum(maxlen):
    """All sequences up to ``maxlen`` over a reduced alphabet (exhaustive)."""
    alpha = []
    for tid, route in ((None, None), ("a", None), ("a", "0"), ("b", None)):
        for status in (None, "inprogress", "success", "fail", "exists", "skip"):
            alpha.append(dict(test_id=tid, route_code=route, test_status=status, test_tags=None, runnable=True,
                              timestamp=None, file_name=None, file_bytes=None, eof=False, mime_type=None))
        alpha.append(dict(test_id=tid, route_code=route, test_status=None, test_tags={"t"}, runnable=True,
                          timestamp=1, file_name=None, file_bytes=None, eof=False, mime_type=None))
        alpha.append(dict(test_id=tid, route_code=route, test_status=None, test_tags=None, runnable=True,
                          timestamp=2, file_name="f", file_bytes=b"1", eof=False, mime_type="text/plain"))
        alpha.append(dict(test_id=tid, route_code=route, test_status="fail", test_tags=None, runnable=True,
                          timestamp=3, file_name="f", file_bytes=b"22", eof=True, mime_type="text/plain"))

    def gen():
        for n in range(0, maxlen + 1):
            for combo in itertools.product(alpha, repeat=n):
                yield {"events": list(combo)}
    return gen, len(alpha)


def _enum4():
    """Length-4 sequences over a smaller alphabet (2 keys of one id on two routes + another id; 7 event shapes)."""
    alpha = []
    for tid, route in (("a", None), ("a", "0"), ("b", None)):
        for status in (None, "inprogress", "success", "fail", "exists"):
            alpha.append(dict(test_id=tid, route_code=route, test_status=status, test_tags=None, runnable=True,
                              timestamp=None, file_name=None, file_bytes=None, eof=False, mime_type=None))
        alpha.append(dict(test_id=tid, route_code=route, test_status=None, test_tags={"t"}, runnable=True,
                          timestamp=1, file_name="f", file_bytes=b"1", eof=False, mime_type="text/plain"))
        alpha.append(dict(test_id=tid, route_code=route, test_status="skip", test_tags=set(), runnable=True,
                          timestamp=3, file_name="f", file_bytes=b"22", eof=True, mime_type="text/plain"))

    def gen():
        for combo in itertools.product(alpha, repeat=4):
            yield {"events": list(combo)}
    return gen, len(alpha)


def subchecks(tier):
    q = tier == "quick"
    gen, k = _enum(2 if q else 3)
    gen4, k4 = _enum4()
    return [
        Sub("random_streams", run_case, st.fixed_dictionaries({"events": EVENTS, "npos": NPOS, "mode": st.sampled_from(["one-by-one", "lockstep"]),
                                                               "failfast": st.sampled_from([False, False, True]), "share": st.booleans(),
                                                               "prelude": st.one_of(st.none(), st.none(), st.lists(PRELUDE_EVENT, max_size=6))}),
            2500 if q else 150000),
        Sub("many_open_tests_and_big_attachments", run_case, enum=_enum_many_open, enum_complete=True,
            note="65 / 300 / 1100 tests in progress at once; attachments of 3 x 5000, 3 x 70000, 3 x 1 MiB bytes"),
        Sub("interleaved_attachments", run_case, enum=_enum_interleaved_files, enum_complete=True,
            note="one test, attachments arriving interleaved (f, g, f, ...; also a file called 'traceback'), a text attachment cut "
                 "inside a multi-byte character, another test's events in between, every final status and none"),
        Sub("single_values", run_case, enum=_enum_values, enum_complete=True,
            note="the file name '', a latin-1 log, the routes '' / None / '0', a chunk after eof, every pair of timestamp kinds "
                 "(incl. one in 2100), a failfast wrapped result, a caller re-using its tag set objects; one-by-one and lockstep"),
        Sub("long_attachments", run_case, enum=_enum_long, enum_complete=True,
            note="one or two tests with 1, 63, 64, 65, 66, 130 chunks of one attachment"),
        Sub("enumerated_streams", run_case, enum=gen, enum_complete=True,
            note="every sequence of length <= %d over a %d-symbol alphabet" % (2 if q else 3, k)),
    ] + ([] if q else [
        Sub("enumerated_streams_len4", run_case, enum=gen4, enum_complete=True,
            note="every sequence of length exactly 4 over a reduced %d-symbol alphabet" % k4)])
