"""C10 - stream consumers account for every test exactly once."""
import collections
import itertools

from hypothesis import strategies as st

from vp.core import Case, Sub, V
from vp import streams
from vp.results import Ext

PROPERTY = "C10"
RULE = ("Hypothesis-generated (and, for short lengths, exhaustively enumerated) sequences of status() "
        "events over small alphabets of ids/route codes/statuses/tags/files/timestamps, fed to "
        "StreamToDict, StreamSummary and StreamToExtendedDecorator (one after the other, or all three alive "
        "at once and fed in lockstep; strings built at run time, never the interned literals) and compared with a reference "
        "segmentation model written from the property statement. Also: an earlier run on the same consumer objects, reports re-read after stopTestRun, the run bracket at the wrapped result, interleaved attachments with a text attachment cut inside a character and a file called 'traceback', 65..1100 tests in progress at once, attachments up to 3 x 1 MiB, naive / sub-second / non-UTC stamps. "
        "Non-trivial: >=2 test ids "
        "interleaved (events of another key between first and last event of a key), or one id on two "
        "routes, or an id reused after a final status; distinct = distinct canonical event list.")
ASSUMPTIONS = [
    "text attachments carry bytes valid for their declared charset (a consumer may decode them)",
    "the file name 'reason' is not used (StreamSummary decodes it as the skip reason)",
    "content type of an attachment is asserted only when every chunk of it names the same mime type",
    "wasSuccessful() after 'uxsuccess' is not asserted (statement: failed or incomplete tests)",
]

OUTCOME_OF = {"success": "addSuccess", "skip": "addSkip", "fail": "addFailure",
              "xfail": "addExpectedFailure", "uxsuccess": "addUnexpectedSuccess"}


def reference(events, eof_closes=False):
    """Segment the stream per (test_id, route_code).  Returns (finals in order, flushed).

    ``eof_closes``: the documented reading of ``eof`` ("any additional chunks with the same name should be
    treated as an error and discarded") instead of plain concatenation; the statement allows both."""
    open_ = collections.OrderedDict()
    finals = []
    for ev in events:
        if ev["test_id"] is None:
            continue
        key = (ev["test_id"], ev["route_code"])
        rec = open_.get(key)
        if rec is None:
            rec = open_[key] = {"id": ev["test_id"], "route": ev["route_code"], "status": "unknown",
                                "tags": frozenset(), "files": collections.OrderedDict(),
                                "first": ev["timestamp"], "last": None, "closed": set()}
        if ev["test_status"] is not None:
            rec["status"] = ev["test_status"]
        rec["last"] = ev["timestamp"]
        if ev["file_name"] is not None and not (eof_closes and ev["file_name"] in rec["closed"]):
            f = rec["files"].setdefault(ev["file_name"], {"data": b"", "mimes": set()})
            f["data"] += ev["file_bytes"]
            f["mimes"].add(ev["mime_type"])
            if ev["eof"]:
                rec["closed"].add(ev["file_name"])
        if ev["test_tags"] is not None:
            rec["tags"] = frozenset(ev["test_tags"])
        if ev["test_status"] in streams.FINAL:
            finals.append(open_.pop(key))
    flushed = list(open_.values())
    for rec in flushed:
        rec["last"] = None
    return finals, flushed


def _canon_model(rec):
    files = {n: f["data"] for n, f in rec["files"].items() if f["data"]}
    return (rec["id"], rec["status"], rec["tags"], streams.ts(rec["first"]), streams.ts(rec["last"]),
            tuple(sorted(files.items())))


def _mime_ok(vs, who, rec, name, ct):
    from testtools.testresult.real import _make_content_type
    mimes = rec["files"][name]["mimes"]
    if len(mimes) == 1:
        want = _make_content_type(next(iter(mimes)))
        if ct != want:
            vs.append(V("attachment-type", who, "file %r has content type %r, events said %r" % (name, ct, want)))


def _check_reports(vs, who, got, finals, flushed):
    """got: list of canonical tuples (id,status,tags,first,last,files) in report order."""
    want_f = [_canon_model(r) for r in finals]
    want_x = sorted((_canon_model(r) for r in flushed), key=repr)
    nf = len(want_f)
    if len(got) != nf + len(want_x):
        vs.append(V("exactly-once", who + "-count", "%d tests reported, model expects %d final + %d incomplete; got ids %r" % (
            len(got), nf, len(want_x), [g[0] for g in got])))
        return
    for i, (g, w) in enumerate(zip(got[:nf], want_f)):
        if g != w:
            field = next(n for n, a, b in zip(("id", "status", "tags", "first-timestamp", "last-timestamp", "attachments"), g, w) if a != b)
            vs.append(V("report-content", who + "-" + field, "report %d is %r, model expects %r" % (i, g, w)))
            return
    rest = sorted(got[nf:], key=repr)
    if rest != want_x:
        vs.append(V("report-content", who + "-incomplete", "incomplete reports %r, model expects %r" % (rest, want_x)))


def _enum_many_open():
    """Hundreds of tests in progress at once (each with an attachment), finished in reverse order."""
    for n in (65, 300, 1100):
        evs = []
        for k in range(n):
            evs.append(dict(test_id="t%d" % k, route_code=None, test_status="inprogress", test_tags=None, runnable=True, timestamp=1,
                            file_name="f", file_bytes=b"%d" % k, eof=True, mime_type="text/plain"))
        for k in reversed(range(n)):
            evs.append(dict(test_id="t%d" % k, route_code=None, test_status="success" if k % 3 else "fail", test_tags=None, runnable=True,
                            timestamp=2, file_name=None, file_bytes=None, eof=False, mime_type=None))
        yield {"events": evs}
    # and attachments far beyond any buffer size
    for size in (5000, 70000, 1 << 20):
        evs = [dict(test_id="a", route_code=None, test_status=None, test_tags=None, runnable=True, timestamp=1,
                    file_name="f", file_bytes=bytes([65 + k]) * size, eof=False, mime_type="text/plain") for k in range(3)]
        evs.append(dict(test_id="a", route_code=None, test_status="fail", test_tags=None, runnable=True, timestamp=2,
                        file_name=None, file_bytes=None, eof=False, mime_type=None))
        yield {"events": evs}


def _enum_interleaved_files():
    """One test whose attachments arrive interleaved (f, g, f, g, ...), with a text attachment cut inside a
    multi-byte character, a file called 'traceback', and every final status."""
    def ev(**kw):
        base = dict(test_id="a", route_code=None, test_status=None, test_tags=None, runnable=True, timestamp=1,
                    file_name=None, file_bytes=None, eof=False, mime_type=None)
        base.update(kw)
        return base
    for status in ("success", "fail", "xfail", "skip", "uxsuccess", None):
        for names in (("f", "g"), ("f", "traceback"), ("traceback", "g", "f")):
            for rounds in (2, 3):
                evs = [ev(test_status="inprogress")]
                for r in range(rounds):
                    for k, n in enumerate(names):
                        text = n != "g"
                        chunk = (b"caf\xc3", b"\xa9 ", b"au lait")[r] if text else bytes([r, 255, k])
                        evs.append(ev(file_name=n, file_bytes=chunk, mime_type='text/plain; charset="utf8"' if text else "application/octet-stream"))
                        if r == 0:
                            # another test's events in between
                            evs.append(ev(test_id="b", test_status="inprogress", file_name="f", file_bytes=b"other", mime_type="text/plain"))
                if rounds == 2:
                    continue_ok = False      # a text attachment that stops inside a character is not valid text: make it whole
                    for n in names:
                        if n != "g":
                            evs.append(ev(file_name=n, file_bytes=b"", mime_type='text/plain; charset="utf8"'))
                if status is not None:
                    evs.append(ev(test_status=status, timestamp=2))
                yield {"events": evs}
                yield {"events": evs, "mode": "lockstep"}


def _enum_long():
    for n in (1, 63, 64, 65, 66, 130):
        for two in (False, True):
            evs = []
            for k in range(n):
                evs.append(dict(test_id="a", route_code=None, test_status=None, test_tags=None, runnable=True, timestamp=1,
                                file_name="f", file_bytes=b"%d," % k, eof=False, mime_type="text/plain"))
                if two:
                    evs.append(dict(test_id="b", route_code="0", test_status="inprogress", test_tags=None, runnable=True, timestamp=1,
                                    file_name="g", file_bytes=b"x", eof=False, mime_type=None))
            evs.append(dict(test_id="a", route_code=None, test_status="fail", test_tags=None, runnable=True, timestamp=2,
                            file_name=None, file_bytes=None, eof=False, mime_type=None))
            yield {"events": evs}


def send(result, ev, npos):
    """One status() call, the first ``npos`` parameters positionally (documented parameter order)."""
    kw = streams.kwargs_of(ev)
    args = [kw.pop(f) for f in streams.FIELDS[:npos]]
    result.status(*args, **kw)


def run_case(spec):
    from testtools.testresult.real import StreamToDict, StreamSummary, StreamToExtendedDecorator
    events = spec["events"]
    npos = list(spec.get("npos", [])) + [0] * len(events)
    finals, flushed = reference(events)
    vs = []

    # ---- StreamToDict
    reports = []

    kept = []           # the dicts handed to the callback, looked at again after the run

    def canon_dict(d):
        files = {n: b"".join(c.iter_bytes()) for n, c in d["details"].items()}
        return (d["id"], d["status"], frozenset(d["tags"]), d["timestamps"][0], d["timestamps"][1],
                tuple(sorted((n, b) for n, b in files.items() if b)))

    def on_test(d):
        kept.append(d)
        reports.append((canon_dict(d), {n: c.content_type for n, c in d["details"].items()}, len(d["timestamps"])))
    s2d = StreamToDict(on_test)
    summ = StreamSummary()
    ext = Ext()
    s2e = StreamToExtendedDecorator(ext)
    lockstep = spec.get("mode") == "lockstep"
    if spec.get("prelude"):
        # an earlier run on the very same consumer objects: nothing of it may show up in this one
        for c in (s2d, summ, s2e):
            c.startTestRun()
            for ev in spec["prelude"]:
                send(c, ev, 0)
            c.stopTestRun()
        del reports[:], kept[:], ext.events[:]
    if lockstep:
        # the three consumers are alive at the same time and see every event in turn (as behind a
        # CopyStreamResult): one consumer's bookkeeping must not leak into another's
        for c in (s2d, summ, s2e):
            c.startTestRun()
        for ev, n in zip(events, npos):
            for c in (s2d, summ, s2e):
                send(c, ev, n)
        n_before_stop = len(reports)
        n_out_before = len([e for e in ext.events if e[0].startswith("add")])
        for c in (s2d, summ, s2e):
            c.stopTestRun()
    else:
        s2d.startTestRun()
        for ev, n in zip(events, npos):
            send(s2d, ev, n)
        n_before_stop = len(reports)
        s2d.stopTestRun()
    if n_before_stop != len(finals):
        vs.append(V("exactly-once", "StreamToDict-timing", "%d reports before stopTestRun, %d final statuses arrived" % (n_before_stop, len(finals))))
    _check_reports(vs, "StreamToDict", [r[0] for r in reports], finals, flushed)
    if not vs and [canon_dict(d) for d in kept] != [r[0] for r in reports]:
        vs.append(V("report-content", "StreamToDict-changed-after-the-callback", "a test dict read again after stopTestRun differs from what the callback saw"))
    if not vs:
        for (canon, cts, nts), rec in zip(reports, finals):
            for name, ct in cts.items():
                if name in rec["files"]:
                    _mime_ok(vs, "StreamToDict", rec, name, ct)
            if nts != 2:
                vs.append(V("report-content", "StreamToDict-timestamps-len", "timestamps has %d entries" % nts))

    # ---- StreamSummary
    if not lockstep:
        summ.startTestRun()
        for ev, n in zip(events, npos):
            send(summ, ev, n)
        summ.stopTestRun()
    allrecs = finals + flushed
    counted = [r for r in allrecs if r["status"] != "exists"]
    if summ.testsRun != len(counted):
        vs.append(V("summary", "testsRun", "testsRun=%d, model expects %d" % (summ.testsRun, len(counted))))
    want_lists = {
        "errors": sorted(r["id"] for r in counted if r["status"] in ("fail", "unknown", "inprogress")),
        "skipped": sorted(r["id"] for r in counted if r["status"] == "skip"),
        "expectedFailures": sorted(r["id"] for r in counted if r["status"] == "xfail"),
        "unexpectedSuccesses": sorted(r["id"] for r in counted if r["status"] == "uxsuccess"),
        "failures": [],
    }
    for name, want in want_lists.items():
        lst = getattr(summ, name)
        got = sorted((x[0] if isinstance(x, tuple) else x).id() for x in lst)
        if name == "errors":    # a failed test may be filed under errors or failures
            got = sorted(got + sorted((x[0]).id() for x in summ.failures))
        if name == "failures":
            continue
        if got != want:
            vs.append(V("summary", name, "%s holds %r, model expects %r" % (name, got, want)))
    bad = bool(want_lists["errors"])
    ok = summ.wasSuccessful()
    if bad and ok:
        vs.append(V("summary", "wasSuccessful-true", "wasSuccessful() is True with failed/incomplete tests %r" % want_lists["errors"]))
    if not bad and not want_lists["unexpectedSuccesses"] and not ok:
        vs.append(V("summary", "wasSuccessful-false", "wasSuccessful() is False although no test failed"))

    # ---- StreamToExtendedDecorator
    if not lockstep:
        s2e.startTestRun()
        for ev, n in zip(events, npos):
            send(s2e, ev, n)
        n_out_before = len([e for e in ext.events if e[0].startswith("add")])
        s2e.stopTestRun()
    f2, x2 = reference([e for e in events if e["test_status"] != "exists"])
    brackets, cur = [], None
    shape_ok = True
    for e in ext.events:
        if e[0] == "startTest":
            if cur is not None:
                shape_ok = False
            cur = [e]
        elif e[0].startswith("add") or e[0] == "stopTest":
            if cur is None:
                shape_ok = False
            else:
                cur.append(e)
                if e[0] == "stopTest":
                    brackets.append(cur)
                    cur = None
    if cur is not None:
        shape_ok = False
    run_calls = [e[0] for e in ext.events if e[0] in ("startTestRun", "stopTestRun")]
    if run_calls != ["startTestRun", "stopTestRun"] or ext.events[0][0] != "startTestRun" or ext.events[-1][0] != "stopTestRun":
        vs.append(V("extended", "run-bracket", "the wrapped result saw %r around %d other events" % (run_calls, len(ext.events) - len(run_calls))))
    if not shape_ok or any(len(b) != 3 or b[0][1] is not b[1][1] or b[1][1] is not b[2][1] for b in brackets):
        vs.append(V("extended", "bracket-shape", "not one startTest/outcome/stopTest bracket per test: %r" % [e[0] for e in ext.events]))
    else:
        if n_out_before != len(f2):
            vs.append(V("exactly-once", "StreamToExtended-timing", "%d outcomes before stopTestRun, %d final statuses" % (n_out_before, len(f2))))
        got = []
        for b in brackets:
            start, out, stop = b
            ctx = out[2]
            det = ctx.get("details") or {}
            files = tuple(sorted((n, d[2]) for n, d in det.items() if d[2]))
            got.append((start[1].id(), out[0], ctx["tags"], start[2]["time"], ctx["time"], files))

        def want_of(rec):
            return (rec["id"], OUTCOME_OF.get(rec["status"], "INCOMPLETE"), rec["tags"], streams.ts(rec["first"]),
                    streams.ts(rec["last"]), tuple(sorted((n, f["data"]) for n, f in rec["files"].items() if f["data"])))

        def same(g, w, prev_time):
            if g[0] != w[0] or g[2] != w[2] or g[5] != w[5]:
                return False
            if w[1] == "INCOMPLETE":
                if g[1] not in ("addFailure", "addError"):
                    return False
            elif g[1] != w[1]:
                return False
            if w[3] is not None and g[3] != w[3]:
                return False
            if w[4] is not None and g[4] != w[4]:
                return False
            return True
        wf = [want_of(r) for r in f2]
        wx = [want_of(r) for r in x2]
        if len(got) != len(wf) + len(wx):
            vs.append(V("exactly-once", "StreamToExtended-count", "%d brackets, model expects %d+%d" % (len(got), len(wf), len(wx))))
        else:
            for g, w in zip(got, wf):
                if not same(g, w, None):
                    vs.append(V("report-content", "StreamToExtended", "bracket %r, model expects %r" % (g, w)))
                    break
            rest = list(got[len(wf):])
            if wx:
                # an incomplete test without a first timestamp accepts any start time: assign brackets
                # to expected reports by maximum matching, not greedily
                from vp.matchers import _max_matching
                acc = [[same(g, w, None) for g in rest] for w in wx]
                if _max_matching(acc) != len(wx):
                    vs.append(V("report-content", "StreamToExtended-incomplete", "incomplete tests %r cannot be matched one-to-one with the brackets %r" % (wx, rest)))

    # ---- non-triviality
    keys = [(e["test_id"], e["route_code"]) for e in events if e["test_id"] is not None]
    ids_routes = collections.defaultdict(set)
    for i, r in keys:
        ids_routes[i].add(r)
    two_routes = any(len(r) > 1 for r in ids_routes.values())
    reuse = len(finals) + len(flushed) > len(set(keys))
    interleaved = False
    first, last = {}, {}
    for n, k in enumerate(keys):
        first.setdefault(k, n)
        last[k] = n
    for k in first:
        if any(first[k] < n < last[k] and kk != k for n, kk in enumerate(keys)):
            interleaved = True
    nt = two_routes or reuse or interleaved
    labels = ["two-routes" if two_routes else "", "id-reuse" if reuse else "", "interleaved" if interleaved else "",
              "has-incomplete" if flushed else "all-final", "lockstep" if lockstep else "one-by-one", "has-files" if any(r["files"] for r in allrecs) else "no-files"]
    return Case(vs, nt, [l for l in labels if l], {"reports": [r[0][:2] for r in reports]})


EVENTS = st.lists(streams.event(ids=(None, "a", "b", "c", "0/a", ""), stamps=(None, 0, 1, 2, 3, 5, "usec", "tz", "naive")), max_size=25)
NPOS = st.lists(st.integers(0, 10), max_size=25)


def _enum(maxlen):
    """All sequences up to ``maxlen`` over a reduced alphabet (exhaustive)."""
    alpha = []
    for tid, route in ((None, None), ("a", None), ("a", "0"), ("b", None)):
        for status in (None, "inprogress", "success", "fail", "exists", "skip"):
            alpha.append(dict(test_id=tid, route_code=route, test_status=status, test_tags=None, runnable=True,
                              timestamp=None, file_name=None, file_bytes=None, eof=False, mime_type=None))
        alpha.append(dict(test_id=tid, route_code=route, test_status=None, test_tags={"t"}, runnable=True,
                          timestamp=1, file_name=None, file_bytes=None, eof=False, mime_type=None))
        alpha.append(dict(test_id=tid, route_code=route, test_status=None, test_tags=None, runnable=True,
                          timestamp=2, file_name="f", file_bytes=b"1", eof=False, mime_type="text/plain"))
        alpha.append(dict(test_id=tid, route_code=route, test_status="fail", test_tags=None, runnable=True,
                          timestamp=3, file_name="f", file_bytes=b"22", eof=True, mime_type="text/plain"))

    def gen():
        for n in range(0, maxlen + 1):
            for combo in itertools.product(alpha, repeat=n):
                yield {"events": list(combo)}
    return gen, len(alpha)


def _enum4():
    """Length-4 sequences over a smaller alphabet (2 keys of one id on two routes + another id; 7 event shapes)."""
    alpha = []
    for tid, route in (("a", None), ("a", "0"), ("b", None)):
        for status in (None, "inprogress", "success", "fail", "exists"):
            alpha.append(dict(test_id=tid, route_code=route, test_status=status, test_tags=None, runnable=True,
                              timestamp=None, file_name=None, file_bytes=None, eof=False, mime_type=None))
        alpha.append(dict(test_id=tid, route_code=route, test_status=None, test_tags={"t"}, runnable=True,
                          timestamp=1, file_name="f", file_bytes=b"1", eof=False, mime_type="text/plain"))
        alpha.append(dict(test_id=tid, route_code=route, test_status="skip", test_tags=set(), runnable=True,
                          timestamp=3, file_name="f", file_bytes=b"22", eof=True, mime_type="text/plain"))

    def gen():
        for combo in itertools.product(alpha, repeat=4):
            yield {"events": list(combo)}
    return gen, len(alpha)


def subchecks(tier):
    q = tier == "quick"
    gen, k = _enum(2 if q else 3)
    gen4, k4 = _enum4()
    return [
        Sub("random_streams", run_case, st.fixed_dictionaries({"events": EVENTS, "npos": NPOS, "mode": st.sampled_from(["one-by-one", "lockstep"]),
                                                               "prelude": st.one_of(st.none(), st.none(), st.lists(streams.event(), max_size=6))}),
            2500 if q else 150000),
        Sub("many_open_tests_and_big_attachments", run_case, enum=_enum_many_open, enum_complete=True,
            note="65 / 300 / 1100 tests in progress at once; attachments of 3 x 5000, 3 x 70000, 3 x 1 MiB bytes"),
        Sub("interleaved_attachments", run_case, enum=_enum_interleaved_files, enum_complete=True,
            note="one test, attachments arriving interleaved (f, g, f, ...; also a file called 'traceback'), a text attachment cut "
                 "inside a multi-byte character, another test's events in between, every final status and none"),
        Sub("long_attachments", run_case, enum=_enum_long, enum_complete=True,
            note="one or two tests with 1, 63, 64, 65, 66, 130 chunks of one attachment"),
        Sub("enumerated_streams", run_case, enum=gen, enum_complete=True,
            note="every sequence of length <= %d over a %d-symbol alphabet" % (2 if q else 3, k)),
    ] + ([] if q else [
        Sub("enumerated_streams_len4", run_case, enum=gen4, enum_complete=True,
            note="every sequence of length exactly 4 over a reduced %d-symbol alphabet" % k4)])
