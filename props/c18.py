"""C18 - routing picks exactly one destination; route prefixes push and pop inversely."""
import itertools
import queue as queue_mod

from hypothesis import strategies as st

from vp.core import Case, Sub, V
from vp import streams

PROPERTY = "C18"
RULE = ("Model-based histories: Hypothesis draws a router configuration (fallback yes/no, its "
        "do_start_stop_run) and a sequence of add_rule(route prefix, consume) / add_rule(test id incl. "
        "None) / startTestRun / stopTestRun / status operations whose legality is tracked while drawing; "
        "every sink's log is compared with a reference router (prefix rule > id rule > fallback > raise). "
        "Second generator: events pushed through 1..3 nested StreamToQueue(code) and popped by nested "
        "routers with consuming rules must arrive unchanged. Also: any positional prefix of status(), omitted defaults and flags given as 1/0, sinks that compare equal and cannot be hashed, rules added mid-run must have been started when add_rule returns. "
        "Non-trivial: an event matched by both a prefix "
        "rule and an id rule, or a route code of >= 2 segments through a consuming rule, or a rule added "
        "mid-run; distinct = distinct canonical history.")
ASSUMPTIONS = [
    "a prefix / test id is registered at most once per router (re-registration is documented as undefined)",
    "a sink object is registered for start/stop at most once (twice would legitimately double the calls)",
    "well-formed run brackets: startTestRun and stopTestRun alternate",
]

SEGS = ["0", "1", "x", "01", "10", "worker-1", "a.b"]
ROUTE = st.one_of(st.none(), st.lists(st.sampled_from(SEGS), min_size=1, max_size=4).map("/".join))
EVENT = streams.event(routes=ROUTE)
NSINK = 4


@st.composite
def s_history(draw):
    cfg = {"fallback": draw(st.booleans()), "fb_dssr": draw(st.booleans()), "omit_defaults": draw(st.booleans()),
           "equal_sinks": draw(st.sampled_from([False, False, True])),
           "truthy_flags": draw(st.sampled_from([False, False, True]))}       # flags given as 1 / 0 instead of True / False
    if cfg["fallback"] and cfg["fb_dssr"] and draw(st.integers(0, 3)) == 0:
        # the fallback sink itself registers one more rule from inside its startTestRun / stopTestRun
        cfg["reentrant"] = {"when": draw(st.sampled_from(["start", "stop"])), "sink": 3, "test_id": "zz"}
    ops = []
    used_prefix, used_ids = set(), set()
    dssr_sinks = {0} if cfg["fallback"] and cfg["fb_dssr"] else set()
    if "reentrant" in cfg:
        dssr_sinks.add(cfg["reentrant"]["sink"])      # it will be registered for start/stop by the fallback sink
    in_run = False
    n = draw(st.integers(1, 14))
    for _ in range(n):
        kind = draw(st.sampled_from(["route", "id", "run", "ev", "ev", "ev", "bad_rule"]))
        if kind == "bad_rule":
            ops.append({"op": "bad_rule", "sink": draw(st.integers(1, NSINK - 1)), "dssr": draw(st.booleans()),
                        "how": draw(st.sampled_from(["multi-step-prefix", "unknown-policy", "bad-keyword"]))})
            continue
        if kind == "route":
            free = [s for s in SEGS if s not in used_prefix]
            if not free:
                continue
            p = draw(st.sampled_from(free))
            used_prefix.add(p)
            sink = draw(st.integers(0 if cfg["fallback"] else 1, NSINK - 1))
            dssr = draw(st.booleans()) and sink not in dssr_sinks
            if dssr:
                dssr_sinks.add(sink)
            ops.append({"op": "route", "prefix": p, "consume": draw(st.booleans()), "sink": sink, "dssr": dssr,
                        "explicit_dssr": draw(st.booleans())})
        elif kind == "id":
            free = [i for i in (None, "a", "b", "c") if i not in used_ids]
            if not free:
                continue
            i = draw(st.sampled_from(free))
            used_ids.add(i)
            sink = draw(st.integers(0 if cfg["fallback"] else 1, NSINK - 1))
            dssr = draw(st.booleans()) and sink not in dssr_sinks
            if dssr:
                dssr_sinks.add(sink)
            ops.append({"op": "id", "test_id": i, "sink": sink, "dssr": dssr, "explicit_dssr": draw(st.booleans())})
        elif kind == "run":
            ops.append({"op": "stop" if in_run else "start"})
            in_run = not in_run
        else:
            ops.append({"op": "ev", "ev": draw(EVENT), "omit_defaults": draw(st.booleans()),
                        "npos": draw(st.sampled_from([0, 0, 1, 2, 3, 9, 10]))})       # how many leading parameters are passed positionally
    if in_run and draw(st.booleans()):
        ops.append({"op": "stop"})
    return {"cfg": cfg, "ops": ops}


DEFAULTS = dict(test_id=None, test_status=None, test_tags=None, runnable=True, file_name=None,
                file_bytes=None, eof=False, mime_type=None, route_code=None, timestamp=None)


def run_history(spec):
    from testtools.testresult.real import StreamResultRouter
    cfg = spec["cfg"]
    vs = []
    Rec = streams.Recorder
    if cfg.get("equal_sinks"):
        class Rec(streams.Recorder):
            """Sinks that all compare equal and cannot be hashed (as results built on dataclasses or with a value-style
            __eq__ are): the router has to tell them apart by identity."""
            __hash__ = None

            def __eq__(self, other):
                return isinstance(other, streams.Recorder)
    sinks = [Rec("s%d" % i) for i in range(NSINK)]
    re_cfg = cfg.get("reentrant")
    fired = []
    if re_cfg:
        class Reentrant(Rec):
            def _maybe(self, when):
                if re_cfg["when"] == when and not fired:
                    fired.append(when)
                    router.add_rule(sinks[re_cfg["sink"]], "test_id", test_id=re_cfg["test_id"], do_start_stop_run=True)

            def startTestRun(self):
                streams.Recorder.startTestRun(self)
                self._maybe("start")

            def stopTestRun(self):
                streams.Recorder.stopTestRun(self)
                self._maybe("stop")
        sinks[0] = Reentrant("s0")
    if cfg["fallback"] and cfg["fb_dssr"] and cfg.get("omit_defaults"):
        router = StreamResultRouter(sinks[0])            # do_start_stop_run defaults to True
    elif cfg["fallback"]:
        router = StreamResultRouter(sinks[0], do_start_stop_run=cfg["fb_dssr"])
    else:
        router = StreamResultRouter()
    # model
    prefixes, ids = {}, {}
    dssr = [0] if cfg["fallback"] and cfg["fb_dssr"] else []
    want = [[] for _ in range(NSINK)]
    in_run = False
    both = multi = midrun = False
    model_fired = []
    for op in spec["ops"]:
        k = op["op"]
        if k in ("route", "id"):
            kw = {}
            if op["dssr"] or op["explicit_dssr"]:
                kw["do_start_stop_run"] = int(op["dssr"]) if cfg.get("truthy_flags") else op["dssr"]
            if k == "route":
                if not op["consume"] and cfg.get("omit_defaults"):
                    router.add_rule(sinks[op["sink"]], "route_code_prefix", route_prefix=op["prefix"], **kw)    # consume_route defaults to False
                else:
                    router.add_rule(sinks[op["sink"]], "route_code_prefix", route_prefix=op["prefix"],
                                    consume_route=int(op["consume"]) if cfg.get("truthy_flags") else op["consume"], **kw)
                prefixes[op["prefix"]] = (op["sink"], op["consume"])
            else:
                router.add_rule(sinks[op["sink"]], "test_id", test_id=op["test_id"], **kw)
                ids[op["test_id"]] = op["sink"]
            if op["dssr"]:
                dssr.append(op["sink"])
                if in_run:
                    want[op["sink"]].append(("startTestRun",))
                    # ... and it has been started by the time add_rule returns, not at some later event
                    got_now = [e[0] for e in sinks[op["sink"]].events if e[0] == "startTestRun"]
                    if len(got_now) != sum(1 for e in want[op["sink"]] if e[0] == "startTestRun"):
                        vs.append(V("start-stop", "midrun-not-immediate", "a rule added during a run with do_start_stop_run=True: the sink had seen %d startTestRun calls when add_rule returned, expected %d" % (
                            len(got_now), sum(1 for e in want[op["sink"]] if e[0] == "startTestRun"))))
            if in_run:
                midrun = True
        elif k == "bad_rule":
            # a rule the router must reject: nothing about the run or the sink may change
            try:
                if op["how"] == "multi-step-prefix":
                    router.add_rule(sinks[op["sink"]], "route_code_prefix", do_start_stop_run=op["dssr"], route_prefix="0/1")
                elif op["how"] == "unknown-policy":
                    router.add_rule(sinks[op["sink"]], "no-such-policy", do_start_stop_run=op["dssr"])
                else:
                    router.add_rule(sinks[op["sink"]], "test_id", do_start_stop_run=op["dssr"], route_prefix="0")
                vs.append(V("add_rule", "invalid-accepted", "add_rule accepted an invalid rule (%s)" % op["how"]))
            except (TypeError, ValueError):
                pass
        elif k == "start":
            router.startTestRun()
            in_run = True
            for s in list(dssr):
                want[s].append(("startTestRun",))
                if re_cfg and s == 0 and re_cfg["when"] == "start" and not model_fired:
                    # registered while the run is being started: it is started in this run too, once
                    model_fired.append(1)
                    ids[re_cfg["test_id"]] = re_cfg["sink"]
                    dssr.append(re_cfg["sink"])
                    want[re_cfg["sink"]].append(("startTestRun",))
        elif k == "stop":
            router.stopTestRun()
            in_run = False
            for s in list(dssr):
                want[s].append(("stopTestRun",))
                if re_cfg and s == 0 and re_cfg["when"] == "stop" and not model_fired:
                    # registered while the run is still in progress: started at once, and stopped with the run
                    model_fired.append(1)
                    ids[re_cfg["test_id"]] = re_cfg["sink"]
                    dssr.append(re_cfg["sink"])
                    want[re_cfg["sink"]].append(("startTestRun",))
                    want[re_cfg["sink"]].append(("stopTestRun",))
        else:
            ev = op["ev"]
            kw = streams.kwargs_of(ev)
            if op["omit_defaults"]:
                kw = {f: v for f, v in kw.items() if v != DEFAULTS[f]}
            exp = streams.norm_event(ev)
            rc = ev["route_code"]
            head = None if rc is None else rc.split("/")[0]
            target = None
            if head is not None and head in prefixes:
                target, consume = prefixes[head]
                if consume:
                    rest = rc.split("/")[1:]
                    exp["route_code"] = "/".join(rest) if rest else None
                    if rest:
                        multi = True
                if ev["test_id"] in ids:
                    both = True
            elif ev["test_id"] in ids:
                target = ids[ev["test_id"]]
            elif cfg["fallback"]:
                target = 0
            before = [len(s.events) for s in sinks]
            try:
                npos = op.get("npos", 0)
                pos = []
                for f in streams.FIELDS[:npos]:
                    if f not in kw:
                        break
                    pos.append(kw.pop(f))
                router.status(*pos, **kw)
                raised = None
            except Exception as e:
                raised = e
            if target is None:
                if raised is None:
                    vs.append(V("route", "no-destination-silent", "event %r has no destination and no fallback, yet status() returned" % (ev,)))
                if [len(s.events) for s in sinks] != before:
                    vs.append(V("route", "no-destination-delivered", "event without destination was delivered somewhere"))
            else:
                if raised is not None:
                    vs.append(V("route", "raises-%s" % type(raised).__name__, "status(%r) raised %r" % (ev, raised)))
                want[target].append(("status", exp))
    for i, s in enumerate(sinks):
        got = s.events
        if got != want[i]:
            gk, wk = [e[0] for e in got], [e[0] for e in want[i]]
            if gk != wk:
                gs = sum(1 for e in got if e[0] == "status")
                ws = sum(1 for e in want[i] if e[0] == "status")
                if gs != ws:
                    vs.append(V("route", "wrong-destination", "sink %d received %d status events, model routes %d to it (all sinks: got %r want %r)" % (
                        i, gs, ws, [sum(1 for e in x.events if e[0] == "status") for x in sinks],
                        [sum(1 for e in w if e[0] == "status") for w in want])))
                else:
                    vs.append(V("start-stop", "midrun" if midrun else "plain", "sink %d saw %r, model expects %r" % (i, gk, wk)))
            else:
                for g, w in zip(got, want[i]):
                    if g != w:
                        f = [f for f in streams.FIELDS if g[1][f] != w[1][f]]
                        vs.append(V("fields", ",".join(f), "sink %d received %r, model expects %r" % (
                            i, {x: g[1][x] for x in f}, {x: w[1][x] for x in f})))
                        break
    nt = both or multi or midrun
    return Case(vs, nt, ["overlap" if both else "", "multi-seg-consume" if multi else "", "midrun-rule" if midrun else "",
                         "fallback" if cfg["fallback"] else "no-fallback"], {"counts": [len(s.events) for s in sinks]})


# ---------------------------------------------------------------- queue o router = identity
@st.composite
def s_inverse(draw):
    codes = draw(st.lists(st.sampled_from(SEGS), min_size=1, max_size=3))
    return {"codes": codes, "events": draw(st.lists(EVENT, min_size=1, max_size=5)),
            "run": draw(st.booleans())}


def run_inverse(spec):
    from testtools.testresult.real import StreamResultRouter, StreamToQueue
    vs = []
    codes = spec["codes"]
    final = streams.Recorder("final")
    # routers: outermost code is popped first
    target = final
    for code in codes:            # codes[0] is pushed first (innermost queue), popped last
        r = StreamResultRouter()
        r.add_rule(target, "route_code_prefix", route_prefix=code, consume_route=True, do_start_stop_run=True)
        target = r
    entry_router = target
    queues = []
    qs = []
    for code in codes:
        q = queue_mod.Queue()
        qs.append((q, StreamToQueue(q, code)))
    # chain: events enter qs[0]; drained into qs[1] ...; last drained into entry_router
    first = qs[0][1]
    if spec["run"]:
        first.startTestRun()
    for ev in spec["events"]:
        first.status(**streams.kwargs_of(ev))
    if spec["run"]:
        first.stopTestRun()
    for i, (q, s) in enumerate(qs):
        nxt = qs[i + 1][1] if i + 1 < len(qs) else entry_router
        while not q.empty():
            item = dict(q.get())
            kind = item.pop("event")
            if kind == "status":
                try:
                    nxt.status(**item)
                except Exception as e:
                    vs.append(V("inverse", "raises-%s" % type(e).__name__, "router raised %r for %r" % (e, item)))
                    return Case(vs, True, ["raised"])
            else:
                getattr(nxt, kind)()
    want = [streams.norm_event(ev) for ev in spec["events"]]
    got = final.statuses()
    if len(got) != len(want):
        vs.append(V("inverse", "count", "%d events arrive, %d sent" % (len(got), len(want))))
    else:
        for g, w in zip(got, want):
            if g != w:
                f = [f for f in streams.FIELDS if g[f] != w[f]]
                vs.append(V("inverse", ",".join(f), "through codes %r: arrived %r, sent %r" % (
                    codes, {x: g[x] for x in f}, {x: w[x] for x in f})))
                break
    exp = 1 if spec["run"] else 0
    starts = sum(1 for e in final.events if e[0] == "startTestRun")
    stops = sum(1 for e in final.events if e[0] == "stopTestRun")
    if (starts, stops) != (exp, exp):
        vs.append(V("inverse", "start-stop", "final sink saw %d/%d start/stop, expected %d" % (starts, stops, exp)))
    nt = len(codes) >= 2 or any(e["route_code"] and "/" in e["route_code"] for e in spec["events"])
    return Case(vs, nt, ["depth=%d" % len(codes)], {"routes": [g["route_code"] for g in got]})


def _enum():
    """Exhaustive: <= 2 rules x every single event shape over the route/id alphabets."""
    routes = [None, "0", "1", "0/0", "0/1", "1/0", "0/0/1", "01/0", "0/01", "x/0/1/0"]
    ids = [None, "a", "b"]
    rules = [None]
    for p in ("0", "01"):
        for consume in (False, True):
            rules.append({"op": "route", "prefix": p, "consume": consume, "sink": 1, "dssr": False, "explicit_dssr": False})
    for i in (None, "a"):
        rules.append({"op": "id", "test_id": i, "sink": 2, "dssr": False, "explicit_dssr": True})
    for fb in (False, True):
        for r1, r2 in itertools.product(rules, rules):
            if r1 is not None and r2 is not None and r1["op"] == r2["op"] and \
                    r1.get("prefix") == r2.get("prefix") and r1.get("test_id") == r2.get("test_id"):
                continue
            same_kind = r1 is not None and r2 is not None and r1["op"] == r2["op"]
            r2b = None if r2 is None else dict(r2, sink=3 if same_kind else r2["sink"])
            for rc in routes:
                for tid in ids:
                    ev = dict(test_id=tid, test_status="success", test_tags=None, runnable=True, route_code=rc,
                              timestamp=None, file_name=None, file_bytes=None, eof=False, mime_type=None)
                    ops = [r for r in (r1, r2b) if r is not None] + [{"op": "ev", "ev": ev, "omit_defaults": True}]
                    yield {"cfg": {"fallback": fb, "fb_dssr": True}, "ops": ops}


def subchecks(tier):
    q = tier == "quick"
    return [
        Sub("router_histories", run_history, s_history(), 2500 if q else 150000),
        Sub("queue_router_inverse", run_inverse, s_inverse(), 1200 if q else 60000),
        Sub("enumerated_rules_x_events", run_history, enum=_enum, enum_complete=True,
            note="every pair of <=2 rules from a 7-rule alphabet x 10 route codes x 3 test ids x fallback on/off"),
    ]
