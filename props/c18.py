"""C18 - routing picks exactly one destination; route prefixes push and pop inversely."""
import contextlib
import itertools
import queue as queue_mod
import signal
import threading

from hypothesis import strategies as st

from vp.core import Case, Sub, V
from vp import streams

PROPERTY = "C18"
RULE = ("Model-based histories: Hypothesis draws a router configuration (fallback yes/no, its "
        "do_start_stop_run) and a sequence of add_rule(route prefix, consume) / add_rule(test id incl. "
        "None) / startTestRun / stopTestRun / status operations whose legality is tracked while drawing; "
        "every sink's log is compared with a reference router (prefix rule > id rule > fallback > raise). "
        "Second generator: events pushed through 1..3 nested StreamToQueue(code) and popped by nested "
        "routers with consuming rules must arrive unchanged. Also: any positional prefix of status(), omitted defaults and flags given as 1/0 (a router that refuses a non-bool flag gets the bool), sinks that compare equal and hash alike, rules added mid-run must have been started when add_rule returns. "
        "Also: the three spellings of add_rule and of the constructor (flag by keyword, flag positional, everything by "
        "keyword) with the constructor's flag given as 1/0 too; segments and test ids that are neighbours of a rule "
        "(case, blank, regex wildcard, dotted child, an id that equals a prefix), half of the events aimed at a "
        "registered prefix or a near miss of it; a fallback sink that registers a rule and hands the event to the router "
        "again from inside its own status(), and the rule registered from inside startTestRun/stopTestRun is then routed "
        "to; every delivered field keeps its type (tags stay a set, bool stays bool) and a timestamp its utcoffset "
        "(aware non-UTC, naive and microsecond stamps are drawn); StreamToQueue is used for a second run and after "
        "stopTestRun, with omitted defaults; a history that does not return is reported as a hang. Small exhaustive "
        "grids pin all of these at every seed. "
        "Non-trivial: an event matched by both a prefix "
        "rule and an id rule, or a route code of >= 2 segments through a consuming rule, or a rule added "
        "mid-run; distinct = distinct canonical history.")
ASSUMPTIONS = [
    "a prefix / test id is registered at most once per router (re-registration is documented as undefined)",
    "a sink object is registered for start/stop at most once (twice would legitimately double the calls)",
    "sinks are told apart by identity: two sink objects that compare equal (and hash alike) are two sinks, each gets "
    "its own events and start/stop calls; sinks are hashable, as every StreamResult of the library is",
    "flags ('If True' / 'If False' in the docstrings) are given as True / False or as 1 / 0; a router may read them by "
    "truthiness or refuse the non-bool, without effect - the call is then repeated with the bool",
    "re-entrant use, which the statement's linear histories do not cover: a sink may call add_rule from inside its "
    "own status() and hand the event to router.status() again (the class docstring's 'create them as-needed from the "
    "fallback handler'), and from inside its startTestRun/stopTestRun; the router does not block (a hang is "
    "reported); it may refuse the nested status(), or the add_rule made from inside startTestRun/stopTestRun, with an "
    "exception and without delivering anything - the model then takes the refused call as not made; add_rule from "
    "inside the fallback's status() has to work; a rule that was registered from inside startTestRun gets its start "
    "in that run",
    "well-formed run brackets: startTestRun and stopTestRun alternate",
    "a rule registered from inside a sink's stopTestRun, i.e. while the run is being closed, may be treated either "
    "way: the new sink gets startTestRun and stopTestRun in that same dispatch, or neither; only the unbalanced "
    "outcomes are violations (the statement does not say whether the run is still 'in progress' at that point)",
    "invalid rules (unknown policy, an argument the policy does not take) are rejected with some exception and "
    "without any effect - in particular the sink is not registered for start/stop; the statement is silent about "
    "them, the add_rule docstring promises the exception. A route prefix of more than one step is refused only by "
    "the code: a router may refuse it (without effect) or take it as a rule that no event matches, since only the "
    "first segment is looked up, whose sink is registered for start/stop as for any rule - a router that gave "
    "multi-step prefixes a meaning would need a new model",
    "add_rule(sink, policy, do_start_stop_run, **policy_args) and StreamResultRouter(fallback, do_start_stop_run) "
    "accept their parameters positionally or by these names (the documented signatures)",
    "a field is 'unchanged' when it compares equal, has the same type (for test_tags: is still a set or frozenset) "
    "and, for a timestamp, the same utcoffset",
    "wall clock, one place: a single history (milliseconds of work) that has not returned after 120 s is reported as "
    "a hang (start-stop:hang); after one such hang the limit drops to 3 s so that shrinking terminates",
]

SEGS = ["0", "1", "x", "01", "10", "worker-1", "a.b", "W1", "é"]          # the rule prefixes
# a segment that must NOT be matched by the rule for the key (blank, regex wildcard, case, accent, truncation)
NEIGHBOUR = {"0": "00", "1": " 1", "x": " x", "01": "1", "10": "1O", "worker-1": "worker", "a.b": "axb", "W1": "w1",
             "é": "e"}
EV_SEGS = SEGS + ["axb", " x", "w1"]
IDS = (None, "a", "a.b", "0", "c")          # "a.b" and "0" are route segments as well; "a.b" is a dotted child of "a"
RE_ID = "c"                                 # the id of the rule a sink registers re-entrantly
STAMPS = (None, 0, 1, "tz", "naive", "usec")
ROUTE = st.one_of(st.none(), st.lists(st.sampled_from(EV_SEGS), min_size=1, max_size=4).map("/".join))
EVENT = streams.event(ids=IDS, routes=ROUTE, stamps=STAMPS)
NSINK = 4


@st.composite
def s_history(draw):
    cfg = {"fallback": draw(st.booleans()), "fb_dssr": draw(st.booleans()), "omit_defaults": draw(st.booleans()),
           "equal_sinks": draw(st.sampled_from([False, False, True])),
           "truthy_flags": draw(st.sampled_from([False, False, True])),       # flags given as 1 / 0 instead of True / False
           "ctor": draw(st.sampled_from(["pos", "pos", "kw", "pos2"]))}       # how the constructor is spelled
    used_prefix, used_ids = [], set()
    if cfg["fallback"]:
        r = draw(st.integers(0, 7))
        if cfg["fb_dssr"] and r < 2:
            # the fallback sink itself registers one more rule from inside its startTestRun / stopTestRun
            cfg["reentrant"] = {"when": draw(st.sampled_from(["start", "stop"])), "sink": 3, "test_id": RE_ID}
        elif r == 2:
            # ... or from inside its status(), and hands the event to the router again (the class docstring's
            # "create them as-needed from the fallback handler")
            cfg["reentrant"] = {"when": "status", "sink": 3, "test_id": RE_ID}
    ops = []
    dssr_sinks = {0} if cfg["fallback"] and cfg["fb_dssr"] else set()
    if "reentrant" in cfg:
        dssr_sinks.add(cfg["reentrant"]["sink"])      # it will be registered for start/stop by the fallback sink
        used_ids.add(RE_ID)                           # ... under this id, which no other rule may take
    in_run = False
    n = draw(st.integers(1, 14))
    for _ in range(n):
        kind = draw(st.sampled_from(["route", "id", "run", "ev", "ev", "ev", "bad_rule"]))
        if kind == "bad_rule":
            ops.append({"op": "bad_rule", "sink": draw(st.integers(1, NSINK - 1)), "dssr": draw(st.booleans()),
                        "how": draw(st.sampled_from(["multi-step-prefix", "unknown-policy", "bad-keyword"]))})
            continue
        if kind == "route":
            free = [s for s in SEGS if s not in used_prefix]
            if not free:
                continue
            p = draw(st.sampled_from(free))
            used_prefix.append(p)
            sink = draw(st.integers(0 if cfg["fallback"] else 1, NSINK - 1))
            dssr = draw(st.booleans()) and sink not in dssr_sinks
            if dssr:
                dssr_sinks.add(sink)
            ops.append({"op": "route", "prefix": p, "consume": draw(st.booleans()), "sink": sink, "dssr": dssr,
                        "explicit_dssr": draw(st.booleans()), "spell": draw(st.sampled_from(["kw", "kw", "pos", "named"]))})
        elif kind == "id":
            free = [i for i in IDS if i not in used_ids]
            if not free:
                continue
            i = draw(st.sampled_from(free))
            used_ids.add(i)
            sink = draw(st.integers(0 if cfg["fallback"] else 1, NSINK - 1))
            dssr = draw(st.booleans()) and sink not in dssr_sinks
            if dssr:
                dssr_sinks.add(sink)
            ops.append({"op": "id", "test_id": i, "sink": sink, "dssr": dssr, "explicit_dssr": draw(st.booleans()),
                        "spell": draw(st.sampled_from(["kw", "kw", "pos", "named"]))})
        elif kind == "run":
            ops.append({"op": "stop" if in_run else "start"})
            in_run = not in_run
        else:
            ev = draw(EVENT)
            if used_prefix and draw(st.booleans()):
                # aim the event at a registered prefix, or at a near miss of one
                p = draw(st.sampled_from(used_prefix))
                if draw(st.integers(0, 3)) == 0:
                    p = NEIGHBOUR[p]
                rest = ev["route_code"].split("/")[1:] if ev["route_code"] else []
                ev = dict(ev, route_code="/".join([p] + rest))
            ops.append({"op": "ev", "ev": ev, "omit_defaults": draw(st.booleans()),
                        "npos": draw(st.sampled_from([0, 0, 1, 2, 3, 9, 10]))})       # how many leading parameters are passed positionally
    if in_run and draw(st.booleans()):
        ops.append({"op": "stop"})
    return {"cfg": cfg, "ops": ops}


DEFAULTS = dict(test_id=None, test_status=None, test_tags=None, runnable=True, file_name=None,
                file_bytes=None, eof=False, mime_type=None, route_code=None, timestamp=None)


class _Hang(BaseException):
    """Raised by the alarm handler inside a history that does not return."""


_HANG_LIMIT = [120.0]


@contextlib.contextmanager
def _watchdog():
    """A deadlock inside the router (say a non-re-entrant lock around add_rule and startTestRun) must end as a
    reported case, not as a check that never returns.  Main thread only (signals)."""
    if not hasattr(signal, "setitimer") or threading.current_thread() is not threading.main_thread():
        yield
        return

    def on_alarm(signum, frame):
        raise _Hang()
    old = signal.signal(signal.SIGALRM, on_alarm)
    outer = signal.setitimer(signal.ITIMER_REAL, _HANG_LIMIT[0])
    try:
        yield
    finally:
        signal.setitimer(signal.ITIMER_REAL, 0)
        signal.signal(signal.SIGALRM, old)
        if outer[0] > 0:
            signal.setitimer(signal.ITIMER_REAL, *outer)      # a timer somebody else had armed is handed back


def strict_diff(live, w):
    """Fields of a delivered event (the live argument objects) that compare equal to the model's but are not
    'unchanged': another type, tags that are no longer a set, a timestamp moved to another offset."""
    out = []
    for f in streams.FIELDS:
        a, b = live[f], w[f]
        if f == "test_tags":
            if b is not None and not isinstance(a, (set, frozenset)):
                out.append(f)
        elif type(a) is not type(b):
            out.append(f)
        elif f == "timestamp" and a is not None and a.utcoffset() != b.utcoffset():
            out.append(f)
    return out


def run_history(spec):
    try:
        with _watchdog():
            return _run_history(spec)
    except _Hang:
        limit = _HANG_LIMIT[0]
        _HANG_LIMIT[0] = 3.0
        return Case([V("start-stop", "hang", "the history did not return within %g s (a deadlock when a sink calls "
                       "add_rule from inside startTestRun/stopTestRun/status?)" % limit)], False, ["hang"])


def _run_history(spec):
    from testtools.testresult.real import StreamResultRouter
    cfg = spec["cfg"]
    vs = []
    Rec = streams.Recorder
    if cfg.get("equal_sinks"):
        class Rec(streams.Recorder):
            """Sinks that all compare equal (as results with a value-style __eq__ do) and, as the hash contract then
            demands, hash alike: the router has to tell them apart by identity.  They stay hashable - every
            StreamResult of the library is, and nothing says that a router may not keep its sinks in a set or dict."""

            def __eq__(self, other):
                return isinstance(other, streams.Recorder)

            def __hash__(self):
                return 18
    sinks = [Rec("s%d" % i) for i in range(NSINK)]
    re_cfg = cfg.get("reentrant")
    fired = []
    refused = {}         # "add_rule" / "status" -> the exception with which the router refused that nested call

    def nothing_happened(before):
        return [len(s.events) for s in sinks] == before

    if re_cfg:
        class Reentrant(Rec):
            def _maybe(self, when):
                if re_cfg["when"] == when and not fired:
                    fired.append(when)
                    before = [len(s.events) for s in sinks]
                    try:
                        router.add_rule(sinks[re_cfg["sink"]], "test_id", test_id=re_cfg["test_id"], do_start_stop_run=True)
                    except Exception as e:
                        # A router may refuse add_rule while it is dispatching startTestRun / stopTestRun (the
                        # statement orders add_rule relative to them, it does not nest them) - cleanly: nothing is
                        # delivered and, as the model then assumes, no rule exists afterwards.  From inside status()
                        # the class docstring promises that it works.
                        if when == "status" or not nothing_happened(before):
                            raise
                        refused["add_rule"] = e
                        return False
                    return True
                return False

            def startTestRun(self):
                streams.Recorder.startTestRun(self)
                self._maybe("start")

            def stopTestRun(self):
                streams.Recorder.stopTestRun(self)
                self._maybe("stop")

            def status(self, test_id=None, test_status=None, test_tags=None, runnable=True, file_name=None,
                       file_bytes=None, eof=False, mime_type=None, route_code=None, timestamp=None):
                streams.Recorder.status(self, test_id, test_status, test_tags, runnable, file_name, file_bytes, eof,
                                        mime_type, route_code, timestamp)
                if test_id == re_cfg["test_id"] and self._maybe("status"):
                    # now that there is a rule for it, the event goes to the router once more, as it was received
                    before = [len(s.events) for s in sinks]
                    try:
                        router.status(test_id=test_id, test_status=test_status, test_tags=test_tags, runnable=runnable,
                                      file_name=file_name, file_bytes=file_bytes, eof=eof, mime_type=mime_type,
                                      route_code=route_code, timestamp=timestamp)
                    except Exception as e:
                        # a router may refuse a nested status() (nothing promises re-entrancy) - without delivering
                        if not nothing_happened(before):
                            raise
                        refused["status"] = e
        sinks[0] = Reentrant("s0")
    flag = int(cfg["fb_dssr"]) if cfg.get("truthy_flags") else cfg["fb_dssr"]
    ctor = cfg.get("ctor", "pos")
    def construct(flag):
        if cfg["fallback"] and cfg["fb_dssr"] and cfg.get("omit_defaults"):
            # do_start_stop_run defaults to True
            return StreamResultRouter(fallback=sinks[0]) if ctor == "kw" else StreamResultRouter(sinks[0])
        if cfg["fallback"]:
            if ctor == "kw":
                return StreamResultRouter(fallback=sinks[0], do_start_stop_run=flag)
            if ctor == "pos2":
                return StreamResultRouter(sinks[0], flag)
            return StreamResultRouter(sinks[0], do_start_stop_run=flag)
        return StreamResultRouter()
    try:
        try:
            router = construct(flag)
        except Exception:
            # "If True" / "If False" in the docstrings: a router that reads the flag by truthiness has to read 1 / 0
            # like True / False, one that insists on real bools may refuse them - then it gets the bool
            if type(flag) is bool:
                raise
            flag = bool(flag)
            router = construct(flag)
    except Exception as e:
        # (a TypeError from argument binding has no frame inside the library: it must not end as a harness error)
        return Case([V("construct", "raises-%s" % type(e).__name__, "StreamResultRouter(%s fallback, flag %r, spelling %r) raised %r" % (
            "a" if cfg["fallback"] else "no", flag, ctor, e))], False, ["raised"])
    # model
    prefixes, ids = {}, {}
    dssr = [0] if cfg["fallback"] and cfg["fb_dssr"] else []
    want = [[] for _ in range(NSINK)]
    optional = {}        # sink -> index in want[sink] of a (startTestRun, stopTestRun) pair that may be absent
    unsure = set()       # sinks whose start/stop calls are not compared
    rejected = set()     # sinks of rules that were refused although they asked for start/stop
    in_run = False
    both = multi = midrun = False
    model_fired = []

    def register(sink):
        """The model's start/stop registration.  A sink that is registered twice (possible only after a router took a
        multi-step prefix) is outside the ASSUMPTIONS: its start/stop calls are not compared."""
        if sink in dssr:
            unsure.add(sink)
        dssr.append(sink)

    def model_status(exp):
        """Route one event (as a Recorder snapshot) through the reference router; False = no destination."""
        nonlocal both, multi
        rc = exp["route_code"]
        head = None if rc is None else rc.split("/")[0]
        if head is not None and head in prefixes:
            target, consume = prefixes[head]
            if consume:
                rest = rc.split("/")[1:]
                exp = dict(exp, route_code="/".join(rest) if rest else None)
                if rest:
                    multi = True
            if exp["test_id"] in ids:
                both = True
        elif exp["test_id"] in ids:
            target = ids[exp["test_id"]]
        elif cfg["fallback"]:
            target = 0
        else:
            return False
        want[target].append(("status", exp))
        if target == 0 and re_cfg and re_cfg["when"] == "status" and not model_fired and exp["test_id"] == re_cfg["test_id"]:
            # sink 0 registers the rule (started at once when a run is in progress) and resubmits what it received
            model_fired.append(1)
            ids[re_cfg["test_id"]] = re_cfg["sink"]
            register(re_cfg["sink"])
            if in_run:
                want[re_cfg["sink"]].append(("startTestRun",))
            if "status" not in refused:
                model_status(exp)
        return True

    for op in spec["ops"]:
        k = op["op"]
        if k in ("route", "id"):
            kw = {}
            spell = op.get("spell", "kw")
            if op["dssr"] or op["explicit_dssr"] or spell == "pos":
                kw["do_start_stop_run"] = int(op["dssr"]) if cfg.get("truthy_flags") else op["dssr"]
            if k == "route":
                pa = {"route_prefix": op["prefix"]}
                if op["consume"] or not cfg.get("omit_defaults"):         # consume_route defaults to False
                    pa["consume_route"] = int(op["consume"]) if cfg.get("truthy_flags") else op["consume"]
                policy = "route_code_prefix"
            else:
                pa = {"test_id": op["test_id"]}
                policy = "test_id"
            def add(kw, pa):
                if spell == "pos":
                    router.add_rule(sinks[op["sink"]], policy, kw["do_start_stop_run"], **pa)
                elif spell == "named":
                    router.add_rule(sink=sinks[op["sink"]], policy=policy, **kw, **pa)
                else:
                    router.add_rule(sinks[op["sink"]], policy, **kw, **pa)
            try:
                try:
                    add(kw, pa)
                except Exception:
                    # flags given as 1 / 0 may be refused by a router that insists on real bools (see the constructor);
                    # the refusal must have had no effect, the rule is then added with bools
                    if not any(type(v) is int for d in (kw, pa) for v in d.values()):
                        raise
                    kw, pa = [{f: bool(v) if type(v) is int else v for f, v in d.items()} for d in (kw, pa)]
                    add(kw, pa)
            except Exception as e:
                # the histories that follow are meaningless once a legal rule has been refused
                return Case(vs + [V("add_rule", "raises-%s" % type(e).__name__, "add_rule(%r, %r, %r), spelled %r, raised %r" % (
                    policy, kw, pa, spell, e))], False, ["raised"])
            if k == "route":
                prefixes[op["prefix"]] = (op["sink"], op["consume"])
            else:
                ids[op["test_id"]] = op["sink"]
            if op["dssr"]:
                register(op["sink"])
                if in_run:
                    want[op["sink"]].append(("startTestRun",))
                    # ... and it has been started by the time add_rule returns, not at some later event
                    got_now = [e[0] for e in sinks[op["sink"]].events if e[0] == "startTestRun"]
                    if op["sink"] not in unsure and len(got_now) != sum(1 for e in want[op["sink"]] if e[0] == "startTestRun"):
                        vs.append(V("start-stop", "midrun-not-immediate", "a rule added during a run with do_start_stop_run=True: the sink had seen %d startTestRun calls when add_rule returned, expected %d" % (
                            len(got_now), sum(1 for e in want[op["sink"]] if e[0] == "startTestRun"))))
            if in_run:
                midrun = True
        elif k == "bad_rule":
            # a rule the router must reject: nothing about the run or the sink may change (the class of the exception
            # is not the property's business)
            try:
                if op["how"] == "multi-step-prefix":
                    router.add_rule(sinks[op["sink"]], "route_code_prefix", do_start_stop_run=op["dssr"], route_prefix="0/1")
                elif op["how"] == "unknown-policy":
                    router.add_rule(sinks[op["sink"]], "no-such-policy", do_start_stop_run=op["dssr"])
                else:
                    router.add_rule(sinks[op["sink"]], "test_id", do_start_stop_run=op["dssr"], route_prefix="0")
                if op["how"] == "multi-step-prefix":
                    # Only the code says that such a prefix is refused.  A router that takes it has a rule that no
                    # event can match (the rule for the FIRST segment is looked up, and a segment holds no "/"), whose
                    # sink is registered for start/stop like that of any other rule.
                    if op["dssr"]:
                        register(op["sink"])
                        if in_run:
                            want[op["sink"]].append(("startTestRun",))
                else:
                    vs.append(V("add_rule", "invalid-accepted", "add_rule accepted an invalid rule (%s)" % op["how"]))
            except Exception:
                if op["dssr"]:
                    rejected.add(op["sink"])
        elif k == "start":
            router.startTestRun()
            in_run = True
            for s in list(dssr):
                want[s].append(("startTestRun",))
                if re_cfg and s == 0 and re_cfg["when"] == "start" and not model_fired:
                    # registered while the run is being started: it is started in this run too, once
                    model_fired.append(1)
                    if "add_rule" in refused:
                        continue
                    ids[re_cfg["test_id"]] = re_cfg["sink"]
                    register(re_cfg["sink"])
                    want[re_cfg["sink"]].append(("startTestRun",))
        elif k == "stop":
            router.stopTestRun()
            in_run = False
            for s in list(dssr):
                want[s].append(("stopTestRun",))
                if re_cfg and s == 0 and re_cfg["when"] == "stop" and not model_fired:
                    # registered while the run is being closed: either still part of this run (started at once, and
                    # stopped with the run) or not (neither call) - see ASSUMPTIONS
                    model_fired.append(1)
                    if "add_rule" in refused:
                        continue
                    ids[re_cfg["test_id"]] = re_cfg["sink"]
                    register(re_cfg["sink"])
                    optional[re_cfg["sink"]] = len(want[re_cfg["sink"]])
                    want[re_cfg["sink"]].append(("startTestRun",))
                    want[re_cfg["sink"]].append(("stopTestRun",))
        else:
            ev = op["ev"]
            kw = streams.kwargs_of(ev)
            if op["omit_defaults"]:
                kw = {f: v for f, v in kw.items() if v != DEFAULTS[f]}
            before = [len(s.events) for s in sinks]
            try:
                npos = op.get("npos", 0)
                pos = []
                for f in streams.FIELDS[:npos]:
                    if f not in kw:
                        break
                    pos.append(kw.pop(f))
                router.status(*pos, **kw)
                raised = None
            except Exception as e:
                raised = e
            if not model_status(streams.norm_event(ev)):
                if raised is None:
                    vs.append(V("route", "no-destination-silent", "event %r has no destination and no fallback, yet status() returned" % (ev,)))
                if [len(s.events) for s in sinks] != before:
                    vs.append(V("route", "no-destination-delivered", "event without destination was delivered somewhere"))
            elif raised is not None:
                vs.append(V("route", "raises-%s" % type(raised).__name__, "status(%r) raised %r" % (ev, raised)))
    for i, s in enumerate(sinks):
        got = s.events
        exp_i = want[i]
        if i in unsure:
            got = [e for e in got if e[0] == "status"]
            exp_i = [e for e in exp_i if e[0] == "status"]
        gk = [e[0] for e in got]
        if i in optional:
            alt = want[i][:optional[i]] + want[i][optional[i] + 2:]
            if gk != [e[0] for e in exp_i] and gk == [e[0] for e in alt]:
                exp_i = alt
        if got != exp_i:
            wk = [e[0] for e in exp_i]
            if gk != wk:
                gs = sum(1 for e in got if e[0] == "status")
                ws = sum(1 for e in exp_i if e[0] == "status")
                if gs != ws:
                    vs.append(V("route", "wrong-destination", "sink %d received %d status events, model routes %d to it (all sinks: got %r want %r)" % (
                        i, gs, ws, [sum(1 for e in x.events if e[0] == "status") for x in sinks],
                        [sum(1 for e in w if e[0] == "status") for w in want])))
                else:
                    vs.append(V("start-stop", "midrun" if midrun else "plain", "sink %d saw %r, model expects %r%s" % (
                        i, gk, wk, " (an add_rule for this sink with do_start_stop_run=True was refused during the history: "
                        "a refused rule must leave no trace)" if i in rejected else "")))
            else:
                for g, w in zip(got, exp_i):
                    if g != w:
                        f = [f for f in streams.FIELDS if g[1][f] != w[1][f]]
                        vs.append(V("fields", ",".join(f), "sink %d received %r, model expects %r" % (
                            i, {x: g[1][x] for x in f}, {x: w[1][x] for x in f})))
                        break
        else:
            for live, w in zip(s.live, [e[1] for e in exp_i if e[0] == "status"]):
                f = strict_diff(live, w)
                if f:
                    vs.append(V("fields", "type:" + ",".join(f), "sink %d received %r, sent were %r" % (
                        i, {x: live[x] for x in f}, {x: w[x] for x in f})))
                    break
    nt = both or multi or midrun
    return Case(vs, nt, ["overlap" if both else "", "multi-seg-consume" if multi else "", "midrun-rule" if midrun else "",
                         "fallback" if cfg["fallback"] else "no-fallback"], {"counts": [len(s.events) for s in sinks]})


# ---------------------------------------------------------------- queue o router = identity
ROUND1 = st.fixed_dictionaries({"run": st.booleans(), "events": st.lists(EVENT, min_size=1, max_size=4)})
ROUND2 = st.fixed_dictionaries({"run": st.booleans(), "events": st.lists(EVENT, min_size=1, max_size=2)})


@st.composite
def s_inverse(draw):
    codes = draw(st.lists(st.sampled_from(SEGS), min_size=1, max_size=3))
    rounds = [draw(ROUND1)]
    if draw(st.integers(0, 2)) == 0:
        rounds.append(draw(ROUND2))     # the same StreamToQueue objects are used again: a second run, or events after stopTestRun
    return {"codes": codes, "rounds": rounds, "omit_defaults": draw(st.booleans())}


def run_inverse(spec):
    from testtools.testresult.real import StreamResultRouter, StreamToQueue
    vs = []
    codes = spec["codes"]
    rounds = spec.get("rounds") or [{"run": spec["run"], "events": spec["events"]}]
    final = streams.Recorder("final")
    # routers: outermost code is popped first
    target = final
    for code in codes:            # codes[0] is pushed first (innermost queue), popped last
        r = StreamResultRouter()
        r.add_rule(target, "route_code_prefix", route_prefix=code, consume_route=True, do_start_stop_run=True)
        target = r
    entry_router = target
    qs = []
    for code in codes:
        q = queue_mod.Queue()
        qs.append((q, StreamToQueue(q, code)))
    # chain: events enter qs[0]; drained into qs[1] ...; last drained into entry_router
    first = qs[0][1]
    sent = []
    for rnd in rounds:
        if rnd["run"]:
            first.startTestRun()
        for ev in rnd["events"]:
            kw = streams.kwargs_of(ev)
            if spec.get("omit_defaults"):
                kw = {f: v for f, v in kw.items() if v != DEFAULTS[f]}
            first.status(**kw)
            sent.append(ev)
        if rnd["run"]:
            first.stopTestRun()
        for i, (q, s) in enumerate(qs):
            nxt = qs[i + 1][1] if i + 1 < len(qs) else entry_router
            while not q.empty():
                item = dict(q.get())
                kind = item.pop("event")
                if kind == "status":
                    try:
                        nxt.status(**item)
                    except Exception as e:
                        vs.append(V("inverse", "raises-%s" % type(e).__name__, "router raised %r for %r" % (e, item)))
                        return Case(vs, True, ["raised"])
                else:
                    getattr(nxt, kind)()
    want = [streams.norm_event(ev) for ev in sent]
    got = final.statuses()
    if len(got) != len(want):
        vs.append(V("inverse", "count", "%d events arrive, %d sent" % (len(got), len(want))))
    else:
        for g, w, live in zip(got, want, final.live):
            f = [f for f in streams.FIELDS if g[f] != w[f]]
            if f:
                vs.append(V("inverse", ",".join(f), "through codes %r: arrived %r, sent %r" % (
                    codes, {x: g[x] for x in f}, {x: w[x] for x in f})))
                break
            f = strict_diff(live, w)
            if f:
                vs.append(V("inverse", "type:" + ",".join(f), "through codes %r: arrived %r, sent %r" % (
                    codes, {x: live[x] for x in f}, {x: w[x] for x in f})))
                break
    exp = sum(1 for rnd in rounds if rnd["run"])
    starts = sum(1 for e in final.events if e[0] == "startTestRun")
    stops = sum(1 for e in final.events if e[0] == "stopTestRun")
    if (starts, stops) != (exp, exp):
        vs.append(V("inverse", "start-stop", "final sink saw %d/%d start/stop, expected %d" % (starts, stops, exp)))
    nt = len(codes) >= 2 or any(e["route_code"] and "/" in e["route_code"] for e in sent)
    return Case(vs, nt, ["depth=%d" % len(codes), "rounds=%d" % len(rounds)], {"routes": [g["route_code"] for g in got]})


def _ev(tid=None, rc=None, **more):
    ev = dict(test_id=tid, test_status="success", test_tags=None, runnable=True, route_code=rc,
              timestamp=None, file_name=None, file_bytes=None, eof=False, mime_type=None)
    ev.update(more)
    return ev


def _enum():
    """Exhaustive: <= 2 rules x every single event shape over the route/id alphabets."""
    routes = [None, "0", "1", "0/0", "0/1", "1/0", "0/0/1", "01/0", "0/01", "x/0/1/0"]
    ids = [None, "a", "b"]
    rules = [None]
    for p in ("0", "01"):
        for consume in (False, True):
            rules.append({"op": "route", "prefix": p, "consume": consume, "sink": 1, "dssr": False, "explicit_dssr": False})
    for i in (None, "a"):
        rules.append({"op": "id", "test_id": i, "sink": 2, "dssr": False, "explicit_dssr": True})
    for fb in (False, True):
        for r1, r2 in itertools.product(rules, rules):
            if r1 is not None and r2 is not None and r1["op"] == r2["op"] and \
                    r1.get("prefix") == r2.get("prefix") and r1.get("test_id") == r2.get("test_id"):
                continue
            same_kind = r1 is not None and r2 is not None and r1["op"] == r2["op"]
            r2b = None if r2 is None else dict(r2, sink=3 if same_kind else r2["sink"])
            for rc in routes:
                for tid in ids:
                    ops = [r for r in (r1, r2b) if r is not None] + [{"op": "ev", "ev": _ev(tid, rc), "omit_defaults": True}]
                    yield {"cfg": {"fallback": fb, "fb_dssr": True}, "ops": ops}


def _enum_corners():
    """Small exhaustive grids for the corners that random histories reach only now and then."""
    START, STOP = {"op": "start"}, {"op": "stop"}

    def evop(tid=None, rc=None, npos=0, omit=True, **more):
        return {"op": "ev", "ev": _ev(tid, rc, **more), "omit_defaults": omit, "npos": npos}
    # 1. the constructor: spelling x flag x flag given as 1/0 x flag omitted, over one run
    for ctor in ("pos", "kw", "pos2"):
        for fb_dssr in (True, False):
            for truthy in (False, True):
                for omit in (False, True):
                    yield {"cfg": {"fallback": True, "fb_dssr": fb_dssr, "truthy_flags": truthy, "omit_defaults": omit,
                                   "ctor": ctor}, "ops": [START, evop("a"), STOP]}
    # 2. add_rule: spelling x flag x flag explicit x 1/0 x rule kind x before / during the run
    for spell in ("kw", "pos", "named"):
        for dssr in (True, False):
            for explicit in (True, False):
                for truthy in (False, True):
                    for kind in ("route", "id"):
                        for mid in (False, True):
                            rule = {"op": kind, "sink": 1, "dssr": dssr, "explicit_dssr": explicit, "spell": spell}
                            rule.update({"prefix": "0", "consume": True} if kind == "route" else {"test_id": "a"})
                            ops = ([START, rule] if mid else [rule, START]) + [evop("a", "0/1"), STOP]
                            yield {"cfg": {"fallback": True, "fb_dssr": False, "truthy_flags": truthy}, "ops": ops}
    # 3. the route code given positionally x consuming rule (x the flag as 1/0)
    for consume in (False, True):
        for truthy in (False, True):
            for npos in (0, 8, 9, 10):
                for rc in ("0", "0/1", "0/0/1"):
                    for stamp in (None, "naive"):
                        yield {"cfg": {"fallback": False, "fb_dssr": True, "truthy_flags": truthy},
                               "ops": [{"op": "route", "prefix": "0", "consume": consume, "sink": 1, "dssr": False,
                                        "explicit_dssr": False},
                                       evop("a", rc, npos, False, timestamp=stamp, test_tags=["t"], runnable=False)]}
    # 4. segments: a rule must match its own prefix exactly - not its case, blank, accent or wildcard neighbours
    for p in ("W1", "a.b", "x", "é", "worker-1", "0"):
        heads = []
        for h in (p, NEIGHBOUR[p], p.lower(), p.upper(), " " + p, p + " ", p + p):
            if h not in heads:
                heads.append(h)
        for consume in (False, True):
            for h in heads:
                for tail in ("", "/0"):
                    yield {"cfg": {"fallback": True, "fb_dssr": True},
                           "ops": [{"op": "route", "prefix": p, "consume": consume, "sink": 1, "dssr": False,
                                    "explicit_dssr": False}, evop("a", h + tail)]}
    # 5. test ids: exact match only (no dotted children), and an id never acts as a prefix or the other way round
    for rid in (None, "a", "0", "a.b"):
        for pr in (None, "0", "a.b"):
            rules = [{"op": "id", "test_id": rid, "sink": 2, "dssr": False, "explicit_dssr": False}]
            if pr is not None:
                rules.append({"op": "route", "prefix": pr, "consume": True, "sink": 1, "dssr": False, "explicit_dssr": False})
            for tid in (None, "a", "a.b", "0", "a.b.c", "A"):
                for rc in (None, "0", "0/1", "a", "a.b", "a.b/0"):
                    for fb in (True, False):
                        yield {"cfg": {"fallback": fb, "fb_dssr": True}, "ops": rules + [evop(tid, rc)]}
    # 6. a sink that registers a rule from inside its own startTestRun / stopTestRun / status: the rule is routed to
    for when in ("start", "stop", "status"):
        for equal in (False, True):
            for pre in ([], [{"op": "route", "prefix": "0", "consume": True, "sink": 0, "dssr": False, "explicit_dssr": False}]):
                re = {"when": when, "sink": 3, "test_id": RE_ID}
                ops = pre + [evop(RE_ID, "0/1"), START, evop(RE_ID, "0/x"), evop(RE_ID), evop(RE_ID, "1"), STOP,
                             evop(RE_ID), START, evop(RE_ID, "0"), STOP]
                yield {"cfg": {"fallback": True, "fb_dssr": True, "equal_sinks": equal, "reentrant": re}, "ops": ops}
                yield {"cfg": {"fallback": True, "fb_dssr": True, "equal_sinks": equal, "reentrant": re}, "ops": ops[1 + len(pre):]}


def _enum_inverse():
    """StreamToQueue used again: two runs, events after stopTestRun, omitted defaults, odd timestamps."""
    for codes in (["0"], ["W1", "a.b"], ["0", "0", "01"]):
        for r1, r2 in itertools.product((False, True), repeat=2):
            for omit in (False, True):
                for stamp in (None, "naive", "tz", "usec"):
                    yield {"codes": codes, "omit_defaults": omit,
                           "rounds": [{"run": r1, "events": [_ev("a", None, timestamp=stamp), _ev(None, "0/1", test_tags=["t"])]},
                                      {"run": r2, "events": [_ev("late", "0", timestamp=stamp, runnable=False)]}]}


def subchecks(tier):
    q = tier == "quick"
    return [
        Sub("router_histories", run_history, s_history(), 2500 if q else 150000),
        Sub("queue_router_inverse", run_inverse, s_inverse(), 1200 if q else 60000),
        Sub("enumerated_rules_x_events", run_history, enum=_enum, enum_complete=True,
            note="every pair of <=2 rules from a 7-rule alphabet x 10 route codes x 3 test ids x fallback on/off"),
        Sub("enumerated_corners", run_history, enum=_enum_corners, enum_complete=True,
            note="constructor and add_rule spellings x flag values; positional route code x consuming rule; neighbour "
                 "segments and ids of a rule; rules registered re-entrantly from a sink"),
        Sub("enumerated_queue_reuse", run_inverse, enum=_enum_inverse, enum_complete=True,
            note="1..3 nested StreamToQueue used for two rounds (run or no run) x omitted defaults x timestamp kinds"),
    ]
