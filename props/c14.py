"""C14 - Deferred-returning tests succeed iff all completed cleanly; reactor left clean."""
import collections

from hypothesis import strategies as st

from vp.core import Case, Sub, V
from vp.vreactor import VReactor, SignalSandbox, Hang
from vp.results import Ext, OUTCOMES

PROPERTY = "C14"
RULE = ("Generated asynchronous test programs for AsynchronousDeferredRunTest over a deterministic virtual-time "
        "reactor: setUp, test method, tearDown and 0..3 cleanups each independently return / raise (error, failure, "
        "skip, an exception whose bool() is False) / return a Deferred that fires or fails after a delay from a small lattice / never fires, and may leave "
        "a delayed call behind, log an error to Twisted, or drop a failed Deferred; timeout from the same lattice "
        "(so equalities occur), optional SIGINT at a virtual instant, both runner variants, logging suppression and "
        "capture on/off (one third of the programs are 'single-fault': quiet everywhere except for one generated fault "
        "in one stage), followed by a trivially clean test in the same process. Oracle: exactly one outcome between "
        "startTest and stopTest; the time-stamped stage log is a prefix of setUp -> test -> tearDown -> cleanups LIFO "
        "with each stage starting exactly when the previous one's Deferred fired; success <=> the timeline model says "
        "everything completed cleanly within the timeout with no logged error / dropped failure / leftover call; "
        "timeout or interrupt => error (interrupt also stop()); afterwards no pending delayed calls and the same "
        "Twisted log observers (as a multiset: each observer as often as before, any order); the follow-up test succeeds. Also generated: an exception INSTANCE as an ordinary stage value, a "
        "fractional timeout, 0-2 extra new-style and 0-1 extra legacy ambient log observers per case (so 'the observers installed before' "
        "differs from run to run), and an exhaustive no-tie grid (timeout half a unit before / after a completion; a run cut by the "
        "timeout or an interrupt after a failed expectThat). A run cut by the timeout or an interrupt (no tie) must report addError, nothing else; "
        "a run that ended, without any interrupt, while a stage's Deferred was still awaited must report addError; the runner's timeout call "
        "is recognised as the delayed call the code under test scheduled before the first stage, due 'timeout' after the start, during "
        "which the reactor was stopped (no private names); stages that still run AFTER the cut are admitted iff they are the remaining clean-up in order. Non-trivial: a stage returns a not-yet-fired Deferred and "
        "(a second abnormal condition, a timing equality, or an interrupt); distinct = distinct canonical spec.")
ASSUMPTIONS = [
    "events due at the same virtual instant (a Deferred firing exactly at the timeout, a leftover call due exactly when "
    "the run ends, an interrupt coinciding with either) admit either outcome; all other clauses are still checked",
    "logged / dropped errors are RuntimeErrors, so 'timeout => error' is not blurred by which-exception-wins (C03)",
    "after a timeout or an interrupt the statement neither promises nor forbids that the rest of the clean-up runs: the present runner "
    "does not run it; a runner that does (tearDown if the test method had started, then the not-yet-run cleanups, LIFO, no gaps, with "
    "an addError outcome) is admitted, and a KeyboardInterrupt / SystemExit / GeneratorExit raised by such a stage may leave run()",
    "once the runner's own timeout call has run while a stage's Deferred was still awaited, the run has timed out (=> addError), even "
    "if that Deferred fires later in the same reactor pass; a runner that implements its timeout without a delayed call due at "
    "start + timeout is still covered by the clause 'ended unfinished without an interrupt => addError'",
    "every stage returns a Deferred of its own: a stage handing back the Deferred object an earlier stage already returned makes "
    "the runner's chain wait on itself until the timeout (Twisted convention: a Deferred given to a framework is no longer the "
    "caller's; audit 3 B2), so no program reuses one",
    "'no Deferred was garbage-collected with an unhandled failure' is read as 'no Deferred created during the run is left holding an "
    "unhandled failure': the generated dropped Deferreds are unreferenced at once, so the two readings agree on every generated program",
    "user stages do not install Twisted log observers or fixtures of their own (after a timeout the cleanups that would remove them "
    "are not run; audit 3 B4)",
    "'(an interrupt also asks the result to stop)' is read as a contrast: a timeout, a failure, a SystemExit or a dirty reactor does "
    "NOT ask the result to stop (the rest of the suite still runs); a KeyboardInterrupt raised by user code counts as an interrupt, "
    "so after one stop() is admitted but not required (audit 4 #3)",
    "after a SIGINT delivered to the reactor run() may return (the present runner) or re-raise KeyboardInterrupt (what the "
    "synchronous runner does); a KeyboardInterrupt / SystemExit / GeneratorExit raised by USER code must leave run() - the documented "
    "last_resort contract ('before re-raising uncatchable exceptions') (audit 4 #4)",
    "'log observers are exactly those installed before' is about which observers are installed (each as often as before), not about "
    "their order in Twisted's private list (audit 4 #1)",
    "a failed expectThat in a stage that ran makes the finished test a failure (force_failure, the last link of the anchored "
    "_run_deferred chain), although the statement's list of reasons for non-success does not name it",
]

LATTICE = [0, 1, 2, 3]
# ambient Twisted log observers installed before the run, beyond the harness's own: [new-style, legacy]
OBSERVERS = st.sampled_from([[0, 0], [0, 0], [1, 0], [2, 0], [0, 1], [1, 1], [2, 1]])
STAGE = st.fixed_dictionaries({
    "mode": st.sampled_from(["deferred", "deferred", "sync", "chained", "fired"]),      # fired: returns an already-fired Deferred
    "delay": st.sampled_from(LATTICE),
    "result": st.sampled_from(["ok", "ok", "ok", "ok", "ok", "ok", "error", "fail", "skip", "error_falsy", "kbi", "kbi", "sysexit", "genexit"]),   # error_falsy: bool() is False; kbi / sysexit / genexit: KeyboardInterrupt / SystemExit / GeneratorExit raised by user code
    "value": st.sampled_from([None, None, "Foo", 0, [], True, "exc-instance"]),       # what a successful stage returns / its Deferred fires with ("exc-instance": an exception INSTANCE as an ordinary value)
    "expect": st.sampled_from([False] * 9 + [True]),                  # the stage records a failed expectThat
    "never": st.sampled_from([False] * 9 + [True]),
    "leave_call": st.one_of(st.none(), st.none(), st.none(), st.sampled_from([0, 1, 2, 5, 9])),
    "log_err": st.sampled_from(["no"] * 7 + ["one", "two_flush_one", "one_flush_it"]),
    "drop_failed": st.sampled_from([False] * 7 + [True, "cancelled"]),     # "cancelled": a Deferred cancelled and dropped (its failure is a CancelledError)
})
CASE_RANDOM = st.fixed_dictionaries({
    "setUp": STAGE, "test": STAGE, "tearDown": STAGE, "cleanups": st.lists(STAGE, max_size=3),
    "timeout": st.sampled_from([20, 20, 20, 6, 4, 3, 2, 1, 12, 2.5]), "interrupt": st.one_of(st.none(), st.none(), st.none(), st.none(), st.sampled_from([0, 1, 2, 3, 5, 9])),
    "variant": st.sampled_from(["plain", "broken"]), "suppress": st.booleans(), "store": st.booleans(),
    "ties": st.lists(st.integers(0, 3), max_size=5),
    "followup": st.sampled_from(["fresh-sync", "same-reactor-async"]),
    "observers": OBSERVERS,
})


QUIET = st.fixed_dictionaries({
    "mode": st.sampled_from(["deferred", "deferred", "sync", "chained", "fired"]), "delay": st.sampled_from(LATTICE), "result": st.just("ok"),
    "value": st.sampled_from([None, "Foo", 0, [], "exc-instance"]), "expect": st.just(False),
    "never": st.just(False), "leave_call": st.none(), "log_err": st.just("no"), "drop_failed": st.just(False)})
NONEXC = {"kbi": KeyboardInterrupt, "sysexit": SystemExit, "genexit": GeneratorExit}
SINGLE_FAULT = st.sampled_from([("expect", True), ("result", "kbi"), ("result", "sysexit"), ("result", "genexit"), ("result", "error"), ("result", "fail"), ("result", "skip"), ("result", "error_falsy"), ("result", "error"),
                                ("log_err", "one"), ("log_err", "two_flush_one"), ("drop_failed", True), ("drop_failed", "cancelled"), ("leave_call", 5), ("never", True)])


@st.composite
def s_single_fault(draw):
    """A quiet program (every stage succeeds well inside the timeout) with exactly one generated fault in one stage:
    the fault is the only thing that can make the outcome differ from success."""
    spec = {"setUp": draw(QUIET), "test": draw(QUIET), "tearDown": draw(QUIET), "cleanups": draw(st.lists(QUIET, max_size=3)),
            "timeout": 20 if draw(st.integers(0, 5)) else 12, "interrupt": None, "variant": draw(st.sampled_from(["plain", "broken"])),
            "suppress": draw(st.booleans()), "store": draw(st.booleans()), "ties": draw(st.lists(st.integers(0, 3), max_size=5)),
            "followup": draw(st.sampled_from(["fresh-sync", "same-reactor-async"])), "observers": draw(OBSERVERS)}
    names = ["setUp", "test", "tearDown"] + ["cleanup%d" % i for i in range(len(spec["cleanups"]))] * 2
    where = draw(st.sampled_from(names))
    field, value = draw(SINGLE_FAULT)
    stage = spec["cleanups"][int(where[7:])] if where.startswith("cleanup") else spec[where]
    stage[field] = value
    return spec


CASE = st.one_of(CASE_RANDOM, CASE_RANDOM, s_single_fault())


def model(spec):
    """Timeline.  -> dict(log=[(name, start)], bad=set of classes, tie=bool, end=time, terminated=None|'timeout'|'interrupt')"""
    T, ti = spec["timeout"], spec["interrupt"]
    t = 0
    log = []
    bad = set()
    tie = False
    tie_cut = False     # ... the timeout / the interrupt coincides with a stage boundary: the run may or may not have been cut there
    leftovers = []      # absolute due times of calls left behind
    order = ["setUp"]
    stages = {"setUp": spec["setUp"], "test": spec["test"], "tearDown": spec["tearDown"]}
    for i, c in enumerate(spec["cleanups"]):
        stages["cleanup%d" % i] = c
    pending = ["setUp"]
    terminated = None
    propagates = False          # user code raised KeyboardInterrupt (SystemExit, GeneratorExit): reported as an error and re-raised by run()
    may_propagate = False       # ... by a cleanup that was not the last failing one: the runner keeps one exception (DESIGN 11.2); either is admitted
    last_failed_cleanup = None
    setup_ok = True
    queue = ["setUp", "test", "tearDown"] + ["cleanup%d" % i for i in reversed(range(len(spec["cleanups"])))]
    idx = 0
    while idx < len(queue):
        name = queue[idx]
        idx += 1
        if name in ("test", "tearDown") and not setup_ok:
            continue
        s = stages[name]
        # the chain can be cut before this stage starts (same instant as the previous completion: tie)
        for lim, why in ((T, "timeout"), (ti, "interrupt")):
            if lim is not None and lim < t:
                terminated = terminated or why
        if terminated:
            break
        if (T == t or ti == t) and name != "setUp":
            tie = tie_cut = True
        log.append((name, t))
        if s["leave_call"] is not None:
            leftovers.append(t + s["leave_call"])
        if s["log_err"] in ("one", "two_flush_one"):      # an error logged to Twisted and not flushed
            bad.add("error")
        if s["drop_failed"]:
            bad.add("error")
        if s.get("expect"):
            bad.add("failure")          # a failed expectThat makes the test fail once it has finished
        dur = s["delay"] if s["mode"] in ("deferred", "chained") else 0
        fire = None if (s["mode"] in ("deferred", "chained") and s["never"]) else t + dur
        cut = min([x for x in (T, ti) if x is not None])
        if fire is None or cut < fire:
            terminated = "timeout" if (ti is None or T < ti) else ("interrupt" if ti < T else "tie")
            if terminated == "tie":
                tie = True
                terminated = "timeout"
            t = cut
            break
        if cut == fire and s["mode"] in ("deferred", "chained"):
            tie = tie_cut = True
        t = fire
        if s["result"] != "ok":
            bad.add({"error": "error", "error_falsy": "error", "fail": "failure", "skip": "skip", "kbi": "error", "sysexit": "error", "genexit": "error"}[s["result"]])
            if name.startswith("cleanup"):
                last_failed_cleanup = s["result"]       # the runner keeps the last failing cleanup's exception (DESIGN 11.2)
                if s["result"] in NONEXC:
                    may_propagate = True
            elif s["result"] in NONEXC:
                propagates = True
            if name == "setUp":
                setup_ok = False
    if last_failed_cleanup in NONEXC:
        propagates = True
    if terminated:
        bad.add("error")
    end = t
    for due in leftovers:
        if due > end:
            bad.add("error")
        elif due == end:
            tie = True
    if ti is not None and ti == end and not terminated:
        tie = tie_cut = True
    return {"log": log, "bad": bad, "tie": tie, "tie_cut": tie_cut, "end": end, "terminated": terminated, "propagates": propagates,
            "may_propagate": may_propagate or propagates}


def extras_ok(ran, extra, spec):
    """After a timeout or an interrupt the statement neither promises nor forbids that the remaining clean-up still
    runs.  ``ran``: names of the stages up to the cut; ``extra``: names of the stages that ran after it.  Admitted:
    (tearDown, if the test method had started and tearDown had not) followed by the not-yet-run cleanups, in LIFO
    order, without gaps, any number of them."""
    extra = list(extra)
    if extra and extra[0] == "tearDown" and "tearDown" not in ran and "test" in ran:
        extra = extra[1:]
    remaining = ["cleanup%d" % i for i in reversed(range(len(spec["cleanups"]))) if "cleanup%d" % i not in ran]
    return extra == remaining[:len(extra)]


_QUIET = [False]


def _quiet_twisted():
    """Give Twisted's log a sink so that 'Unhandled error in Deferred' is not printed to stderr."""
    if not _QUIET[0]:
        from twisted.logger import globalLogBeginner
        try:
            # two new-style observers and a legacy one: what the runner removes and puts back is several observers
            globalLogBeginner.beginLoggingTo([lambda event: None, lambda event: None], redirectStandardIO=False, discardBuffer=True)
            from twisted.python import log as legacy_log
            legacy_log.addObserver(lambda event_dict: None)
        except Exception:
            pass
        _QUIET[0] = True
        import gc
        gc.collect()
        gc.disable()     # collections happen only where the harness asks for them (see run_case)


class PReactor(VReactor):
    """A VReactor that knows which delayed calls the harness scheduled itself (``own``); every other delayed call
    was scheduled by the code under test and is remembered in ``foreign``."""

    def __init__(self, ties=()):
        VReactor.__init__(self, ties)
        self.foreign = []        # (DelayedCall, True if scheduled before the first stage had started)
        self.stages_started = 0
        self._own = False
        self._in_external = 0
        self.stopped_in = []     # the delayed calls during whose execution the reactor was stopped (None: not during one)

    def at(self, t, fn):
        def external():
            self._in_external += 1
            try:
                return fn()
            finally:
                self._in_external -= 1
        return VReactor.at(self, t, external)

    def _note_stop(self):
        # (VReactor appends a delayed call to ``fired`` right before it runs it; nothing but delayed calls and the
        # harness's external events runs inside a pass)
        if self.running:
            executing = bool(self.fired) and (self.in_run or self.in_iterate) and not self._in_external
            self.stopped_in.append(self.fired[-1][1] if executing else None)

    def crash(self):
        self._note_stop()
        return VReactor.crash(self)

    def stop(self):
        self._note_stop()
        return VReactor.stop(self)

    def own(self, delay, f, *a, **kw):
        self._own = True
        try:
            return self.callLater(delay, f, *a, **kw)
        finally:
            self._own = False

    def callLater(self, delay, f, *a, **kw):
        c = VReactor.callLater(self, delay, f, *a, **kw)
        if not self._own:
            self.foreign.append((c, self.stages_started == 0))
        return c


def run_case(spec):
    _quiet_twisted()
    import testtools
    from testtools.twistedsupport import AsynchronousDeferredRunTest, AsynchronousDeferredRunTestForBrokenTwisted, flush_logged_errors
    from twisted.internet import defer
    from twisted.python import log as tlog
    from twisted.logger import globalLogPublisher
    vs = []
    m = model(spec)
    with SignalSandbox():
        reactor = PReactor(spec["ties"])
        stage_log = []
        events = []          # ("start" | "fired", stage, number of delayed calls the reactor had run or begun by then)
        stages = {"setUp": spec["setUp"], "test": spec["test"], "tearDown": spec["tearDown"]}
        stages.update(("cleanup%d" % i, c) for i, c in enumerate(spec["cleanups"]))
        fire_log = []        # (stage, True if its Deferred fired only after the reactor had stopped running)
        waited = []          # stages that returned a Deferred due to fire later
        cls = AsynchronousDeferredRunTest if spec["variant"] == "plain" else AsynchronousDeferredRunTestForBrokenTwisted
        factory = cls.make_factory(reactor=reactor, timeout=spec["timeout"], suppress_twisted_logging=spec["suppress"],
                                   store_twisted_logs=spec["store"])

        def act(case, name, s):
            stage_log.append((name, reactor.seconds()))
            events.append(("start", name, len(reactor.fired), reactor.running or reactor.in_run))
            reactor.stages_started += 1
            if s["leave_call"] is not None:
                reactor.own(s["leave_call"], lambda: None)
            if s["log_err"] == "one":
                tlog.err(RuntimeError("logged-MARK"))
            elif s["log_err"] == "two_flush_one":
                tlog.err(ValueError("logged-MARK-flushed"))
                tlog.err(KeyError("logged-MARK-kept"))
                flush_logged_errors(ValueError)
            elif s["log_err"] == "one_flush_it":
                tlog.err(ValueError("logged-MARK-flushed"))
                flush_logged_errors(ValueError)
            if s["drop_failed"] == "cancelled":
                defer.Deferred().cancel()           # nobody handles the CancelledError it fails with
            elif s["drop_failed"]:
                defer.fail(RuntimeError("dropped-MARK"))

            def exc():
                from vp.programs import FalsyError
                return {"error": RuntimeError("stage-MARK"), "fail": case.failureException("stage-MARK"), "error_falsy": FalsyError("stage-MARK"),
                        "kbi": KeyboardInterrupt("stage-MARK"), "sysexit": SystemExit("stage-MARK"), "genexit": GeneratorExit("stage-MARK"),
                        "skip": case.skipException("stage-MARK")}[s["result"]]
            if s.get("expect"):
                from testtools.matchers import Equals
                case.expectThat(1, Equals(2))
            value = ValueError("value-MARK") if s.get("value") == "exc-instance" else s.get("value")    # a value, not a failure
            if s["mode"] == "sync":
                if s["result"] != "ok":
                    raise exc()
                return value
            if s["mode"] == "fired":
                return defer.succeed(value) if s["result"] == "ok" else defer.fail(exc())
            d = defer.Deferred()
            if s["mode"] == "chained":
                # already fired, but its chain is paused on an inner Deferred that has not fired yet
                outer = defer.succeed(None)
                outer.addCallback(lambda _: d)
            else:
                outer = d
            if s["never"]:
                return outer
            def fire(how, what):
                fire_log.append((name, not reactor.in_run))
                events.append(("fired", name, len(reactor.fired), reactor.in_run))
                how(what)
            if s["result"] == "ok":
                reactor.own(s["delay"], fire, d.callback, value)
            else:
                reactor.own(s["delay"], fire, d.errback, exc())
            waited.append(name)
            return outer

        class T(testtools.TestCase):
            run_tests_with = factory

            def setUp(self):
                super().setUp()
                for i, c in enumerate(spec["cleanups"]):
                    if i % 2:
                        self.addCleanup(lambda i=i, c=c: act(self, "cleanup%d" % i, c))
                    else:
                        # positional and keyword arguments travel with the registration
                        self.addCleanup(lambda name, f=None: act(self, name, f), "cleanup%d" % i, f=c)     # 'f': a name Twisted's own helpers use
                return act(self, "setUp", spec["setUp"])

            def test_it(self):
                return act(self, "test", spec["test"])

            def tearDown(self):
                r = act(self, "tearDown", spec["tearDown"])
                super().tearDown()
                return r

        class Followup(testtools.TestCase):
            def test_clean(self):
                if spec.get("followup") == "same-reactor-async":
                    d = defer.Deferred()
                    self.reactor.own(0, d.callback, "fine")
                    return d
                return None
        # ambient observers differ from case to case: 'exactly those installed before' is about THIS run's before
        n_new, n_legacy = spec.get("observers") or [0, 0]
        extra_new = [(lambda event: None) for _ in range(n_new)]
        extra_legacy = [(lambda event_dict: None) for _ in range(n_legacy)]
        for o in extra_new:
            globalLogPublisher.addObserver(o)
        for o in extra_legacy:
            tlog.addObserver(o)
        observers_before = list(globalLogPublisher._observers)
        legacy_before = list(tlog.theLogPublisher.observers)
        if spec["interrupt"] is not None:
            reactor.interrupt_at(spec["interrupt"])
        res = Ext()
        raised = None
        try:
            T("test_it").run(res)
        except Hang:
            raise
        except BaseException as e:
            if isinstance(e, (MemoryError, RecursionError)):
                raise
            raised = e
        names = [e[0] for e in res.events]
        core = [n for n in names if n in ("startTest", "stopTest") or n in OUTCOMES]
        if not (len(core) == 3 and core[0] == "startTest" and core[1] in OUTCOMES and core[2] == "stopTest"):
            vs.append(V("bracket", "shape", "events %r, expected startTest / one outcome / stopTest" % (core,)))
            out = None
        else:
            out = core[1]
        # ---- stage order and timing
        ran = [x[0] for x in stage_log]
        mnames = [x[0] for x in m["log"]]
        # what ran after a timeout / an interrupt is admitted (not required): the rest of the clean-up, in order
        may_extend = bool(m["terminated"] or m["tie_cut"]) and out == "addError"
        extra = []
        if not m["tie"]:
            k = len(m["log"])
            head, extra = stage_log[:k], stage_log[k:]
            if head != m["log"][:len(head)]:
                vs.append(V("stage-order", "log", "stages ran as %r, timeline model says %r" % (stage_log, m["log"])))
            elif extra:
                times = [m["end"]] + [x[1] for x in extra]
                if not (may_extend and extras_ok(mnames, [x[0] for x in extra], spec) and times == sorted(times)):
                    vs.append(V("stage-order", "log", "stages ran as %r, timeline model says %r (terminated=%r)" % (stage_log, m["log"], m["terminated"])))
            elif len(head) != k:
                if m["terminated"]:
                    vs.append(V("stage-order", "after-termination", "stages %r ran, model says %r before the %s" % (stage_log, m["log"], m["terminated"])))
                else:
                    vs.append(V("stage-order", "log", "stages ran as %r, timeline model says %r" % (stage_log, m["log"])))
        else:
            j = 0
            while j < len(ran) and j < len(mnames) and ran[j] == mnames[j]:
                j += 1
            extra = stage_log[j:]
            if extra and not (may_extend and extras_ok(ran[:j], ran[j:], spec)):
                vs.append(V("stage-order", "log", "stages ran as %r, timeline model says %r" % (stage_log, m["log"])))
        # ---- what run() raises
        extra_nonexc = any(stages[x[0]]["result"] in NONEXC for x in extra if x[0] in stages)
        # (after a SIGINT was delivered the statement does not say whether run() returns: the synchronous runner
        # re-raises KeyboardInterrupt, the present asynchronous one returns; both are admitted)
        reraised_interrupt = bool(reactor.interrupts_delivered) and isinstance(raised, KeyboardInterrupt)
        if raised is not None and not reraised_interrupt and not ((m["may_propagate"] or extra_nonexc) and isinstance(raised, tuple(NONEXC.values()))):
            vs.append(V("run-raises", type(raised).__name__, "run() raised %r" % (raised,)))
        if m["propagates"] and not m["terminated"] and not m["tie"] and raised is None:
            vs.append(V("outcome", "interrupt-swallowed", "user code raised KeyboardInterrupt / SystemExit / GeneratorExit; run() returned normally (outcomes %r)" % ([e[0] for e in res.events if e[0] in OUTCOMES],)))
        # ---- outcome
        if out is not None and not m["tie"]:
            if not m["bad"]:
                if out != "addSuccess":
                    vs.append(V("outcome", "clean-run-%s" % out, "everything completed cleanly within the timeout but the outcome is %s" % out))
            else:
                admissible = set()
                if "error" in m["bad"]:
                    admissible.add("addError")
                if "failure" in m["bad"]:
                    admissible.add("addFailure")
                if not admissible:
                    admissible.add("addSkip")
                if not m["terminated"]:
                    # the statement only says: not a success.  (Which of several raised outcomes wins is the
                    # business of C03, whose quantifier is the synchronous runner.)
                    admissible = {OUT for OUT in ("addError", "addFailure", "addSkip")
                                  if {"addError": "error", "addFailure": "failure", "addSkip": "skip"}[OUT] in m["bad"]}
                else:
                    # 'a timeout or an interrupt yields an error', whatever else (a failed expectThat, ...) happened before
                    admissible = {"addError"}
                if out not in admissible:
                    why = m["terminated"] or ",".join(sorted(m["bad"]))
                    vs.append(V("outcome", "%s-reported-as-%s" % (why, out), "model: %r terminated=%r; outcome %s, admissible %r" % (
                        sorted(m["bad"]), m["terminated"], out, sorted(admissible))))
            if m["terminated"] == "interrupt" and "stop" not in names:
                vs.append(V("interrupt", "no-stop", "the run was interrupted but the result was not asked to stop"))
            user_kbi = any(stages[n_]["result"] == "kbi" for n_ in ran if n_ in stages)
            if spec["interrupt"] is None and "stop" in names and not user_kbi:
                # only an interrupt asks the result to stop: a timeout, a failure or a dirty reactor does not
                # (a KeyboardInterrupt raised by a stage counts as an interrupt: stop() is admitted, not required)
                vs.append(V("interrupt", "spurious-stop", "no interrupt was ever delivered, yet the result was asked to stop (outcome %s, terminated=%r)" % (out, m["terminated"])))
        elif out is not None and m["tie"] and out == "addSuccess" and ({"error", "failure"} & m["bad"]) and not (
                m["bad"] == {"error"} and (m["terminated"] or True)):
            pass
        # ---- whatever else was due at that instant: once the timeout has elapsed with the chain unfinished the
        #      outcome is an error.  The runner's timeout call is recognised by what it is, not by its name: a delayed
        #      call that the code under test (not the harness) scheduled before the first stage started, that is due
        #      exactly ``timeout`` after the start of the run (virtual time 0) and that stopped the reactor when it ran.
        def waiting_at(n):
            """The stage whose Deferred the chain was waiting for when the reactor had begun n delayed calls (or None)."""
            started = [e for e in events if e[0] == "start" and e[2] <= n]
            if not started:
                return None
            name = started[-1][1]
            s_ = stages[name]
            if s_["mode"] not in ("deferred", "chained"):
                return None
            if s_["never"] or not any(e[0] == "fired" and e[1] == name and e[2] <= n for e in events):
                return name
            return None
        # ... and, of those, only one during whose execution the reactor was stopped: a further call due at the
        # deadline that merely notes something (a watchdog, a diagnostic) is not 'the timeout elapsing'
        timeout_calls = [c for c, early in reactor.foreign if early and c.getTime() == spec["timeout"]
                         and any(c is x for x in reactor.stopped_in)]
        timeout_fired = [(i, tm) for i, (tm, c) in enumerate(reactor.fired) if any(c is tc for tc in timeout_calls)]
        for i, tm in timeout_fired[:1]:
            # (a delayed call running in pass number i has i calls before it)
            if waiting_at(i) is not None and out is not None and out != "addError":
                vs.append(V("outcome", "timeout-elapsed-reported-as-%s" % out, "the timeout call fired (at %r) while stage %r was still waiting, but the outcome is %s" % (
                    tm, waiting_at(i), out)))
        # ---- a Deferred the chain was still waiting for when the reactor stopped (it fires during the clean-up
        #      iterations, or never): the chain did not complete, whatever happens to that Deferred afterwards
        late = [n for n in waited if (n, False) not in fire_log]
        if late and out == "addSuccess":
            vs.append(V("outcome", "success-with-an-unfinished-chain", "stage %r returned a Deferred that had not fired when the reactor stopped (fired afterwards: %r), yet the outcome is addSuccess" % (
                late[0], (late[0], True) in fire_log)))
        if late and reactor.interrupts_delivered and spec["interrupt"] < spec["timeout"] and out is not None and "stop" not in names:
            # (delivered before the timeout was due, so it is the interrupt that cut the run)
            vs.append(V("interrupt", "no-stop", "the run was interrupted while stage %r was waiting, but the result was not asked to stop" % (late[0],)))
        # ... and without any interrupt only the timeout can have ended such a run (independent of how the runner
        # implements its timeout)
        in_run = [e for e in events if e[0] == "start" and e[3]]
        hung = None
        if in_run:
            s_ = stages[in_run[-1][1]]
            if s_["mode"] in ("deferred", "chained") and (s_["never"] or (in_run[-1][1], False) not in fire_log):
                hung = in_run[-1][1]
        if hung and not reactor.interrupts_delivered and out is not None and out != "addError":
            vs.append(V("outcome", "unfinished-chain-reported-as-%s" % out, "no interrupt was delivered and the reactor stopped while stage %r was still waiting for its Deferred (so the timeout elapsed), but the outcome is %s" % (hung, out)))
        # ---- cleanliness
        left = reactor.getDelayedCalls()
        if left:
            vs.append(V("clean", "delayed-calls-left", "%d delayed calls pending after the run: %r" % (len(left), [str(c)[:60] for c in left])))
        # 'exactly those installed before': the same observers, each as often as before - in whatever order
        def same_observers(now, before):
            return collections.Counter(map(id, now)) == collections.Counter(map(id, before))
        if not same_observers(globalLogPublisher._observers, observers_before) or not same_observers(tlog.theLogPublisher.observers, legacy_before):
            vs.append(V("clean", "log-observers", "Twisted log observers changed: %d -> %d (legacy %d -> %d)" % (
                len(observers_before), len(globalLogPublisher._observers), len(legacy_before), len(tlog.theLogPublisher.observers))))
            for o in list(globalLogPublisher._observers):
                if o not in observers_before:
                    globalLogPublisher.removeObserver(o)
            for o in observers_before:
                if o not in globalLogPublisher._observers:
                    globalLogPublisher.addObserver(o)
        for o in extra_new:
            if o in globalLogPublisher._observers:
                globalLogPublisher.removeObserver(o)
        for o in extra_legacy:
            if o in tlog.theLogPublisher.observers:
                tlog.removeObserver(o)
        if reactor.running:
            vs.append(V("clean", "reactor-running", "reactor still running"))
        # ---- the next test in the same process is unaffected
        # (collect this case's garbage first: a failed Deferred dropped by a run that was cut short is
        # reported by Twisted whenever it happens to be collected, which must not hit a later case)
        import gc
        n_stage = len(stage_log)
        gc.collect(0)
        if len(stage_log) != n_stage:
            vs.append(V("stage-order", "stage-ran-after-the-run", "after run() had returned (at garbage collection) further stages ran: %r" % (stage_log[n_stage:],)))
        if reactor.getDelayedCalls():
            vs.append(V("clean", "delayed-calls-appear-later", "delayed calls were scheduled after the run had finished: %d" % len(reactor.getDelayedCalls())))
            for c_ in reactor.getDelayedCalls():
                c_.cancel()
        if spec.get("followup") == "same-reactor-async":
            # the same factory and the same reactor go on to run an asynchronous test
            Followup.run_tests_with = factory
        else:
            reactor2 = VReactor()
            Followup.run_tests_with = cls.make_factory(reactor=reactor2, timeout=5)
        res2 = Ext()
        Followup("test_clean").run(res2)
        outs2 = [e[0] for e in res2.events if e[0] in OUTCOMES]
        if outs2 != ["addSuccess"]:
            det = [sorted((e[2].get("details") or {}).keys()) for e in res2.events if e[0] in OUTCOMES]
            vs.append(V("clean", "leaks-into-next-test", "a clean follow-up test reported %r (details %r)" % (outs2, det)))
            try:
                from testtools.twistedsupport import flush_logged_errors
                flush_logged_errors()
            except Exception:
                pass
    import gc
    # nothing of this case may be finalised (and logged by Twisted) during the next one: with automatic
    # collection off everything created by this case is still in the youngest generation
    _QUIET.append(None)
    gc.collect(0) if len(_QUIET) % 300 else gc.collect()
    unfired = any(s["mode"] in ("deferred", "chained") and (s["delay"] > 0 or s["never"]) for s in [spec["setUp"], spec["test"], spec["tearDown"]] + spec["cleanups"])
    abnormal = len(m["bad"]) + (1 if m["terminated"] else 0)
    nt = unfired and (abnormal >= 2 or m["tie"] or spec["interrupt"] is not None)
    return Case(vs, nt, ["terminated=%s" % m["terminated"], "tie" if m["tie"] else "", "variant=" + spec["variant"],
                         "clean" if not m["bad"] else "bad=" + "+".join(sorted(m["bad"])), "interrupt" if spec["interrupt"] is not None else ""],
                {"stage_log": stage_log, "outcome": out})


# ---------------------------------------------------------------- real-reactor differential
@st.composite
def s_insensitive(draw):
    """Programs whose observations cannot depend on wall-clock timing: every Deferred fires via
    callLater(0), nothing never fires, no interrupt, generous timeout."""
    def stage():
        return {"mode": draw(st.sampled_from(["deferred", "sync"])), "delay": 0,
                "result": draw(st.sampled_from(["ok", "ok", "ok", "error", "fail", "skip"])), "never": False, "leave_call": None,
                "log_err": draw(st.sampled_from(["no"] * 5 + ["one", "two_flush_one", "one_flush_it"])),
                "drop_failed": draw(st.sampled_from([False] * 5 + [True]))}
    return {"setUp": stage(), "test": stage(), "tearDown": stage(), "cleanups": [stage() for _ in range(draw(st.integers(0, 2)))],
            "timeout": 20, "interrupt": None, "variant": draw(st.sampled_from(["plain", "broken"])),
            "suppress": draw(st.booleans()), "store": draw(st.booleans()), "ties": []}


def observe(spec, reactor):
    """Run the program on ``reactor`` (virtual or the real global one) -> (stage names, outcome, leftover calls)."""
    import testtools
    from testtools.twistedsupport import (AsynchronousDeferredRunTest, AsynchronousDeferredRunTestForBrokenTwisted,
                                          flush_logged_errors)
    from twisted.internet import defer
    from twisted.python import log as tlog
    stage_log = []
    cls = AsynchronousDeferredRunTest if spec["variant"] == "plain" else AsynchronousDeferredRunTestForBrokenTwisted
    factory = cls.make_factory(reactor=reactor, timeout=spec["timeout"], suppress_twisted_logging=spec["suppress"],
                               store_twisted_logs=spec["store"])

    def act(case, name, s):
        stage_log.append(name)
        if s["log_err"] == "one":
            tlog.err(RuntimeError("logged-MARK"))
        elif s["log_err"] == "two_flush_one":
            tlog.err(ValueError("a"))
            tlog.err(KeyError("b"))
            flush_logged_errors(ValueError)
        elif s["log_err"] == "one_flush_it":
            tlog.err(ValueError("a"))
            flush_logged_errors(ValueError)
        if s["drop_failed"]:
            defer.fail(RuntimeError("dropped-MARK"))
        from vp.programs import FalsyError
        exc = {"error": RuntimeError("stage-MARK"), "fail": case.failureException("stage-MARK"), "skip": case.skipException("stage-MARK"),
               "error_falsy": FalsyError("stage-MARK")}.get(s["result"])
        if s["mode"] == "sync":
            if exc is not None:
                raise exc
            return None
        d = defer.Deferred()
        reactor.callLater(0, d.callback if exc is None else d.errback, None if exc is None else exc)
        return d

    class T(testtools.TestCase):
        run_tests_with = factory

        def setUp(self):
            super().setUp()
            for i, c in enumerate(spec["cleanups"]):
                self.addCleanup(lambda i=i, c=c: act(self, "cleanup%d" % i, c))
            return act(self, "setUp", spec["setUp"])

        def test_it(self):
            return act(self, "test", spec["test"])

        def tearDown(self):
            r = act(self, "tearDown", spec["tearDown"])
            super().tearDown()
            return r
    res = Ext()
    T("test_it").run(res)
    outs = [e[0] for e in res.events if e[0] in OUTCOMES]
    names = [e[0] for e in res.events if e[0] in ("startTest", "stopTest") or e[0] in OUTCOMES]
    return stage_log, outs, names, len(reactor.getDelayedCalls())


def run_differential(spec):
    _quiet_twisted()
    import gc
    from twisted.internet import reactor as real
    vs = []
    with SignalSandbox():
        v = observe(spec, VReactor())
        gc.collect(0)
        r = observe(spec, real)
        gc.collect(0)
    if v[0] != r[0]:
        vs.append(V("differential", "stage-order", "virtual reactor ran %r, the real reactor %r" % (v[0], r[0])))
    if v[1] != r[1] or v[2] != r[2]:
        vs.append(V("differential", "outcome", "virtual reactor: %r, real reactor: %r" % (v[2], r[2])))
    if r[3] or real.running:
        vs.append(V("clean", "real-reactor-left-dirty", "real reactor: %d delayed calls pending, running=%r" % (r[3], real.running)))
    m = model(spec)
    if not m["tie"] and len(r[1]) == 1:
        if (r[1][0] == "addSuccess") != (not m["bad"]):
            vs.append(V("outcome", "real-reactor-vs-model", "real reactor reported %s, model bad=%r" % (r[1][0], sorted(m["bad"]))))
    nt = any(s["mode"] == "deferred" for s in [spec["setUp"], spec["test"], spec["tearDown"]] + spec["cleanups"]) and bool(m["bad"])
    return Case(vs, nt, ["real-reactor", "clean" if not m["bad"] else "bad"], {"real": r[2], "virtual": v[2]})


def interrupt_between_stages():
    """Exhaustive: the interrupt arrives at the very instant one stage's Deferred fires, the next stage waits for
    a Deferred due 0 or 1 later, every order among the calls due together.  (With a 0 delay the next stage's
    Deferred is due at once but only in the reactor's next pass - or in the clean-up iterations after it stopped.)"""
    def quiet(mode, delay):
        return {"mode": mode, "delay": delay, "result": "ok", "value": None, "expect": False, "never": False,
                "leave_call": None, "log_err": "no", "drop_failed": False}
    names = ["setUp", "test", "tearDown", "cleanup0"]
    for variant in ("plain", "broken"):
        for k in range(3):
            for first in (1, 2):
                for nxt in (0, 1):
                    for ties in ([0], [1], [0, 0], [1, 1], [0, 1], [1, 0]):
                        # then: the stage after the next one waits for a Deferred due 1 later - if the next stage's
                        # 0-delay Deferred fires in the clean-up iterations, that call is scheduled during them
                        for then in ((None, 1) if nxt == 0 and k + 2 < len(names) else (None,)):
                            stages = {n: quiet("sync", 0) for n in names}
                            stages[names[k]] = quiet("deferred", first)
                            stages[names[k + 1]] = quiet("deferred", nxt)
                            if then is not None:
                                stages[names[k + 2]] = quiet("deferred", then)
                            yield {"setUp": stages["setUp"], "test": stages["test"], "tearDown": stages["tearDown"],
                                   "cleanups": [stages["cleanup0"]], "timeout": 20, "interrupt": first, "variant": variant,
                                   "suppress": False, "store": False, "ties": ties, "followup": "fresh-sync"}


def timeout_at_completion():
    """Exhaustive: the timeout elapses at the very instant the awaited Deferred of stage k fires (with a value or
    with an error), every order among the calls due together; all other stages are quiet and synchronous."""
    def quiet(mode, delay, result="ok"):
        return {"mode": mode, "delay": delay, "result": result, "value": None, "expect": False, "never": False,
                "leave_call": None, "log_err": "no", "drop_failed": False}
    names = ["setUp", "test", "tearDown", "cleanup0"]
    for variant in ("plain", "broken"):
        for k in range(4):
            for delay in (1, 2, 3):
                for result in ("ok", "error", "fail"):
                    for mode in ("deferred", "chained"):
                        for ties in ([], [1], [0, 1], [1, 0], [1, 1], [2], [1, 2]):
                            stages = {n: quiet("sync", 0) for n in names}
                            stages[names[k]] = quiet(mode, delay, result)
                            yield {"setUp": stages["setUp"], "test": stages["test"], "tearDown": stages["tearDown"],
                                   "cleanups": [stages["cleanup0"]], "timeout": delay, "interrupt": None, "variant": variant,
                                   "suppress": False, "store": False, "ties": ties, "followup": "fresh-sync"}


def cut_not_at_a_boundary():
    """Exhaustive, no ties.  (a) A fractional timeout: stage k's Deferred fires at 1, 2 or 3 and the timeout is
    half a unit later (success) or half a unit earlier (error) - a runner that rounds its timeout is off by a whole
    stage.  (b) The run is cut (timeout, or interrupt) while stage k waits, after stage j <= k recorded a failed
    expectThat: 'a timeout or an interrupt yields an error', not a failure."""
    def quiet(mode, delay, expect=False):
        return {"mode": mode, "delay": delay, "result": "ok", "value": None, "expect": expect, "never": False,
                "leave_call": None, "log_err": "no", "drop_failed": False}
    names = ["setUp", "test", "tearDown", "cleanup0"]
    def spec(stages, timeout, interrupt, variant, ties):
        return {"setUp": stages["setUp"], "test": stages["test"], "tearDown": stages["tearDown"],
                "cleanups": [stages["cleanup0"]], "timeout": timeout, "interrupt": interrupt, "variant": variant,
                "suppress": False, "store": False, "ties": ties, "followup": "fresh-sync", "observers": [0, 0]}
    for variant in ("plain", "broken"):
        for k in range(4):
            for delay in (1, 2, 3):
                for mode in ("deferred", "chained"):
                    for half in (0.5, -0.5):
                        for ties in ([0], [1]):     # (no ties arise; they would under a rounded timeout)
                            stages = {n: quiet("sync", 0) for n in names}
                            stages[names[k]] = quiet(mode, delay)
                            yield spec(stages, delay + half, None, variant, ties)
            for j in range(k + 1):
                for cut in ("timeout", "interrupt"):
                    for never in (False, True):
                        stages = {n: quiet("sync", 0) for n in names}
                        stages[names[k]] = quiet("deferred", 3)
                        stages[names[k]]["never"] = never
                        stages[names[j]]["expect"] = True
                        yield spec(stages, 2 if cut == "timeout" else 20, 2 if cut == "interrupt" else None, variant, [])


def subchecks(tier):
    q = tier == "quick"
    return [Sub("async_programs", run_case, CASE, 4000 if q else 100000),
            Sub("interrupt_between_stages", run_case, enum=interrupt_between_stages, enum_complete=True),
            Sub("timeout_at_completion", run_case, enum=timeout_at_completion, enum_complete=True),
            Sub("cut_not_at_a_boundary", run_case, enum=cut_not_at_a_boundary, enum_complete=True),
            Sub("real_reactor_differential", run_differential, s_insensitive(), 60 if q else 1500, shrink=False,
                note="timing-insensitive programs run on the virtual AND on Twisted's real global reactor; observations must agree")]
