"""C07 - mismatches are always describable; assertThat/expectThat report them faithfully."""
import ast
import re
import warnings

from hypothesis import strategies as st

from vp.core import Case, Sub, V
from vp import matchers as ML
from vp.results import Ext
from vp.fuzz import fuzz_custom

PROPERTY = "C07"
RULE = ("(1) every matcher expression of the C06 language (all stock matchers) x values of its domain: str(matcher) "
        "is text; for mismatching values describe() is text, get_details() a dict of Content, "
        "str(MismatchError) verbose/non-verbose never raises; (2) hostile text/bytes (any code point incl. astral, "
        "combining, NUL, lone surrogates, quotes, backslashes, triple quotes, CR/LF) as matchee and as matcher "
        "argument; (3) ast.literal_eval(text_repr(s, multiline)) == s for all str/bytes and multiline in "
        "{None, True, False}; (4) generated test bodies mixing assertThat / assert_that / expectThat with "
        "matching and mismatching pairs and detail-carrying mismatches, loops of 11-14 failing expectations with the "
        "same detail names, endings (skip / expected failure / skip from a cleanup) and the three runners "
        "(RunTest, SynchronousDeferredRunTest, AsynchronousDeferredRunTest on the real reactor); "
        "(5) in those bodies: message and verbose given by keyword or positionally; hostile text and bytes (no lone "
        "surrogates) as matchee, argument and annotation; matchers whose second match() answers differently from the first "
        "(the answer to the first call is the verdict of the assertion); every failed expectThat "
        "is on record in some detail of the outcome (whatever its name and the wording around it) holding the mismatch "
        "description, the annotation and, "
        "when verbose, matchee and matcher - as the MismatchError raised by assertThat / assert_that does; every detail can "
        "be read; another test of the same class run afterwards succeeds; "
        "(6) an exhaustive grid of description branches that need a particular argument (%d / %f / {0:d} templates, "
        "IsInstance of several types, MatchesSetwise left-overs, the long form of binary mismatches for non-text values, "
        "matchees of the wrong kind, WarningMessage filename= / line=, Path and bytes paths). "
        "Non-trivial: non-ASCII or control "
        "characters in the matchee, or a nested tree, or verbose, or >= 2 assertions in a body; distinct = "
        "distinct canonical spec.")
ASSUMPTIONS = [
    "the Deferred matchers of testtools.twistedsupport are covered by C20, not here",
    "values come from the matcher's documented domain (see C06); for matchees outside it (Contains on a non-container, "
    "MatchesException on something that is not an exc_info tuple, ordering comparisons of unrelated types, FileContains on a "
    "directory, TarballContains on a non-tarball) an exception out of match() is admitted and only a returned mismatch has to "
    "be describable; StartsWith / EndsWith are given one string, not a tuple of alternatives",
    "text that travels through assertThat / expectThat / assert_that into a detail holds no lone surrogate (a detail is "
    "UTF-8 bytes; DESIGN 11.2); sub-checks (1)-(3) do draw lone surrogates",
    "the interpreter runs without -b / -bb / -W error / -X warn_default_encoding and in UTF-8 mode (./check pins "
    "PYTHONUTF8=1: scratch files hold UTF-8 text and FileContains reads with the default encoding); warnings are ignored",
    "Linux: the sticky bit can be set on a regular file by an unprivileged user",
    "the AsynchronousDeferredRunTest bodies are synchronous and run on the real reactor with a 300 s timeout: only a "
    "machine stalled for that long between two reactor iterations could turn a correct run into a TimeoutError",
    "the verbose form of MismatchError is only required to contain 'Matchee:' and str() of the matcher, the non-verbose "
    "form the mismatch description and the annotation (substring tests, no layout: verbatim or escaped, or else the "
    "white-space separated words of the needle in their order, so indented or right-stripped reports are admitted)",
    "the record of a failed expectThat is looked for in every detail of the outcome that is not one of the harness's own "
    "markers: neither the detail name 'Failed expectation', nor a 'MismatchError' prefix, nor one detail per expectation is "
    "required (the statement and the docstring of expectThat name none of them); the traceback of a later failing "
    "assertThat with the same description and annotation therefore counts as that record too",
    "the assert* family (assertEqual / assertIn / assertIs / assertIsInstance / assertIsNone ...) is outside the statement: any "
    "failureException that carries the annotation is admitted, not only MismatchError",
    "bytes paths are not promised by any docstring of the filesystem matchers: match() may raise for them, a mismatch it "
    "returns has to be describable; pathlib.Path and str paths must not raise",
    "a name in testtools.matchers.__all__ without a sample in this module is str()-ed if it can be made without arguments "
    "and skipped otherwise; the private _basic._FlippedEquals is checked where it exists; a MatchesAny / MatchesAll without "
    "alternatives that is refused at construction is skipped",
    "a detail name 'reason' is not generated (expectFailure / skip write the reason under that name with plain addDetail: "
    "third audit, part B)",
]

ANNOT = st.sampled_from(["", "note", "ünï 'q' \"d\"", "line\nbreak"])


# ---------------------------------------------------------------- (1) describe over the C06 language
@st.composite
def s_tree_case(draw):
    domain = draw(st.sampled_from(ML.DOMAINS))
    depth = draw(st.sampled_from([1, 2, 0, 3]))
    spec = draw(ML.tree(domain, depth))
    value = draw(ML.VALUES[domain])
    fs = draw(ML.FS) if ML.uses_domain(spec, "path") else None
    return {"domain": domain, "matcher": spec, "value": value, "fs": fs,
            "verbose": draw(st.booleans()), "message": draw(ANNOT)}


def _stable_description(vs, tag, mismatch):
    """describe() is not a one-shot: asking again gives the same text."""
    try:
        a, b = mismatch.describe(), mismatch.describe()
    except Exception:
        return          # reported by the callers' own clauses
    if a != b:
        vs.append(V("describe", "%s-changes-on-second-call" % tag, "describe() gave %r and then %r" % (a[:120], b[:120])))


def check_mismatch(vs, tag, matcher, matchee, mismatch, message=""):
    _stable_description(vs, tag, mismatch)
    """All the 'describable' clauses for one mismatch."""
    from testtools.matchers import MismatchError, Annotate
    try:
        d = mismatch.describe()
        if not isinstance(d, str):
            vs.append(V("describe", tag + "-type", "describe() returned %r" % type(d)))
    except Exception as e:
        vs.append(V("describe", "%s-raises-%s" % (tag, type(e).__name__), "describe() raised %r" % (e,)))
    try:
        det = mismatch.get_details()
        if not isinstance(det, dict):
            vs.append(V("get_details", tag + "-type", "get_details() returned %r" % type(det)))
        else:
            for k, c in det.items():
                if not (hasattr(c, "iter_bytes") and hasattr(c, "content_type")):
                    vs.append(V("get_details", tag + "-value", "detail %r is %r, not a Content" % (k, c)))
    except Exception as e:
        vs.append(V("get_details", "%s-raises-%s" % (tag, type(e).__name__), "get_details() raised %r" % (e,)))
    for verbose in (False, True):
        try:
            s = str(MismatchError(matchee, Annotate.if_message(message, matcher), mismatch, verbose))
            if not isinstance(s, str):
                vs.append(V("MismatchError", tag, "str() returned %r" % type(s)))
        except Exception as e:
            vs.append(V("MismatchError", "%s-verbose=%s-raises-%s" % (tag, verbose, type(e).__name__),
                        "str(MismatchError(verbose=%s)) raised %r" % (verbose, e)))


def run_tree(spec):
    with warnings.catch_warnings():
        warnings.simplefilter("ignore")
        return _run_tree(spec)


def _run_tree(spec):
    vs = []
    domain, ms, value = spec["domain"], spec["matcher"], spec["value"]
    top = ms["m"]
    with ML.Env(spec.get("fs")) as env:
        try:
            matcher = ML.build(ms, env)
        except Exception:
            if _childless(ms):
                return Case(vs, False, ["construction-refused"])
            raise
        try:
            s = str(matcher)
            if not isinstance(s, str):
                vs.append(V("str", top + "-type", "str(matcher) returned %r" % type(s)))
        except Exception as e:
            vs.append(V("str", "%s-raises-%s" % (_culprit(ms, env), type(e).__name__), "str(%s) raised %r" % (top, e)))
        try:
            want = ML.ref(ms, value, env)
        except ML.Propagates:
            return Case(vs, False, ["propagates-or-undefined"])
        live = ML.live_value(domain, value, env)
        try:
            mm = matcher.match(live)
        except BaseException as e:
            if isinstance(e, (MemoryError, RecursionError)):
                raise
            vs.append(V("match-raises", "%s-%s" % (top, type(e).__name__), "match raised %r" % (e,)))
            return Case(vs, False, ["match-raised"])
        if mm is not None:
            check_mismatch(vs, top, matcher, live, mm, spec["message"])
    d = ML.depth_of(ms)
    return Case(vs, d >= 1 and mm is not None, ["domain=" + domain, "top=" + top, "mismatch" if mm is not None else "match"],
                {"str": None})


def _childless(ms):
    """Does the expression hold a MatchesAny / MatchesAll without alternatives?  (A constructor may refuse that: the
    statement is about the matchers that exist.)"""
    if isinstance(ms, dict):
        if ms.get("m") in ("MatchesAny", "MatchesAll") and ms.get("inner") == []:
            return True
        return any(_childless(v) for v in ms.values())
    if isinstance(ms, list):
        return any(_childless(v) for v in ms)
    return False


def _culprit(ms, env):
    """Name of the innermost matcher kind whose str() raises (bucket by root cause)."""
    def walk(s):
        kids = []
        for v in s.values():
            if isinstance(v, dict) and "m" in v:
                kids.append(v)
            elif isinstance(v, list):
                kids += [x for x in v if isinstance(x, dict) and "m" in x]
            elif isinstance(v, dict):
                kids += [x for x in v.values() if isinstance(x, dict) and "m" in x]
        for k in kids:
            r = walk(k)
            if r:
                return r
        try:
            str(ML.build(s, env))
            return None
        except Exception:
            return s["m"] + ("(matcher=)" if "matcher" in s else "")
    return walk(ms) or ms["m"]


# ---------------------------------------------------------------- (2) hostile text
HOST_KINDS = ["Equals", "NotEquals", "StartsWith", "EndsWith", "Contains", "MatchesRegex", "DocTestMatches", "Is",
              "SameMembers", "KeysEqual", "IsInstance", "HasLength", "MatchesPredicate", "Never", "AfterPreprocessing",
              "MatchesStructure", "MatchesDict", "AllMatch", "MatchesListwise", "MatchesSetwise", "raises", "FileContains"]


@st.composite
def s_hostile(draw):
    is_bytes = draw(st.booleans())
    if is_bytes:
        a = draw(st.binary(max_size=10))
        b = draw(st.one_of(st.binary(max_size=10), st.sampled_from([b"'", b'"', b"\\", b"'''\n", b"\n\\'", b"\xff\n\""])))
    else:
        a = draw(ML.HOSTILE)
        b = draw(ML.HOSTILE)
    return {"kind": draw(st.sampled_from(HOST_KINDS)), "arg": a, "value": b, "negate": draw(st.booleans()),
            "message": draw(st.one_of(ANNOT, ML.HOSTILE)), "tuple": draw(st.sampled_from([None, None, None, 0, 1, 2])), "wrap": draw(st.sampled_from(["none", "Annotate", "MatchesAny", "MatchesAll", "Not(Not)"]))}


def _never(x):
    return False


def _same(x):
    """One function object for every construction: two matchers built from the same spec describe themselves alike
    however the function is named in the text (name, repr with its address, ...)."""
    return x


def build_hostile(spec):
    import testtools.matchers as tm
    k, a = spec["kind"], spec["arg"]
    v = spec["value"]
    if k in ("Equals", "NotEquals", "StartsWith", "EndsWith", "Contains", "Is"):
        m = getattr(tm, k)(a)
    elif k == "MatchesRegex":
        m = tm.MatchesRegex(re.escape(a) + (b"x" if isinstance(a, bytes) else "x"))
    elif k == "DocTestMatches":
        if isinstance(a, bytes):
            a, v = a.decode("latin-1"), v.decode("latin-1")
        m = tm.DocTestMatches(a)
    elif k == "SameMembers":
        m, v = tm.SameMembers([a]), [v, v]
    elif k == "KeysEqual":
        m, v = tm.KeysEqual(a), {v: 1}
    elif k == "IsInstance":
        m = tm.IsInstance(int)
    elif k == "HasLength":
        m = tm.HasLength(len(v) + 1)
    elif k == "MatchesPredicate":
        m = tm.MatchesPredicate(_never, "%s is hostile")
    elif k == "Never":
        m = tm.Never()
    elif k == "AfterPreprocessing":
        m = tm.AfterPreprocessing(_same, tm.Equals(a))
    elif k == "MatchesStructure":
        class O:
            pass
        o = O()
        o.x = v
        m, v = tm.MatchesStructure(x=tm.Equals(a)), o
    elif k == "MatchesDict":
        m, v = tm.MatchesDict({"k": tm.Equals(a)}), {"k": v, "extra": v}
    elif k == "AllMatch":
        m, v = tm.AllMatch(tm.Equals(a)), [v, a]
    elif k == "MatchesListwise":
        m, v = tm.MatchesListwise([tm.Equals(a)]), [v, v]
    elif k == "MatchesSetwise":
        m, v = tm.MatchesSetwise(tm.Equals(a), tm.Equals(v)), [v]
    elif k == "raises":
        def f(v=v):
            raise ValueError(v)
        m, v = tm.Raises(tm.MatchesException(KeyError(a))), f
    elif k == "FileContains":
        # the file is read as text: the expected contents are text too (bytes against str is the harness's own
        # mixed-type comparison, a BytesWarning under -b)
        m = tm.FileContains(matcher=tm.Equals(a.decode("latin-1") if isinstance(a, bytes) else a))
    else:
        raise AssertionError(k)
    if spec.get("tuple") is not None and k in ("Equals", "NotEquals", "Is", "IsInstance", "MatchesPredicate", "Never", "AfterPreprocessing"):
        v = (v,) * spec["tuple"]        # a tuple as matchee (exc_info tuples are ordinary matchees)
    w = spec["wrap"]
    if w == "Annotate":
        m = tm.Annotate(spec["message"], m)
    elif w == "MatchesAny":
        m = tm.MatchesAny(m, tm.Never())
    elif w == "MatchesAll":
        m = tm.MatchesAll(m, tm.Never())
    elif w == "Not(Not)":
        m = tm.Not(tm.Not(m))
    return m, v


def run_hostile(spec):
    import testtools.matchers as tm
    vs = []
    if spec["kind"] == "FileContains":
        import os, tempfile
        from vp.core import VERIF
        os.makedirs(os.path.join(VERIF, ".work"), exist_ok=True)
        fd, path = tempfile.mkstemp(dir=os.path.join(VERIF, ".work"))
        os.close(fd)
    try:
        matcher, value = build_hostile(spec)
        if spec["kind"] == "FileContains":
            value = path
        tag = spec["kind"] if spec["wrap"] == "none" else "%s(%s)" % (spec["wrap"], spec["kind"])
        try:
            if not isinstance(str(matcher), str):
                vs.append(V("str", tag + "-type", "str(matcher) is not text"))
        except Exception as e:
            vs.append(V("str", "%s-raises-%s" % (tag, type(e).__name__), "str(matcher) raised %r" % (e,)))
        try:
            mm = matcher.match(value)
        except Exception as e:
            # Is/StartsWith on mixed types etc. are not in the domain: same type by construction, so this is real
            vs.append(V("match-raises", "%s-%s" % (spec["kind"], type(e).__name__), "match(%r) raised %r" % (value, e)))
            return Case(vs, True, ["match-raised"])
        if mm is None:
            matcher = tm.Not(matcher)
            mm = matcher.match(value)
            tag = "Not(%s)" % tag
        if mm is None:
            vs.append(V("verdict", "Not-not-inverse", "both m and Not(m) match %r" % (value,)))
            return Case(vs, True, ["both-match"])
        check_mismatch(vs, tag, matcher, value, mm, spec["message"])
    finally:
        if spec["kind"] == "FileContains":
            os.unlink(path)
    txt = spec["value"] if isinstance(spec["value"], str) else spec["value"].decode("latin-1")
    nt = any(ord(c) > 126 or ord(c) < 32 for c in txt) or spec.get("tuple") is not None
    return Case(vs, nt, ["kind=" + spec["kind"], "bytes" if isinstance(spec["arg"], bytes) else "str", "wrap=" + spec["wrap"],
                         "tuple-matchee" if isinstance(value, tuple) else "scalar-matchee"])


# ---------------------------------------------------------------- (3) text_repr round trip
TEXT_REPR = st.fixed_dictionaries({
    "text": st.one_of(st.text(max_size=12), ML.HOSTILE, st.binary(max_size=12),
                      st.lists(st.sampled_from(["'", '"', "\\", "\n", "'''", '"""', "a", "\r", "\\'", "\\\n", "é", "\x00", "\U0001f600", "\ud800"]), max_size=8).map("".join),
                      st.lists(st.sampled_from([b"'", b'"', b"\\", b"\n", b"'''", b"a", b"\r", b"\\'", b"\xff", b"\x00"]), max_size=8).map(b"".join)),
    "multiline": st.sampled_from([None, True, False]),
})


def run_text_repr(spec):
    from testtools.compat import text_repr
    vs = []
    s, ml = spec["text"], spec["multiline"]
    kind = "bytes" if isinstance(s, bytes) else "str"
    try:
        r = text_repr(s, ml) if ml is not None else text_repr(s)
    except Exception as e:
        return Case([V("text_repr", "raises-%s-%s" % (kind, type(e).__name__), "text_repr(%r, %r) raised %r" % (s, ml, e))], True, ["raised"])
    if not isinstance(r, str):
        vs.append(V("text_repr", "type", "text_repr returned %r" % type(r)))
    else:
        try:
            back = ast.literal_eval(r)
        except Exception as e:
            back = e
        if type(back) is not type(s) or back != s:
            nl = b"\n" if isinstance(s, bytes) else "\n"
            vs.append(V("text_repr", "roundtrip-%s-multiline=%s" % (kind, True if (ml or (ml is None and nl in s)) else False),
                        "text_repr(%r, multiline=%r) = %s evaluates to %r" % (s, ml, r, back)))
    txt = s if isinstance(s, str) else s.decode("latin-1")
    nt = any(c in txt for c in "'\"\\\n") and len(txt) > 1
    return Case(vs, nt, [kind, "multiline=%s" % ml])


# ---------------------------------------------------------------- (4) assertThat / expectThat in test bodies
BODY_TEXT = ML.HOSTILE.map(lambda s: "".join(c for c in s if not 0xD800 <= ord(c) <= 0xDFFF))   # see ASSUMPTIONS: lone surrogates
BODY_BYTES = st.one_of(st.binary(max_size=6), st.sampled_from([b"'", b"\\", b"\xff\n\"", b"\x00"]))
BODY_HOST_KINDS = ["Equals", "NotEquals", "StartsWith", "EndsWith", "Contains", "MatchesRegex", "DocTestMatches", "IsInstance",
                   "HasLength", "MatchesPredicate", "Never", "AfterPreprocessing", "SameMembers", "KeysEqual", "MatchesStructure",
                   "MatchesDict", "AllMatch", "MatchesListwise", "MatchesSetwise"]
DETAIL_NAMES = ["foo", "bar", "traceback", "Failed expectation", "foo-1", "foo-2"]
FAMILY_POOL = [0, 1, "a", "é", None, True]      # 1 == True but 1 is not True: assertIs is not assertEqual


@st.composite
def s_body(draw):
    steps = []
    for _ in range(draw(st.integers(1, 5))):
        how = draw(st.sampled_from(["expectThat", "assertThat", "assert_that", "expectThat", "family"]))
        if how == "family":
            # the assert* family that TestCase builds on assertThat
            fam = draw(st.sampled_from(["assertEqual", "assertEqual", "assertIn", "assertNotIn", "assertIs", "assertIsNot", "assertIsInstance", "assertIsNone"]))
            steps.append({"how": "assertThat", "family": fam, "kind": "family", "matcher": None,
                          "value": draw(st.sampled_from(FAMILY_POOL)), "other": draw(st.sampled_from(FAMILY_POOL)),
                          "message": draw(ANNOT), "verbose": False})
            continue
        kind = draw(st.sampled_from(["int", "str", "details", "hostile"]))
        message = draw(ANNOT)
        if kind == "int":
            m = draw(ML.tree("int", 1))
            v = draw(ML.INT)
        elif kind == "str":
            m = draw(ML.tree("str", 1))
            v = draw(ML.STR)
        elif kind == "hostile":
            # hostile text / bytes as matchee, matcher argument and annotation, through the assertion methods
            if draw(st.integers(0, 3)) == 0:
                a, v = draw(BODY_BYTES), draw(BODY_BYTES)
            else:
                a, v = draw(BODY_TEXT), draw(BODY_TEXT)
            m = {"m": "Hostile", "kind": draw(st.sampled_from(BODY_HOST_KINDS)), "arg": a}
            message = draw(st.one_of(ANNOT, BODY_TEXT))
        else:
            # "then": the verdict of the second and later match() calls (None: the same as the first) - a matchee /
            # matcher pair that cannot be asked twice (one-shot iterators, callables with side effects)
            m = {"m": "WithDetails", "names": draw(st.lists(st.sampled_from(DETAIL_NAMES), min_size=1, max_size=2, unique=True)),
                 "matches": draw(st.booleans()), "then": draw(st.sampled_from([None, None, True, False]))}
            v = 0
        steps.append({"how": how, "kind": kind, "matcher": m, "value": v, "message": message,
                      "verbose": draw(st.booleans()), "positional": draw(st.booleans())})
    if draw(st.integers(0, 9)) == 0:
        # a loop of a dozen and more failing expectations carrying the same detail names
        names = draw(st.lists(st.sampled_from(["foo", "bar", "traceback", "Failed expectation"]), min_size=1, max_size=2, unique=True))
        burst = [{"how": "expectThat", "kind": "details", "matcher": {"m": "WithDetails", "names": names, "matches": False}, "value": 0,
                  "message": None, "verbose": False} for _ in range(draw(st.integers(11, 14)))]
        at = draw(st.integers(0, len(steps)))
        steps[at:at] = burst
    return {"runner": draw(st.sampled_from(["default", "default", "default", "sync-deferred", "async-deferred"])), "steps": steps, "ending": draw(st.sampled_from(["none", "none", "skip", "xfail", "teardown-skip"])), "user_details": draw(st.lists(st.sampled_from(["foo", "bar", "Failed expectation", "traceback", "foo-2"]), max_size=2, unique=True))}


def run_body(spec):
    with warnings.catch_warnings():
        warnings.simplefilter("ignore")
        return _run_body(spec)


def _mentions(text, needle):
    """Is ``needle`` in ``text``, verbatim or with its control / non-ASCII characters escaped?  ("care should be taken
    to escape control characters", Mismatch.describe)"""
    if _mentions_verbatim(text, needle):
        return True
    # no layout: a report may indent the lines of a description, or drop white space at its end - the words of the
    # needle, in their order, are what has to be there
    pos = 0
    for tok in needle.split():
        k = text.find(tok, pos)
        if k >= 0:
            pos = k + len(tok)
        elif not _mentions_verbatim(text, tok):
            return False
    return True


def _mentions_verbatim(text, needle):
    if needle in text:
        return True
    forms = [repr(needle)[1:-1], ascii(needle)[1:-1], needle.encode("unicode_escape").decode("ascii"),
             "".join(c if c.isprintable() else repr(c)[1:-1] for c in needle)]
    return any(f in text for f in forms)


def _run_body(spec):
    import testtools
    from testtools.content import text_content
    from testtools.matchers import Mismatch, MismatchError
    from testtools.assertions import assert_that
    vs = []
    log = []
    expected_details = []    # (marker bytes) that must be present under distinct names

    class WithDetails:
        """Harness matcher: records the verdict of every match() call; the second and later calls may answer
        differently from the first (``then``)."""

        def __init__(self, names, matches, marker, then=None):
            self.names, self.matches, self.marker = names, matches, marker
            self.then = matches if then is None else then
            self.calls = []

        def __str__(self):
            return "WithDetails(%r)" % (self.names,)

        def match(self, x):
            verdict = self.then if self.calls else self.matches
            self.calls.append(verdict)
            if verdict:
                return None
            return Mismatch("detailed mismatch", {n: text_content("%s/%s" % (self.marker, n)) for n in self.names})

    steps = spec["steps"]
    env = ML.Env(None)
    plan = []           # [step spec, matcher, documented verdict, live matchee, mismatch description or None]
    for i, st_ in enumerate(steps):
        live, said = st_["value"], None
        if st_["kind"] == "family":
            v, o, fam = st_["value"], st_["other"], st_["family"]
            pool = [0, 1, "a"]
            want = {"assertEqual": lambda: o == v, "assertIn": lambda: v in pool, "assertNotIn": lambda: v not in pool,
                    "assertIs": lambda: v is o, "assertIsNot": lambda: v is not o,
                    "assertIsInstance": lambda: isinstance(v, str), "assertIsNone": lambda: v is None}[fam]()
            matcher = None
        elif st_["kind"] == "details":
            matcher = WithDetails(st_["matcher"]["names"], st_["matcher"]["matches"], "M%d" % i, st_["matcher"].get("then"))
            want = st_["matcher"]["matches"]
            said = "detailed mismatch"
        elif st_["kind"] == "hostile":
            # stateless matchers over immutable matchees: a second, identical construction says what the verdict
            # and the description are (the verdicts themselves are C06's business)
            hs = {"kind": st_["matcher"]["kind"], "arg": st_["matcher"]["arg"], "value": st_["value"], "wrap": "none", "tuple": None, "message": ""}
            matcher, live = build_hostile(hs)
            try:
                twin = build_hostile(hs)[0].match(live)
                want, said = twin is None, (twin.describe() if twin is not None else None)
            except Exception as e:
                return Case([V("match-raises", "%s-%s" % (hs["kind"], type(e).__name__), "match / describe raised %r" % (e,))], True, ["match-raised"])
        else:
            try:
                matcher = ML.build(st_["matcher"], env)
            except Exception:
                if _childless(st_["matcher"]):
                    return Case([], False, ["construction-refused"])
                raise
            want = ML.ref(st_["matcher"], st_["value"], env)
        plan.append([st_, matcher, want, live, said])

    runner = spec.get("runner", "default")

    class T(testtools.TestCase):
        if runner == "sync-deferred":
            from testtools.twistedsupport import SynchronousDeferredRunTest as run_tests_with
        elif runner == "async-deferred":
            from testtools.twistedsupport import AsynchronousDeferredRunTest
            run_tests_with = AsynchronousDeferredRunTest.make_factory(timeout=300)

        def test_body(self):
            for n in spec["user_details"]:
                self.addDetail(n, text_content("USER/" + n))
            for i, (st_, matcher, want, live, said) in enumerate(plan):
                log.append(("before", i))
                args, kw = (live, matcher), {}
                if st_.get("positional"):
                    # (matchee, matcher, message, verbose) is the documented parameter order of all three
                    args += (st_["message"] or "", bool(st_["verbose"]))
                else:
                    if st_["message"]:
                        kw["message"] = st_["message"]
                    if st_["verbose"]:
                        kw["verbose"] = True
                try:
                    if st_["kind"] == "family":
                        v, o, msg = st_["value"], st_["other"], st_["message"]
                        pool = [0, 1, "a"]
                        {"assertEqual": lambda: self.assertEqual(o, v, msg), "assertIn": lambda: self.assertIn(v, pool, msg),
                         "assertNotIn": lambda: self.assertNotIn(v, pool, msg), "assertIs": lambda: self.assertIs(o, v, msg),
                         "assertIsNot": lambda: self.assertIsNot(o, v, msg), "assertIsInstance": lambda: self.assertIsInstance(v, str, msg),
                         "assertIsNone": lambda: self.assertIsNone(v, msg)}[st_["family"]]()
                    elif st_["how"] == "expectThat":
                        self.expectThat(*args, **kw)
                    elif st_["how"] == "assertThat":
                        self.assertThat(*args, **kw)
                    else:
                        assert_that(*args, **kw)
                except MismatchError as e:
                    log.append(("raised", i, st_["how"]))
                    caught.append((i, e))
                    raise
                except Exception as e:
                    if st_["kind"] == "family" and isinstance(e, self.failureException):
                        # the assert* family is outside the statement: that it fails the test (with the annotation
                        # in the text) is all that is asked, not the class of the failure
                        log.append(("raised", i, st_["how"]))
                        caught.append((i, e))
                        raise
                    log.append(("raised-other", i, st_["how"], repr(e)))
                    raise
                log.append(("after", i))
            log.append(("end",))
            if spec.get("ending") == "skip":
                self.skipTest("skipping at the end")
            elif spec.get("ending") == "xfail":
                self.expectFailure("known breakage", self.assertEqual, 1, 2)
            elif spec.get("ending") == "teardown-skip":
                self.addCleanup(self.skipTest, "skip from a cleanup")

        def test_sibling(self):
            # another test of the same class: one expectation, and it matches
            self.expectThat(0, WithDetails(["foo"], True, "SIBLING"))

    caught = []
    res = Ext()
    T("test_body").run(res)
    # "exactly when match() returns a mismatch": the answer to the first match() call of an assertion is the verdict
    # (a one-shot matchee - an iterator, a callable with side effects - has no other); the harness matcher is never
    # asked again by the oracle
    # descriptions of the mismatches (the tree matchers of the int / str domain are stateless, the matchees immutable)
    for entry in plan:
        st_, matcher, want, live, said = entry
        if st_["kind"] in ("int", "str") and not want:
            try:
                inner = matcher.match(live)
                entry[4] = inner.describe() if inner is not None else None
            except Exception as ex:
                vs.append(V("mismatch-error", "describe-raises", "describing the mismatch again raised %r" % (ex,)))

    def requirements(st_, matcher, said):
        """What the text of the reported MismatchError has to contain: (bucket, needle) pairs."""
        req = []
        if said is not None:
            req.append(("description-lost", said))
        if st_["message"]:
            req.append(("message-lost", st_["message"]))
        if st_["verbose"]:
            req.append(("verbose-form", "Matchee:"))
            try:
                req.append(("verbose-form-matcher", str(matcher)))
            except Exception:
                pass
        return req

    # what the raised MismatchError says: the value, the verbosity asked for, the annotation, the mismatch's own words
    for i, e in caught:
        st_, matcher, want, live, said = plan[i]
        try:
            text = str(e)
        except Exception as ex:
            vs.append(V("mismatch-error", "str-raises", "str(MismatchError) raised %r" % (ex,)))
            continue
        if st_["kind"] == "family":
            if st_["message"] and not _mentions(text, st_["message"]):
                vs.append(V("mismatch-error", "family-message-lost", "%s(..., %r): str(MismatchError) is %r" % (st_["family"], st_["message"], text[:200])))
            continue
        # the attributes are read where the error has them (their names are not part of the statement)
        e_matchee, e_verbose = getattr(e, "matchee", live), getattr(e, "verbose", st_["verbose"])
        if e_matchee is not live and e_matchee != live:
            vs.append(V("mismatch-error", "matchee", "MismatchError.matchee is %r, the asserted value was %r" % (e_matchee, live)))
        if bool(e_verbose) != bool(st_["verbose"]):
            vs.append(V("mismatch-error", "verbose-flag", "%s(..., verbose=%r) raised a MismatchError with verbose=%r" % (st_["how"], st_["verbose"], e_verbose)))
        for bucket, needle in requirements(st_, matcher, said):
            if not _mentions(text, needle):
                vs.append(V("mismatch-error", bucket, "%s(..., message=%r, verbose=%r): str(MismatchError) %r lacks %r" % (
                    st_["how"], st_["message"], st_["verbose"], text[:200], needle[:200])))
    # model
    stop = None
    any_expect_mismatch = False
    for i, (st_, matcher, want, live, said) in enumerate(plan):
        if not want:
            if st_["how"] == "expectThat":
                any_expect_mismatch = True
                if st_["kind"] == "details":
                    expected_details += ["M%d/%s" % (i, n) for n in st_["matcher"]["names"]]
            else:
                stop = i
                if st_["kind"] == "details" and st_["how"] == "assertThat":
                    expected_details += ["M%d/%s" % (i, n) for n in st_["matcher"]["names"]]
                break
    want_log = []
    for i in range(len(plan)):
        want_log.append(("before", i))
        if stop == i:
            want_log.append(("raised", i, plan[i][0]["how"]))
            break
        want_log.append(("after", i))
    if stop is None:
        want_log.append(("end",))
    if log != want_log:
        vs.append(V("raises-iff-mismatch", plan[min(len(log), len(plan)) - 1][0]["how"] if log else "empty",
                    "execution log %r, expected %r" % (log, want_log)))
    outs = [e for e in res.events if e[0].startswith("add")]
    if len(outs) != 1:
        vs.append(V("outcome", "count", "%d outcomes" % len(outs)))
    else:
        name = outs[0][0]
        want_name = "addFailure" if (stop is not None or any_expect_mismatch) else "addSuccess"
        ending = spec.get("ending", "none")
        if stop is None and ending != "none":
            if any_expect_mismatch:      # the delayed failure must still make the test fail
                want_name = name if name in ("addFailure", "addError") else "addFailure"
            else:
                want_name = {"skip": "addSkip", "xfail": "addExpectedFailure", "teardown-skip": "addSkip"}[ending]
        if name != want_name:
            vs.append(V("outcome", "%s-instead-of-%s" % (name, want_name), "outcome %s, expected %s (expectThat mismatch=%s, stopped at %r)" % (
                name, want_name, any_expect_mismatch, stop)))
        det = outs[0][2].get("details") or {}
        texts = {}
        for n, d in det.items():
            if isinstance(d[2], bytes):
                texts[n] = d[2]
            else:       # the content raised when it was read: nothing of it reaches a reporter
                texts[n] = b""
                vs.append(V("details", "unreadable-%s" % type(d[2]).__name__, "reading detail %r raised %r" % (n, d[2])))
        for n in spec["user_details"]:
            if texts.get(n) != ("USER/" + n).encode():
                vs.append(V("details", "user-detail-clobbered", "user detail %r is now %r" % (n, texts.get(n))))
        pool = list(texts.values())
        for marker in expected_details:
            if marker.encode() in pool:
                pool.remove(marker.encode())
            else:
                vs.append(V("details", "mismatch-detail-missing", "mismatch detail %r not delivered; got names %r" % (marker, sorted(texts))))
        failed = [entry for i, entry in enumerate(plan) if not entry[2] and entry[0]["how"] == "expectThat" and (stop is None or i < stop)]
        # every failed expectation is on record with what an assertThat would have raised: the mismatch's words, the
        # annotation and, when verbose, matchee and matcher.  Where and how is the implementation's choice (name of the
        # detail, wording around the text, one detail per expectation or one for all): every detail that is not one of
        # the harness's own markers is looked at
        cands = [t.decode("utf-8", "replace") for n, t in sorted(texts.items()) if not re.fullmatch(rb"(USER|M\d+)/[^/]*", t)]
        for entry in failed:
            req = requirements(entry[0], entry[1], entry[4])
            if req and not any(all(_mentions(t, needle) for _, needle in req) for t in cands):
                lacking = sorted({b for b, needle in req if not any(_mentions(t, needle) for t in cands)}) or ["assignment"]
                vs.append(V("details", "failed-expectation-text-" + "+".join(lacking),
                            "expectThat(..., message=%r, verbose=%r): no detail holds %r; names %r, texts end in %r" % (
                                entry[0]["message"], entry[0]["verbose"], [n[:80] for _, n in req], sorted(texts), [t[-160:] for t in cands[:3]])))
                break
    if runner == "default" and (any_expect_mismatch or stop is not None):
        # a failed expectation concerns the test that made it, not the next test of the class
        res2 = Ext()
        T("test_sibling").run(res2)
        outs2 = [e for e in res2.events if e[0].startswith("add")]
        names2 = [e[0] for e in outs2]
        fe2 = sorted(n for e in outs2 for n in (e[2].get("details") or {}) if n.startswith("Failed expectation"))
        if names2 != ["addSuccess"] or fe2:
            vs.append(V("outcome", "sibling-test-%s" % "+".join(names2), "a second test of the class (one matching expectThat), run after the "
                        "failing one, ended in %r with details %r" % (names2, fe2)))
    nt = len(steps) >= 2 and (any_expect_mismatch or stop is not None)
    kinds = {st_["kind"] for st_ in steps}
    return Case(vs, nt, ["expect-mismatch" if any_expect_mismatch else "", "stopped" if stop is not None else "ran-to-end", "ending=" + spec.get("ending", "none"),
                         "details" if expected_details else "", "runner=" + runner, "steps>=12" if len(steps) >= 12 else "",
                         "hostile-step" if "hostile" in kinds else "", "family-step" if "family" in kinds else "",
                         "stateful-matcher" if any(st_["kind"] == "details" and st_["matcher"].get("then") not in (None, st_["matcher"]["matches"]) for st_ in steps) else "",
                         "positional" if any(st_.get("positional") for st_ in steps) else ""], {"log": log[:10]})


# ---------------------------------------------------------------- every public matcher has a str()
def _samples():
    import testtools.matchers as tm
    return {
        "AfterPreprocessing": lambda: tm.AfterPreprocessing(len, tm.Equals(1)), "AllMatch": lambda: tm.AllMatch(tm.Equals(1)),
        "Always": tm.Always, "Annotate": lambda: tm.Annotate("x", tm.Equals(1)), "AnyMatch": lambda: tm.AnyMatch(tm.Equals(1)),
        "Contains": lambda: tm.Contains(1), "ContainsAll": lambda: tm.ContainsAll([1]), "ContainedByDict": lambda: tm.ContainedByDict({"a": tm.Equals(1)}),
        "ContainsDict": lambda: tm.ContainsDict({"a": tm.Equals(1)}), "DirContains": lambda: tm.DirContains(["a"]),
        "DirExists": tm.DirExists, "DocTestMatches": lambda: tm.DocTestMatches("a"), "EndsWith": lambda: tm.EndsWith("a"),
        "Equals": lambda: tm.Equals(1), "FileContains": lambda: tm.FileContains("a"), "FileExists": tm.FileExists,
        "GreaterThan": lambda: tm.GreaterThan(1), "HasLength": lambda: tm.HasLength(1), "HasPermissions": lambda: tm.HasPermissions("0644"),
        "Is": lambda: tm.Is(None), "IsDeprecated": lambda: tm.IsDeprecated(tm.Contains("x")), "IsInstance": lambda: tm.IsInstance(int),
        "KeysEqual": lambda: tm.KeysEqual("a"), "LessThan": lambda: tm.LessThan(1), "MatchesAll": lambda: tm.MatchesAll(tm.Equals(1)),
        "MatchesAny": lambda: tm.MatchesAny(tm.Equals(1)), "MatchesDict": lambda: tm.MatchesDict({"a": tm.Equals(1)}),
        "MatchesException": lambda: tm.MatchesException(ValueError), "MatchesListwise": lambda: tm.MatchesListwise([tm.Equals(1)]),
        "MatchesPredicate": lambda: tm.MatchesPredicate(bool, "%s"), "MatchesPredicateWithParams": lambda: tm.MatchesPredicateWithParams(lambda a, b: a == b, "{0} {1}")(1),
        "MatchesRegex": lambda: tm.MatchesRegex("a"), "MatchesSetwise": lambda: tm.MatchesSetwise(tm.Equals(1)),
        "MatchesStructure": lambda: tm.MatchesStructure(a=tm.Equals(1)), "Never": tm.Never, "NotEquals": lambda: tm.NotEquals(1),
        "Not": lambda: tm.Not(tm.Equals(1)), "PathExists": tm.PathExists, "Raises": lambda: tm.Raises(), "raises": lambda: tm.raises(ValueError),
        "SameMembers": lambda: tm.SameMembers([1]), "SamePath": lambda: tm.SamePath("/"), "StartsWith": lambda: tm.StartsWith("a"),
        "TarballContains": lambda: tm.TarballContains(["a"]), "Warnings": lambda: tm.Warnings(), "WarningMessage": lambda: tm.WarningMessage(UserWarning),
    }


def run_public(spec):
    name = spec["matcher"]
    samples = _samples()
    vs = []
    m = None
    if name in samples:
        m = samples[name]()
    else:
        # a public name the harness has no sample for (added after this check was written): not a violation of
        # anything; str() is asked if it can be made without arguments
        import testtools.matchers as tm
        try:
            m = getattr(tm, name)()
        except Exception:
            return Case(vs, False, ["public-without-sample=" + name])
    if m is not None:
        try:
            if not isinstance(str(m), str):
                vs.append(V("str", name + "-type", "str() not text"))
        except Exception as e:
            vs.append(V("str", "%s-raises-%s" % (name, type(e).__name__), "str(%s) raised %r" % (name, e)))
    return Case(vs, True, ["public=" + name])


def custom_all_matchers(ctx):
    """Instantiate every public callable of testtools.matchers.__all__ and str() it."""
    import testtools.matchers as tm
    out = []
    for name in tm.__all__:
        if name in ("Matcher", "Mismatch", "MismatchError", "MismatchDecorator"):
            continue
        spec = {"matcher": name}
        out.append((spec, run_public(spec)))
    return out


def _enum_detail_collisions():
    """Two or three failing assertions in one body whose mismatch details share names, including names that look
    like the suffixed form of another (foo / foo-1) or leave a gap in the suffix sequence (foo / foo-2), with and
    without a user detail already under that name."""
    groups = [["foo", "foo-1"], ["foo"], ["foo-1"], ["traceback", "traceback-1"], ["Failed expectation", "Failed expectation-1"], ["foo", "foo-2"]]
    def step(how, names):
        return {"how": how, "kind": "details", "matcher": {"m": "WithDetails", "names": names, "matches": False}, "value": 0, "message": "", "verbose": False}
    for g1 in groups:
        for g2 in groups:
            for how2 in ("expectThat", "assertThat"):
                for user in ([], ["foo"], ["foo-1"], ["traceback"], ["foo-2"]):
                    yield {"runner": "default", "steps": [step("expectThat", g1), step(how2, g2)], "ending": "none", "user_details": user}
            yield {"runner": "default", "steps": [step("expectThat", g1), step("expectThat", g2), step("assertThat", g1)], "ending": "none", "user_details": []}


GRID_TEXTS = ["é", "\x00\x1b", "\U0001f600中", "'\"\\", "a\nb\r"]


def _enum_assertion_grid():
    """Single assertions (followed by one matching expectation), exhaustively over the dimensions that random
    bodies reach too rarely."""
    def body(*steps):
        return {"runner": "default", "steps": list(steps), "ending": "none", "user_details": []}
    tail = {"how": "expectThat", "kind": "details", "matcher": {"m": "WithDetails", "names": ["bar"], "matches": True}, "value": 0, "message": "", "verbose": False}
    hows = ("expectThat", "assertThat", "assert_that")
    # (a) a matcher whose second answer differs from the first
    for how in hows:
        for first in (False, True):
            for then in (False, True):
                for positional in (False, True):
                    yield body({"how": how, "kind": "details", "matcher": {"m": "WithDetails", "names": ["foo"], "matches": first, "then": then},
                                "value": 0, "message": "note" if positional else "", "verbose": False, "positional": positional}, tail)
    # (b) message x verbose x positional / keyword for a plain mismatch
    for how in hows:
        for message in ("", "note"):
            for verbose in (False, True):
                for positional in (False, True):
                    yield body({"how": how, "kind": "int", "matcher": ML.M("Equals", "int", k=3), "value": 4, "message": message,
                                "verbose": verbose, "positional": positional}, tail)
    # (b') a composite mismatch without children (MatchesAny of no alternatives) is a mismatch all the same
    for how in hows:
        for verbose in (False, True):
            for m in (ML.M("MatchesAny", "int", inner=[]), ML.M("MatchesAll", "int", inner=[ML.M("MatchesAny", "int", inner=[])], first_only=False)):
                yield body({"how": how, "kind": "int", "matcher": m, "value": 1, "message": "", "verbose": verbose, "positional": verbose}, tail)
    # (b") a failed expectation followed by a skip / expected failure / skip from a cleanup, under each runner
    for runner in ("default", "sync-deferred", "async-deferred"):
        for ending in ("skip", "xfail", "teardown-skip"):
            for first in (False, True):
                b = body({"how": "expectThat", "kind": "details", "matcher": {"m": "WithDetails", "names": ["foo"], "matches": first},
                          "value": 0, "message": "", "verbose": False, "positional": False}, tail)
                b.update(runner=runner, ending=ending)
                yield b
    # (c) the assert* family over values that are equal without being identical
    pool = [0, 1, True, "a", None]
    for fam in ("assertEqual", "assertIn", "assertNotIn", "assertIs", "assertIsNot", "assertIsInstance", "assertIsNone"):
        for v in pool:
            for o in (pool if fam in ("assertEqual", "assertIs", "assertIsNot") else [0]):
                yield body({"how": "assertThat", "family": fam, "kind": "family", "matcher": None, "value": v, "other": o,
                            "message": "note" if v == 1 else "", "verbose": False}, tail)
    # (d) hostile text as matchee, argument and annotation
    for how in ("expectThat", "assertThat"):
        for kind in ("Equals", "IsInstance", "MatchesPredicate"):
            for t in GRID_TEXTS:
                yield body({"how": how, "kind": "hostile", "matcher": {"m": "Hostile", "kind": kind, "arg": t + "x"}, "value": t, "message": t,
                            "verbose": kind == "Equals", "positional": False}, tail)


# ---------------------------------------------------------------- (5) description branches that need a particular argument
BIG = {
    "dict12": lambda: {"key%02d" % i: i for i in range(12)},
    "dict12b": lambda: {"key%02d" % i: i + (i == 7) for i in range(12)},
    "dict11": lambda: {"key%02d" % i: i for i in range(11)},
    "list30": lambda: list(range(30)),
    "list30b": lambda: list(range(29, -1, -1)) + [3],
    "set30": lambda: set(range(30)),
    "set29": lambda: set(range(29)),
    "nested": lambda: [["a\nb", "é'\"", b"\xff\n"], {"k": ("\x00", None)}, "x" * 40],
    "nested_b": lambda: [["a\nb", "é'\"", b"\xff\n"], {"k": ("\x00", 1.5)}, "x" * 40],
    "long_str": lambda: "line one é\n" + "y" * 70,
    "long_bytes": lambda: b"line one \xff\n" + b"y" * 70,
    "none": lambda: None,
    "huge_int": lambda: 10 ** 80,
    "huge_int_b": lambda: 10 ** 80 + 1,
    "float": lambda: 1.5,
    "obj": lambda: ML.Obj("a" * 40, ["b" * 40]),
    "tuple": lambda: ("t" * 40, 1, None, b"\xff" * 20),
}
PRED_TEMPLATES = ["%s is odd", "%d is odd", "%r", "%5.2f!", "<%s>", "%i%%"]       # "'%s', '%d' or '%f'" (MatchesPredicate docstring)
PARAM_TEMPLATES = [("{0:d} is not divisible by {1:d}", "pos"), ("{0!r} vs {1!r}", "pos"), ("{} and {}", "pos"),
                   ("{0:03d}/{k:>4}", "kw"), ("{0} !~ {k!r:>6}", "kw")]
ISINSTANCE_TYPES = [["str", "bool"], ["str", "bytes"], ["int|str", "bytes"], ["str"], ["int|str"], ["bool", "int|str"]]
ISINSTANCE_VALUES = ["none", "float", "long_bytes", "long_str", "list30"]
SETWISE_KS = [[7, 8, 9], [7, 8], [7]]
SETWISE_VALUES = [[], [1], [1, 2], [7, 1], [7], [1, 2, 3, 4], [7, 8, 9, 1], [8, 7]]
BINARY_PAIRS = [("dict12", "dict12b"), ("dict12", "none"), ("list30", "list30b"), ("set30", "set29"), ("nested", "nested_b"), ("long_str", "long_bytes"),
                ("long_str", "none"), ("huge_int", "huge_int_b"), ("huge_int", "long_str"), ("obj", "none"), ("tuple", "list30"), ("float", "dict12")]
NON_EXC_INFO = ["none", "float", "long_str", "list30", "huge_int"]
PATH_MATCHERS = ["PathExists", "DirExists", "FileExists", "DirContains", "FileContains", "HasPermissions", "SamePath", "TarballContains", "FileContains(matcher=)", "DirContains(matcher=)"]
GRID_FS = {"file_a": "hello\n", "file_a_mode": "0644", "file_b": "x", "dir_a": ["inner", "x"], "tar_a": ["m1", "d/m3"]}


def _enum_describe_grid():
    for t in PRED_TEMPLATES:
        for v in (-1, 0, 3):
            yield {"g": "predicate", "template": t, "value": v}
    for t, form in PARAM_TEMPLATES:
        for v in (-1, 3):
            yield {"g": "predicate-params", "template": t, "form": form, "k": 2, "value": v}
    for types in ISINSTANCE_TYPES:
        for v in ISINSTANCE_VALUES:
            yield {"g": "isinstance", "types": types, "value": v}
    for ks in SETWISE_KS:
        for v in SETWISE_VALUES:
            if sorted(ks) != sorted(v):
                yield {"g": "setwise", "ks": ks, "value": v}
    for ref_, actual in BINARY_PAIRS:
        for m in ("Equals", "Is", "NotEquals", "LessThan", "GreaterThan", "_FlippedEquals"):
            yield {"g": "binary", "m": m, "ref": ref_, "value": actual}
    for m, ref_, actual in [("SameMembers", "list30", "list30b"), ("SameMembers", "nested", "nested_b"), ("KeysEqual", "dict12", "dict11"),
                            ("ContainsAll", "list30b", "list30"), ("Contains", "long_str", "nested"), ("Contains", "float", "set30")]:
        yield {"g": "binary", "m": m, "ref": ref_, "value": actual}
    # matchees outside the documented domain: a verdict is not required of the matcher, a description of every
    # mismatch it does return is
    for needle in (1, "a", None):
        for v in ("huge_int", "float", "none"):
            yield {"g": "contains-non-container", "needle": needle, "value": v}
    for form in ("type", "instance", "tuple"):
        for v in NON_EXC_INFO:
            yield {"g": "exception-non-exc_info", "form": form, "value": v}
    for kw in (["filename"], ["line"], ["filename", "line"], ["message", "filename", "lineno", "line"]):
        for line in (None, "src é"):
            yield {"g": "warning-message", "kw": kw, "line": line}
    for m in PATH_MATCHERS:
        for name in ("missing", "file_a", "dir_a", "tar_a", "link_dangling"):
            for flavour in ("Path", "bytes"):
                yield {"g": "path-flavour", "m": m, "value": name, "flavour": flavour}


class _NotThere(Exception):
    pass


def _build_direct(spec, env):
    """-> (matcher, matchee, may_raise): may_raise marks matchees outside the matcher's documented domain."""
    import testtools.matchers as tm
    from testtools.matchers import _basic
    g = spec["g"]
    if g == "predicate":
        return tm.MatchesPredicate(lambda x: False, spec["template"]), spec["value"], False
    if g == "predicate-params":
        factory = tm.MatchesPredicateWithParams(lambda x, *a, **kw: False, spec["template"])
        return (factory(k=spec["k"]) if spec["form"] == "kw" else factory(spec["k"])), spec["value"], False
    if g == "isinstance":
        types = [{"int": int, "str": str, "bool": bool, "bytes": bytes, "int|str": int | str}[t] for t in spec["types"]]
        return tm.IsInstance(*types), BIG[spec["value"]](), False
    if g == "setwise":
        return tm.MatchesSetwise(*[tm.Equals(k) for k in spec["ks"]]), list(spec["value"]), False
    if g == "binary":
        ref_, actual = BIG[spec["ref"]](), BIG[spec["value"]]()
        m = spec["m"]
        if m == "NotEquals":
            actual = BIG[spec["ref"]]()            # an equal copy: the mismatching value of NotEquals
        if m == "KeysEqual":
            return tm.KeysEqual(ref_), actual, False
        cls = getattr(_basic, m, None) if m == "_FlippedEquals" else getattr(tm, m)
        if cls is None:
            raise _NotThere(m)      # a private helper of today's tree: nothing to check where it does not exist
        # ordering two values of unrelated types is not defined (TypeError of the comparison itself)
        may_raise = m in ("LessThan", "GreaterThan") or (m == "Contains")
        return cls(ref_), actual, may_raise
    if g == "contains-non-container":
        return tm.Contains(spec["needle"]), BIG[spec["value"]](), True
    if g == "exception-non-exc_info":
        expected = {"type": ValueError, "instance": ValueError("boom é"), "tuple": (ValueError, KeyError)}[spec["form"]]
        return tm.MatchesException(expected), BIG[spec["value"]](), True
    if g == "warning-message":
        pool = {"message": tm.Equals("other"), "filename": tm.EndsWith("other.py"), "lineno": tm.Equals(99), "line": tm.Equals("other line")}
        matchee = warnings.WarningMessage(message=UserWarning("old é"), category=UserWarning, filename="somefile.py", lineno=3, line=spec["line"])
        return tm.WarningMessage(UserWarning, **{k: pool[k] for k in spec["kw"]}), matchee, False
    if g == "path-flavour":
        import os
        import pathlib
        m, name = spec["m"], spec["value"]
        path = env.path(name)
        matchee = pathlib.Path(path) if spec["flavour"] == "Path" else os.fsencode(path)
        matcher = {"PathExists": tm.PathExists, "DirExists": tm.DirExists, "FileExists": tm.FileExists,
                   "DirContains": lambda: tm.DirContains(["inner", "zzz"]), "FileContains": lambda: tm.FileContains("something else"),
                   "HasPermissions": lambda: tm.HasPermissions("0123"), "SamePath": lambda: tm.SamePath(env.path("file_b")),
                   "TarballContains": lambda: tm.TarballContains(["m1", "nope"]),
                   "FileContains(matcher=)": lambda: tm.FileContains(matcher=tm.Equals("something else")),
                   "DirContains(matcher=)": lambda: tm.DirContains(matcher=tm.HasLength(7))}[m]()
        # what the wrapped os / tarfile call says about a path that is not of the expected kind is that call's business
        # ... and so is whether bytes paths are taken at all (no docstring of the filesystem matchers promises them)
        may_raise = (m.startswith("FileContains") and name != "file_a") or (m == "TarballContains" and name != "tar_a") or \
            (m == "HasPermissions" and name in ("missing", "link_dangling")) or spec["flavour"] == "bytes"
        return matcher, matchee, may_raise
    raise AssertionError(spec)


def run_direct(spec):
    with warnings.catch_warnings():
        warnings.simplefilter("ignore")
        vs = []
        tag = spec["g"] + ("-" + spec["m"] if "m" in spec else "")
        with ML.Env(dict(GRID_FS) if spec["g"] == "path-flavour" else None) as env:
            try:
                matcher, matchee, may_raise = _build_direct(spec, env)
            except _NotThere:
                return Case([], False, ["group=" + spec["g"], "not-in-this-tree"])
            try:
                if not isinstance(str(matcher), str):
                    vs.append(V("str", tag + "-type", "str(matcher) is not text"))
            except Exception as e:
                vs.append(V("str", "%s-raises-%s" % (tag, type(e).__name__), "str(matcher) raised %r" % (e,)))
            try:
                mm = matcher.match(matchee)
            except Exception as e:
                if not may_raise:
                    vs.append(V("match-raises", "%s-%s" % (tag, type(e).__name__), "match(%r) raised %r" % (matchee, e)))
                return Case(vs, True, ["group=" + spec["g"], "match-raised"])
            if mm is not None:
                check_mismatch(vs, tag, matcher, matchee, mm, "")
        return Case(vs, mm is not None, ["group=" + spec["g"], "mismatch" if mm is not None else "match"])


def subchecks(tier):
    q = tier == "quick"
    return [
        Sub("describe_over_matcher_language", run_tree, s_tree_case(), 2500 if q else 200000),
        Sub("hostile_text", run_hostile, s_hostile(), 2500 if q else 200000),
        Sub("text_repr_roundtrip", run_text_repr, TEXT_REPR, 5000 if q else 500000),
        Sub("assert_expect_bodies", run_body, s_body(), 800 if q else 40000),
        Sub("detail_name_collisions", run_body, enum=_enum_detail_collisions, enum_complete=True,
            note="every pair (and some triples) of failing assertions whose mismatch details are named foo / foo-1 / foo-2 / traceback(-1) / "
                 "Failed expectation(-1), x expectThat / assertThat, x a user detail already under one of the names"),
        Sub("assertion_grid", run_body, enum=_enum_assertion_grid, enum_complete=True,
            note="one assertion per body: stateful matcher (first / later verdict) x the three entry points x positional; message x verbose "
                 "x positional; childless composite mismatches; endings x runners after a failed expectation; the assert* family over {0, 1, True, 'a', None}; five hostile texts x three matcher kinds"),
        Sub("describe_grid", run_direct, enum=_enum_describe_grid, enum_complete=True,
            note="description branches that need a particular argument: %d / %r / %f and {0:d} / {k!r:>6} predicate templates; IsInstance "
                 "of several types; MatchesSetwise with matchers and values left over; the long (> 70 characters) form for dicts, sets, "
                 "ints, None, objects, str against bytes; Contains / MatchesException on matchees of the wrong kind; WarningMessage "
                 "filename= / line=; pathlib.Path and bytes paths for the filesystem matchers"),
        Sub("every_public_matcher_str", run_public, custom=custom_all_matchers),
        Sub("text_repr_fuzz", run_text_repr, custom=fuzz_custom("props.c07", "text_repr_roundtrip", "testtools.compat", 40000),
            note="atheris/libFuzzer coverage-guided campaign over the text_repr round trip (thorough tier only)"),
    ]
