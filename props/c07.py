"""C07 - mismatches are always describable; assertThat/expectThat report them faithfully."""
import ast
import re
import warnings

from hypothesis import strategies as st

from vp.core import Case, Sub, V
from vp import matchers as ML
from vp.results import Ext
from vp.fuzz import fuzz_custom

PROPERTY = "C07"
RULE = ("(1) every matcher expression of the C06 language (all stock matchers) x values of its domain: str(matcher) "
        "is text; for mismatching values describe() is text, get_details() a dict of Content, "
        "str(MismatchError) verbose/non-verbose never raises; (2) hostile text/bytes (any code point incl. astral, "
        "combining, NUL, lone surrogates, quotes, backslashes, triple quotes, CR/LF) as matchee and as matcher "
        "argument; (3) ast.literal_eval(text_repr(s, multiline)) == s for all str/bytes and multiline in "
        "{None, True, False}; (4) generated test bodies mixing assertThat / assert_that / expectThat with "
        "matching and mismatching pairs and detail-carrying mismatches, loops of 11-14 failing expectations with the "
        "same detail names, endings (skip / expected failure / skip from a cleanup) and the three runners "
        "(RunTest, SynchronousDeferredRunTest, AsynchronousDeferredRunTest on the real reactor). Non-trivial: non-ASCII or control "
        "characters in the matchee, or a nested tree, or verbose, or >= 2 assertions in a body; distinct = "
        "distinct canonical spec.")
ASSUMPTIONS = [
    "the Deferred matchers of testtools.twistedsupport are covered by C20, not here",
    "values come from the matcher's documented domain (see C06)",
]

ANNOT = st.sampled_from(["", "note", "ünï 'q' \"d\"", "line\nbreak"])


# ---------------------------------------------------------------- (1) describe over the C06 language
@st.composite
def s_tree_case(draw):
    domain = draw(st.sampled_from(ML.DOMAINS))
    depth = draw(st.sampled_from([1, 2, 0, 3]))
    spec = draw(ML.tree(domain, depth))
    value = draw(ML.VALUES[domain])
    fs = draw(ML.FS) if ML.uses_domain(spec, "path") else None
    return {"domain": domain, "matcher": spec, "value": value, "fs": fs,
            "verbose": draw(st.booleans()), "message": draw(ANNOT)}


def _stable_description(vs, tag, mismatch):
    """describe() is not a one-shot: asking again gives the same text."""
    try:
        a, b = mismatch.describe(), mismatch.describe()
    except Exception:
        return          # reported by the callers' own clauses
    if a != b:
        vs.append(V("describe", "%s-changes-on-second-call" % tag, "describe() gave %r and then %r" % (a[:120], b[:120])))


def check_mismatch(vs, tag, matcher, matchee, mismatch, message=""):
    _stable_description(vs, tag, mismatch)
    """All the 'describable' clauses for one mismatch."""
    from testtools.matchers import MismatchError, Annotate
    try:
        d = mismatch.describe()
        if not isinstance(d, str):
            vs.append(V("describe", tag + "-type", "describe() returned %r" % type(d)))
    except Exception as e:
        vs.append(V("describe", "%s-raises-%s" % (tag, type(e).__name__), "describe() raised %r" % (e,)))
    try:
        det = mismatch.get_details()
        if not isinstance(det, dict):
            vs.append(V("get_details", tag + "-type", "get_details() returned %r" % type(det)))
        else:
            for k, c in det.items():
                if not (hasattr(c, "iter_bytes") and hasattr(c, "content_type")):
                    vs.append(V("get_details", tag + "-value", "detail %r is %r, not a Content" % (k, c)))
    except Exception as e:
        vs.append(V("get_details", "%s-raises-%s" % (tag, type(e).__name__), "get_details() raised %r" % (e,)))
    for verbose in (False, True):
        try:
            s = str(MismatchError(matchee, Annotate.if_message(message, matcher), mismatch, verbose))
            if not isinstance(s, str):
                vs.append(V("MismatchError", tag, "str() returned %r" % type(s)))
        except Exception as e:
            vs.append(V("MismatchError", "%s-verbose=%s-raises-%s" % (tag, verbose, type(e).__name__),
                        "str(MismatchError(verbose=%s)) raised %r" % (verbose, e)))


def run_tree(spec):
    with warnings.catch_warnings():
        warnings.simplefilter("ignore")
        return _run_tree(spec)


def _run_tree(spec):
    vs = []
    domain, ms, value = spec["domain"], spec["matcher"], spec["value"]
    top = ms["m"]
    with ML.Env(spec.get("fs")) as env:
        matcher = ML.build(ms, env)
        try:
            s = str(matcher)
            if not isinstance(s, str):
                vs.append(V("str", top + "-type", "str(matcher) returned %r" % type(s)))
        except Exception as e:
            vs.append(V("str", "%s-raises-%s" % (_culprit(ms, env), type(e).__name__), "str(%s) raised %r" % (top, e)))
        try:
            want = ML.ref(ms, value, env)
        except ML.Propagates:
            return Case(vs, False, ["propagates-or-undefined"])
        live = ML.live_value(domain, value, env)
        try:
            mm = matcher.match(live)
        except BaseException as e:
            if isinstance(e, (MemoryError, RecursionError)):
                raise
            vs.append(V("match-raises", "%s-%s" % (top, type(e).__name__), "match raised %r" % (e,)))
            return Case(vs, False, ["match-raised"])
        if mm is not None:
            check_mismatch(vs, top, matcher, live, mm, spec["message"])
    d = ML.depth_of(ms)
    return Case(vs, d >= 1 and mm is not None, ["domain=" + domain, "top=" + top, "mismatch" if mm is not None else "match"],
                {"str": None})


def _culprit(ms, env):
    """Name of the innermost matcher kind whose str() raises (bucket by root cause)."""
    def walk(s):
        kids = []
        for v in s.values():
            if isinstance(v, dict) and "m" in v:
                kids.append(v)
            elif isinstance(v, list):
                kids += [x for x in v if isinstance(x, dict) and "m" in x]
            elif isinstance(v, dict):
                kids += [x for x in v.values() if isinstance(x, dict) and "m" in x]
        for k in kids:
            r = walk(k)
            if r:
                return r
        try:
            str(ML.build(s, env))
            return None
        except Exception:
            return s["m"] + ("(matcher=)" if "matcher" in s else "")
    return walk(ms) or ms["m"]


# ---------------------------------------------------------------- (2) hostile text
HOST_KINDS = ["Equals", "NotEquals", "StartsWith", "EndsWith", "Contains", "MatchesRegex", "DocTestMatches", "Is",
              "SameMembers", "KeysEqual", "IsInstance", "HasLength", "MatchesPredicate", "Never", "AfterPreprocessing",
              "MatchesStructure", "MatchesDict", "AllMatch", "MatchesListwise", "MatchesSetwise", "raises", "FileContains"]


@st.composite
def s_hostile(draw):
    is_bytes = draw(st.booleans())
    if is_bytes:
        a = draw(st.binary(max_size=10))
        b = draw(st.one_of(st.binary(max_size=10), st.sampled_from([b"'", b'"', b"\\", b"'''\n", b"\n\\'", b"\xff\n\""])))
    else:
        a = draw(ML.HOSTILE)
        b = draw(ML.HOSTILE)
    return {"kind": draw(st.sampled_from(HOST_KINDS)), "arg": a, "value": b, "negate": draw(st.booleans()),
            "message": draw(st.one_of(ANNOT, ML.HOSTILE)), "tuple": draw(st.sampled_from([None, None, None, 0, 1, 2])), "wrap": draw(st.sampled_from(["none", "Annotate", "MatchesAny", "MatchesAll", "Not(Not)"]))}


def build_hostile(spec):
    import testtools.matchers as tm
    k, a = spec["kind"], spec["arg"]
    v = spec["value"]
    if k in ("Equals", "NotEquals", "StartsWith", "EndsWith", "Contains", "Is"):
        m = getattr(tm, k)(a)
    elif k == "MatchesRegex":
        m = tm.MatchesRegex(re.escape(a) + (b"x" if isinstance(a, bytes) else "x"))
    elif k == "DocTestMatches":
        if isinstance(a, bytes):
            a, v = a.decode("latin-1"), v.decode("latin-1")
        m = tm.DocTestMatches(a)
    elif k == "SameMembers":
        m, v = tm.SameMembers([a]), [v, v]
    elif k == "KeysEqual":
        m, v = tm.KeysEqual(a), {v: 1}
    elif k == "IsInstance":
        m = tm.IsInstance(int)
    elif k == "HasLength":
        m = tm.HasLength(len(v) + 1)
    elif k == "MatchesPredicate":
        m = tm.MatchesPredicate(lambda x: False, "%s is hostile")
    elif k == "Never":
        m = tm.Never()
    elif k == "AfterPreprocessing":
        m = tm.AfterPreprocessing(lambda x: x, tm.Equals(a))
    elif k == "MatchesStructure":
        class O:
            pass
        o = O()
        o.x = v
        m, v = tm.MatchesStructure(x=tm.Equals(a)), o
    elif k == "MatchesDict":
        m, v = tm.MatchesDict({"k": tm.Equals(a)}), {"k": v, "extra": v}
    elif k == "AllMatch":
        m, v = tm.AllMatch(tm.Equals(a)), [v, a]
    elif k == "MatchesListwise":
        m, v = tm.MatchesListwise([tm.Equals(a)]), [v, v]
    elif k == "MatchesSetwise":
        m, v = tm.MatchesSetwise(tm.Equals(a), tm.Equals(v)), [v]
    elif k == "raises":
        def f(v=v):
            raise ValueError(v)
        m, v = tm.Raises(tm.MatchesException(KeyError(a))), f
    elif k == "FileContains":
        m = tm.FileContains(matcher=tm.Equals(a))
    else:
        raise AssertionError(k)
    if spec.get("tuple") is not None and k in ("Equals", "NotEquals", "Is", "IsInstance", "MatchesPredicate", "Never", "AfterPreprocessing"):
        v = (v,) * spec["tuple"]        # a tuple as matchee (exc_info tuples are ordinary matchees)
    w = spec["wrap"]
    if w == "Annotate":
        m = tm.Annotate(spec["message"], m)
    elif w == "MatchesAny":
        m = tm.MatchesAny(m, tm.Never())
    elif w == "MatchesAll":
        m = tm.MatchesAll(m, tm.Never())
    elif w == "Not(Not)":
        m = tm.Not(tm.Not(m))
    return m, v


def run_hostile(spec):
    import testtools.matchers as tm
    vs = []
    if spec["kind"] == "FileContains":
        import os, tempfile
        from vp.core import VERIF
        os.makedirs(os.path.join(VERIF, ".work"), exist_ok=True)
        fd, path = tempfile.mkstemp(dir=os.path.join(VERIF, ".work"))
        os.close(fd)
    try:
        matcher, value = build_hostile(spec)
        if spec["kind"] == "FileContains":
            value = path
        tag = spec["kind"] if spec["wrap"] == "none" else "%s(%s)" % (spec["wrap"], spec["kind"])
        try:
            if not isinstance(str(matcher), str):
                vs.append(V("str", tag + "-type", "str(matcher) is not text"))
        except Exception as e:
            vs.append(V("str", "%s-raises-%s" % (tag, type(e).__name__), "str(matcher) raised %r" % (e,)))
        try:
            mm = matcher.match(value)
        except Exception as e:
            # Is/StartsWith on mixed types etc. are not in the domain: same type by construction, so this is real
            vs.append(V("match-raises", "%s-%s" % (spec["kind"], type(e).__name__), "match(%r) raised %r" % (value, e)))
            return Case(vs, True, ["match-raised"])
        if mm is None:
            matcher = tm.Not(matcher)
            mm = matcher.match(value)
            tag = "Not(%s)" % tag
        if mm is None:
            vs.append(V("verdict", "Not-not-inverse", "both m and Not(m) match %r" % (value,)))
            return Case(vs, True, ["both-match"])
        check_mismatch(vs, tag, matcher, value, mm, spec["message"])
    finally:
        if spec["kind"] == "FileContains":
            os.unlink(path)
    txt = spec["value"] if isinstance(spec["value"], str) else spec["value"].decode("latin-1")
    nt = any(ord(c) > 126 or ord(c) < 32 for c in txt) or spec.get("tuple") is not None
    return Case(vs, nt, ["kind=" + spec["kind"], "bytes" if isinstance(spec["arg"], bytes) else "str", "wrap=" + spec["wrap"],
                         "tuple-matchee" if isinstance(value, tuple) else "scalar-matchee"])


# ---------------------------------------------------------------- (3) text_repr round trip
TEXT_REPR = st.fixed_dictionaries({
    "text": st.one_of(st.text(max_size=12), ML.HOSTILE, st.binary(max_size=12),
                      st.lists(st.sampled_from(["'", '"', "\\", "\n", "'''", '"""', "a", "\r", "\\'", "\\\n", "é", "\x00", "\U0001f600", "\ud800"]), max_size=8).map("".join),
                      st.lists(st.sampled_from([b"'", b'"', b"\\", b"\n", b"'''", b"a", b"\r", b"\\'", b"\xff", b"\x00"]), max_size=8).map(b"".join)),
    "multiline": st.sampled_from([None, True, False]),
})


def run_text_repr(spec):
    from testtools.compat import text_repr
    vs = []
    s, ml = spec["text"], spec["multiline"]
    kind = "bytes" if isinstance(s, bytes) else "str"
    try:
        r = text_repr(s, ml) if ml is not None else text_repr(s)
    except Exception as e:
        return Case([V("text_repr", "raises-%s-%s" % (kind, type(e).__name__), "text_repr(%r, %r) raised %r" % (s, ml, e))], True, ["raised"])
    if not isinstance(r, str):
        vs.append(V("text_repr", "type", "text_repr returned %r" % type(r)))
    else:
        try:
            back = ast.literal_eval(r)
        except Exception as e:
            back = e
        if type(back) is not type(s) or back != s:
            nl = b"\n" if isinstance(s, bytes) else "\n"
            vs.append(V("text_repr", "roundtrip-%s-multiline=%s" % (kind, True if (ml or (ml is None and nl in s)) else False),
                        "text_repr(%r, multiline=%r) = %s evaluates to %r" % (s, ml, r, back)))
    txt = s if isinstance(s, str) else s.decode("latin-1")
    nt = any(c in txt for c in "'\"\\\n") and len(txt) > 1
    return Case(vs, nt, [kind, "multiline=%s" % ml])


# ---------------------------------------------------------------- (4) assertThat / expectThat in test bodies
@st.composite
def s_body(draw):
    steps = []
    for _ in range(draw(st.integers(1, 5))):
        how = draw(st.sampled_from(["expectThat", "assertThat", "assert_that", "expectThat", "family"]))
        if how == "family":
            # the assert* family that TestCase builds on assertThat
            fam = draw(st.sampled_from(["assertEqual", "assertEqual", "assertIn", "assertNotIn", "assertIs", "assertIsNot", "assertIsInstance", "assertIsNone"]))
            steps.append({"how": "assertThat", "family": fam, "kind": "family", "matcher": None,
                          "value": draw(st.sampled_from([0, 1, "a", "é", None])), "other": draw(st.sampled_from([0, 1, "a", "é", None])),
                          "message": draw(ANNOT), "verbose": False})
            continue
        kind = draw(st.sampled_from(["int", "str", "details"]))
        if kind == "int":
            m = draw(ML.tree("int", 1))
            v = draw(ML.INT)
        elif kind == "str":
            m = draw(ML.tree("str", 1))
            v = draw(ML.STR)
        else:
            m = {"m": "WithDetails", "names": draw(st.lists(st.sampled_from(["foo", "bar", "traceback", "Failed expectation", "foo-1"]), min_size=1, max_size=2, unique=True)),
                 "matches": draw(st.booleans())}
            v = 0
        steps.append({"how": how, "kind": kind, "matcher": m, "value": v, "message": draw(ANNOT),
                      "verbose": draw(st.booleans())})
    if draw(st.integers(0, 9)) == 0:
        # a loop of a dozen and more failing expectations carrying the same detail names
        names = draw(st.lists(st.sampled_from(["foo", "bar", "traceback", "Failed expectation"]), min_size=1, max_size=2, unique=True))
        burst = [{"how": "expectThat", "kind": "details", "matcher": {"m": "WithDetails", "names": names, "matches": False}, "value": 0,
                  "message": None, "verbose": False} for _ in range(draw(st.integers(11, 14)))]
        at = draw(st.integers(0, len(steps)))
        steps[at:at] = burst
    return {"runner": draw(st.sampled_from(["default", "default", "default", "sync-deferred", "async-deferred"])), "steps": steps, "ending": draw(st.sampled_from(["none", "none", "skip", "xfail", "teardown-skip"])), "user_details": draw(st.lists(st.sampled_from(["foo", "bar", "Failed expectation", "traceback"]), max_size=2, unique=True))}


def run_body(spec):
    with warnings.catch_warnings():
        warnings.simplefilter("ignore")
        return _run_body(spec)


def _run_body(spec):
    import testtools
    from testtools.content import text_content
    from testtools.matchers import Mismatch, MismatchError
    from testtools.assertions import assert_that
    vs = []
    log = []
    expected_details = []    # (marker bytes) that must be present under distinct names

    class WithDetails:
        def __init__(self, names, matches, marker):
            self.names, self.matches, self.marker = names, matches, marker

        def __str__(self):
            return "WithDetails(%r)" % (self.names,)

        def match(self, x):
            if self.matches:
                return None
            return Mismatch("detailed mismatch", {n: text_content("%s/%s" % (self.marker, n)) for n in self.names})

    steps = spec["steps"]
    env = ML.Env(None)
    model = {"stopped_at": None, "mismatches": 0, "expect_mismatch": 0, "details": []}
    plan = []
    for i, st_ in enumerate(steps):
        if st_["kind"] == "family":
            v, o, fam = st_["value"], st_["other"], st_["family"]
            pool = [0, 1, "a"]
            want = {"assertEqual": lambda: o == v, "assertIn": lambda: v in pool, "assertNotIn": lambda: v not in pool,
                    "assertIs": lambda: v is o, "assertIsNot": lambda: v is not o,
                    "assertIsInstance": lambda: isinstance(v, str), "assertIsNone": lambda: v is None}[fam]()
            matcher = None
        elif st_["kind"] == "details":
            matcher = WithDetails(st_["matcher"]["names"], st_["matcher"]["matches"], "M%d" % i)
            want = st_["matcher"]["matches"]
        else:
            matcher = ML.build(st_["matcher"], env)
            want = ML.ref(st_["matcher"], st_["value"], env)
        plan.append((st_, matcher, want))

    runner = spec.get("runner", "default")

    class T(testtools.TestCase):
        if runner == "sync-deferred":
            from testtools.twistedsupport import SynchronousDeferredRunTest as run_tests_with
        elif runner == "async-deferred":
            from testtools.twistedsupport import AsynchronousDeferredRunTest
            run_tests_with = AsynchronousDeferredRunTest.make_factory(timeout=30)

        def test_body(self):
            for n in spec["user_details"]:
                self.addDetail(n, text_content("USER/" + n))
            for i, (st_, matcher, want) in enumerate(plan):
                log.append(("before", i))
                kw = {}
                if st_["message"]:
                    kw["message"] = st_["message"]
                if st_["verbose"]:
                    kw["verbose"] = True
                try:
                    if st_["kind"] == "family":
                        v, o, msg = st_["value"], st_["other"], st_["message"]
                        pool = [0, 1, "a"]
                        {"assertEqual": lambda: self.assertEqual(o, v, msg), "assertIn": lambda: self.assertIn(v, pool, msg),
                         "assertNotIn": lambda: self.assertNotIn(v, pool, msg), "assertIs": lambda: self.assertIs(o, v, msg),
                         "assertIsNot": lambda: self.assertIsNot(o, v, msg), "assertIsInstance": lambda: self.assertIsInstance(v, str, msg),
                         "assertIsNone": lambda: self.assertIsNone(v, msg)}[st_["family"]]()
                    elif st_["how"] == "expectThat":
                        self.expectThat(st_["value"], matcher, **kw)
                    elif st_["how"] == "assertThat":
                        self.assertThat(st_["value"], matcher, **kw)
                    else:
                        assert_that(st_["value"], matcher, **kw)
                except MismatchError as e:
                    log.append(("raised", i, st_["how"]))
                    caught.append((i, e))
                    raise
                except Exception as e:
                    log.append(("raised-other", i, st_["how"], repr(e)))
                    raise
                log.append(("after", i))
            log.append(("end",))
            if spec.get("ending") == "skip":
                self.skipTest("skipping at the end")
            elif spec.get("ending") == "xfail":
                self.expectFailure("known breakage", self.assertEqual, 1, 2)
            elif spec.get("ending") == "teardown-skip":
                self.addCleanup(self.skipTest, "skip from a cleanup")

    caught = []
    res = Ext()
    T("test_body").run(res)
    # what the raised MismatchError says: the value, the verbosity asked for, the annotation, the mismatch's own words
    for i, e in caught:
        st_, matcher, want = plan[i]
        if st_["kind"] == "family":
            if st_["message"] and st_["message"] not in str(e):
                vs.append(V("mismatch-error", "family-message-lost", "%s(..., %r): str(MismatchError) is %r" % (st_["family"], st_["message"], str(e)[:200])))
            continue
        try:
            text = str(e)
            inner = matcher.match(st_["value"])
            said = inner.describe() if inner is not None else None
        except Exception as ex:
            vs.append(V("mismatch-error", "str-raises", "str(MismatchError) raised %r" % (ex,)))
            continue
        if e.matchee is not st_["value"] and e.matchee != st_["value"]:
            vs.append(V("mismatch-error", "matchee", "MismatchError.matchee is %r, the asserted value was %r" % (e.matchee, st_["value"])))
        if bool(e.verbose) != bool(st_["verbose"]):
            vs.append(V("mismatch-error", "verbose-flag", "%s(..., verbose=%r) raised a MismatchError with verbose=%r" % (st_["how"], st_["verbose"], e.verbose)))
        if said is not None and said not in text:
            vs.append(V("mismatch-error", "description-lost", "str(MismatchError) %r lacks the mismatch description %r" % (text[:200], said[:200])))
        if st_["message"] and st_["message"] not in text:
            vs.append(V("mismatch-error", "message-lost", "%s(..., message=%r): str(MismatchError) is %r" % (st_["how"], st_["message"], text[:200])))
        if st_["verbose"] and "Matchee:" not in text:
            vs.append(V("mismatch-error", "verbose-form", "verbose MismatchError lacks the matchee / matcher lines: %r" % (text[:200],)))
    # model
    stop = None
    any_expect_mismatch = False
    for i, (st_, matcher, want) in enumerate(plan):
        if not want:
            if st_["how"] == "expectThat":
                any_expect_mismatch = True
                if st_["kind"] == "details":
                    expected_details += ["M%d/%s" % (i, n) for n in st_["matcher"]["names"]]
            else:
                stop = i
                if st_["kind"] == "details" and st_["how"] == "assertThat":
                    expected_details += ["M%d/%s" % (i, n) for n in st_["matcher"]["names"]]
                break
    want_log = []
    for i in range(len(plan)):
        want_log.append(("before", i))
        if stop == i:
            want_log.append(("raised", i, plan[i][0]["how"]))
            break
        want_log.append(("after", i))
    if stop is None:
        want_log.append(("end",))
    if log != want_log:
        kinds = sorted({x[0] for x in log} ^ {x[0] for x in want_log})
        vs.append(V("raises-iff-mismatch", plan[min(len(log), len(plan)) - 1][0]["how"] if log else "empty",
                    "execution log %r, expected %r" % (log, want_log)))
    outs = [e for e in res.events if e[0].startswith("add")]
    if len(outs) != 1:
        vs.append(V("outcome", "count", "%d outcomes" % len(outs)))
    else:
        name = outs[0][0]
        want_name = "addFailure" if (stop is not None or any_expect_mismatch) else "addSuccess"
        ending = spec.get("ending", "none")
        if stop is None and ending != "none":
            if any_expect_mismatch:      # the delayed failure must still make the test fail
                want_name = name if name in ("addFailure", "addError") else "addFailure"
            else:
                want_name = {"skip": "addSkip", "xfail": "addExpectedFailure", "teardown-skip": "addSkip"}[ending]
        if name != want_name:
            vs.append(V("outcome", "%s-instead-of-%s" % (name, want_name), "outcome %s, expected %s (expectThat mismatch=%s, stopped at %r)" % (
                name, want_name, any_expect_mismatch, stop)))
        det = outs[0][2].get("details") or {}
        texts = {n: d[2] for n, d in det.items()}
        for n in spec["user_details"]:
            if texts.get(n) != ("USER/" + n).encode():
                vs.append(V("details", "user-detail-clobbered", "user detail %r is now %r" % (n, texts.get(n))))
        pool = list(texts.values())
        for marker in expected_details:
            if marker.encode() in pool:
                pool.remove(marker.encode())
            else:
                vs.append(V("details", "mismatch-detail-missing", "mismatch detail %r not delivered; got names %r" % (marker, sorted(texts))))
        n_expect = sum(1 for i, (st_, m, w) in enumerate(plan) if not w and st_["how"] == "expectThat" and (stop is None or i < stop))
        n_fe = sum(1 for n in texts if n.startswith("Failed expectation") and b"MismatchError" in texts[n])
        if n_fe != n_expect:
            vs.append(V("details", "failed-expectation-count", "%d 'Failed expectation' details for %d failed expectThat; names %r" % (n_fe, n_expect, sorted(texts))))
    nt = len(steps) >= 2 and (any_expect_mismatch or stop is not None)
    return Case(vs, nt, ["expect-mismatch" if any_expect_mismatch else "", "stopped" if stop is not None else "ran-to-end", "ending=" + spec.get("ending", "none"),
                         "details" if expected_details else "", "runner=" + runner, "steps>=12" if len(steps) >= 12 else ""], {"log": log[:10]})


# ---------------------------------------------------------------- every public matcher has a str()
def _samples():
    import testtools.matchers as tm
    return {
        "AfterPreprocessing": lambda: tm.AfterPreprocessing(len, tm.Equals(1)), "AllMatch": lambda: tm.AllMatch(tm.Equals(1)),
        "Always": tm.Always, "Annotate": lambda: tm.Annotate("x", tm.Equals(1)), "AnyMatch": lambda: tm.AnyMatch(tm.Equals(1)),
        "Contains": lambda: tm.Contains(1), "ContainsAll": lambda: tm.ContainsAll([1]), "ContainedByDict": lambda: tm.ContainedByDict({"a": tm.Equals(1)}),
        "ContainsDict": lambda: tm.ContainsDict({"a": tm.Equals(1)}), "DirContains": lambda: tm.DirContains(["a"]),
        "DirExists": tm.DirExists, "DocTestMatches": lambda: tm.DocTestMatches("a"), "EndsWith": lambda: tm.EndsWith("a"),
        "Equals": lambda: tm.Equals(1), "FileContains": lambda: tm.FileContains("a"), "FileExists": tm.FileExists,
        "GreaterThan": lambda: tm.GreaterThan(1), "HasLength": lambda: tm.HasLength(1), "HasPermissions": lambda: tm.HasPermissions("0644"),
        "Is": lambda: tm.Is(None), "IsDeprecated": lambda: tm.IsDeprecated(tm.Contains("x")), "IsInstance": lambda: tm.IsInstance(int),
        "KeysEqual": lambda: tm.KeysEqual("a"), "LessThan": lambda: tm.LessThan(1), "MatchesAll": lambda: tm.MatchesAll(tm.Equals(1)),
        "MatchesAny": lambda: tm.MatchesAny(tm.Equals(1)), "MatchesDict": lambda: tm.MatchesDict({"a": tm.Equals(1)}),
        "MatchesException": lambda: tm.MatchesException(ValueError), "MatchesListwise": lambda: tm.MatchesListwise([tm.Equals(1)]),
        "MatchesPredicate": lambda: tm.MatchesPredicate(bool, "%s"), "MatchesPredicateWithParams": lambda: tm.MatchesPredicateWithParams(lambda a, b: a == b, "{0} {1}")(1),
        "MatchesRegex": lambda: tm.MatchesRegex("a"), "MatchesSetwise": lambda: tm.MatchesSetwise(tm.Equals(1)),
        "MatchesStructure": lambda: tm.MatchesStructure(a=tm.Equals(1)), "Never": tm.Never, "NotEquals": lambda: tm.NotEquals(1),
        "Not": lambda: tm.Not(tm.Equals(1)), "PathExists": tm.PathExists, "Raises": lambda: tm.Raises(), "raises": lambda: tm.raises(ValueError),
        "SameMembers": lambda: tm.SameMembers([1]), "SamePath": lambda: tm.SamePath("/"), "StartsWith": lambda: tm.StartsWith("a"),
        "TarballContains": lambda: tm.TarballContains(["a"]), "Warnings": lambda: tm.Warnings(), "WarningMessage": lambda: tm.WarningMessage(UserWarning),
    }


def run_public(spec):
    name = spec["matcher"]
    samples = _samples()
    vs = []
    if name not in samples:
        vs.append(V("str", "unknown-public-matcher-" + name, "no sample for public matcher %s" % name))
    else:
        m = samples[name]()
        try:
            if not isinstance(str(m), str):
                vs.append(V("str", name + "-type", "str() not text"))
        except Exception as e:
            vs.append(V("str", "%s-raises-%s" % (name, type(e).__name__), "str(%s) raised %r" % (name, e)))
    return Case(vs, True, ["public=" + name])


def custom_all_matchers(ctx):
    """Instantiate every public callable of testtools.matchers.__all__ and str() it."""
    import testtools.matchers as tm
    out = []
    for name in tm.__all__:
        if name in ("Matcher", "Mismatch", "MismatchError", "MismatchDecorator"):
            continue
        spec = {"matcher": name}
        out.append((spec, run_public(spec)))
    return out


def _enum_detail_collisions():
    """Two or three failing assertions in one body whose mismatch details share names, including names that look
    like the suffixed form of another (foo / foo-1), with and without a user detail already under that name."""
    groups = [["foo", "foo-1"], ["foo"], ["foo-1"], ["traceback", "traceback-1"], ["Failed expectation", "Failed expectation-1"]]
    def step(how, names):
        return {"how": how, "kind": "details", "matcher": {"m": "WithDetails", "names": names, "matches": False}, "value": 0, "message": "", "verbose": False}
    for g1 in groups:
        for g2 in groups:
            for how2 in ("expectThat", "assertThat"):
                for user in ([], ["foo"], ["foo-1"], ["traceback"]):
                    yield {"runner": "default", "steps": [step("expectThat", g1), step(how2, g2)], "ending": "none", "user_details": user}
            yield {"runner": "default", "steps": [step("expectThat", g1), step("expectThat", g2), step("assertThat", g1)], "ending": "none", "user_details": []}


def subchecks(tier):
    q = tier == "quick"
    return [
        Sub("describe_over_matcher_language", run_tree, s_tree_case(), 2500 if q else 200000),
        Sub("hostile_text", run_hostile, s_hostile(), 2500 if q else 200000),
        Sub("text_repr_roundtrip", run_text_repr, TEXT_REPR, 5000 if q else 500000),
        Sub("assert_expect_bodies", run_body, s_body(), 800 if q else 40000),
        Sub("detail_name_collisions", run_body, enum=_enum_detail_collisions, enum_complete=True,
            note="every pair (and some triples) of failing assertions whose mismatch details are named foo / foo-1 / traceback(-1) / "
                 "Failed expectation(-1), x expectThat / assertThat, x a user detail already under one of the names"),
        Sub("every_public_matcher_str", run_public, custom=custom_all_matchers),
        Sub("text_repr_fuzz", run_text_repr, custom=fuzz_custom("props.c07", "text_repr_roundtrip", "testtools.compat", 40000),
            note="atheris/libFuzzer coverage-guided campaign over the text_repr round trip (thorough tier only)"),
    ]
