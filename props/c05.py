"""C05 - all details and every traceback reach the result; none is dropped or overwritten."""
import re

from hypothesis import strategies as st

from vp.core import Case, Sub, V
from vp import programs as P
from vp import progrun as R
from vp import matchers as ML
from vp.results import OUTCOMES

PROPERTY = "C05"
RULE = ("Generated test programs whose stages attach details under arbitrary names (incl. 'traceback', 'traceback-1', "
        "'Failed expectation', names equal to fixture / mismatch detail names, non-ASCII names; never 'reason') with "
        "empty / multi-chunk / non-UTF-8 / lazily evaluated payloads, use fixtures carrying details (also with "
        "failing setUp, nested), produce assertThat/expectThat mismatches with details, raise 0..k exceptions incl. "
        "MultipleExceptions and expectFailure (empty skip reasons, falsy exceptions, loops attaching one name 11-14 "
        "times so that suffixes reach two digits), and register 0..2 addOnException handlers; the extended recorder "
        "snapshots every content's bytes inside the outcome call. Oracle: name-agnostic containment - every expected "
        "item (identified by a marker in its bytes) maps to a distinct entry of the delivered details dict; user "
        "details sit under exactly their own name with the bytes their source yields at reporting time; handler "
        "calls are counted and must precede the outcome. Added after the third audit: a third of the user / fixture "
        "details are 'bare' (delivered bytes are exactly the drawn chunks: truly empty, no chunk at all, leading empty "
        "chunk, 5 kB; fixture details are then identified by a content-type parameter, which must survive the gathering), "
        "mismatch details may be binary or lazily evaluated (bytes at reporting time), MultipleExceptions constituents "
        "may be (type, value, None) triples, interrupts may strike inside expectFailure / assertRaises, one result in eight "
        "asks for locals in tracebacks (tb_locals); a traceback "
        "detail must show the raise site (a frame in vp/programs.py) unless the exc_info had no traceback object; "
        "no generated detail is identified by its name or MIME subtype any more (after the fourth audit: nor by the "
        "class name MismatchError / the wording '1 != 2', and the reason is found by its bytes, not only under 'reason'). Seven exhaustive grids (payload x source x "
        "outcome, lazy mismatch details, 10..21 tracebacks, tb-None constituents, 10+ renamings / repeated registrations / re-raised MultipleExceptions, interrupts inside helpers) make these "
        "catches independent of the seed. Non-trivial: a name collision, or >= 2 tracebacks, or "
        "fixture + mismatch + traceback details together; distinct = distinct canonical program.")
ASSUMPTIONS = [
    "a user addDetail(n) executed after a generated detail took the name n (or n's base name) is plain replacement: "
    "that generated item may then be missing",
    "details of a nested fixture (passed to Fixture.useFixture, not TestCase.useFixture) are optional",
    "the forced failure of expectThat/force_failure and fixtures' SetupError are not 'raised by user code': their "
    "tracebacks and handler calls are optional",
    "a traceback detail is rendered in CPython's traceback layout: frame / source lines are indented by two spaces "
    "and the exception's own summary (type: message) follows the last of them; generated messages never start a "
    "line with two spaces (the locals that a tb_locals result asks for are indented by four)",
    "a traceback detail of an exception raised by generated code names the file of the raise site (vp/programs.py); "
    "nothing is demanded of its detail name or content type",
    "the content type (type, subtype, parameters) belongs to a detail: a gathered fixture detail or a mismatch "
    "detail that arrives with other parameters than it was attached with is not that detail",
    "no per-run actions are drawn (P.programs(per_run=...) stays off): the re-run clause compares the handler-call "
    "counts of two runs of the same instance, which is only meaningful when both runs raise the same exceptions",
    "the detail name 'reason' is used by no source (user, fixture, mismatch): a fixture / mismatch detail called "
    "'reason' is overwritten by the skip / expectFailure reason on the current tree (third audit B1, not filed here)",
    "@unittest.expectedFailure bodies raise at most one plain exception (a MultipleExceptions under the decorator is "
    "reported as one traceback quoting the exc_info tuples: audit-2 L1, not generated)",
    "addOnException handlers registered on the instance before run() stay registered over runs of that instance: the "
    "second run of the same program calls such a handler as often as the first (the statement is silent on handler "
    "lifetime; a tree that forgets its handlers after the outcome is reported as rerun-call-count)",
    "fixture details are 'the bytes the content yields' when useFixture gathers them (after a successful setUp, or "
    "when setUp fails) - gather_details' docstring: it 'evaluates all details in source_dict' - not when the outcome "
    "is reported: a fixture whose cleanUp empties its buffers still delivers what it held at gathering time",
    "'every failure or error raised' counts raises, not exception objects: the same exception or MultipleExceptions "
    "instance raised again by a later stage is reported again (one more traceback per constituent, one more handler call)",
    "the handlers are called once per reported exception (each constituent of a MultipleExceptions); at most one "
    "additional call per MultipleExceptions wrapper is tolerated, none for a plain exception",
    "the assertion behind expectFailure(reason, assertEqual, 1, 2) is recognised by a summary that mentions both operands, "
    "carries no marker and is not a MultipleExceptions wrapper's; the failed-expectation detail by the marker of its "
    "matcher alone; a skip raised without arguments has no reason to report (any placeholder or none is accepted); a "
    "marked reason is found by its bytes under any name no user detail owns, an unmarked one ('' / '42') under a name "
    "containing 'reason'",
]

BASE = P.programs(multi=True, details=True, fixture=True, expect=True, onexc=True, cleanup_depth=2, p_raise=5, nonexc=True, texts=True, decor=True)
BIG = b"z" * 5000
# payloads delivered exactly as drawn (no marker chunk): truly empty, zero chunks, leading empty chunk, non-UTF-8, large
BARE_CHUNKS = st.one_of(st.sampled_from([[], [b""], [b"", b""], [b"", b"a"], [BIG, b"\xff"]]),
                        st.lists(st.sampled_from([b"", b"a", b"\xff\x00", "\u00e9".encode("utf8"), b"two\nlines", BIG]), max_size=3))
THIRD = st.integers(0, 2)
QUARTER = st.integers(0, 3)
XF_ONE, XF_TWO = re.compile(r"(?<!\w)1(?!\w)"), re.compile(r"(?<!\w)2(?!\w)")     # the operands of assertEqual(1, 2)
NO_TB_KINDS = ("fail", "assertion_sub", "error", "error_key", "error_falsy", "kbi", "sysexit")


def _fixtures(prog):
    for a in _walk(prog):
        if a["a"] == "fixture":
            f = a["spec"]
            while f is not None:
                yield f
                f = f["nested"]


def _multi_subs(subs):
    for s in subs:
        if s["kind"] == "multi":
            yield from _multi_subs(s["sub"])
        else:
            yield s


@st.composite
def _programs(draw):
    """A program of vp.programs plus the dimensions only this property looks at (keys the builder honours and
    every other check leaves unset): 'bare' payloads of user / fixture details, binary and lazily evaluated
    mismatch details ('mpay'), MultipleExceptions constituents whose traceback object is None ('notb')."""
    prog = draw(BASE)
    if P.Model(prog).skipped_by_decorator:
        return prog
    for a in list(_walk(prog)):
        if a["a"] == "detail" and draw(THIRD) == 0:
            a["bare"] = True
            if draw(st.booleans()):
                a["chunks"] = draw(BARE_CHUNKS)
        elif a["a"] in ("expect", "assert") and not a["ok"]:
            pay = {}
            for n in a["dnames"]:
                if draw(THIRD) == 0:
                    if prog["cells"] and draw(st.booleans()):
                        pay[n] = {"cell": draw(st.integers(0, prog["cells"] - 1))}
                    else:
                        pay[n] = {"chunks": draw(BARE_CHUNKS)}
            if pay:
                a["mpay"] = pay
        elif a["a"] == "raise" and a["kind"] in ("kbi", "sysexit") and draw(THIRD) == 0:
            # the interrupt strikes inside a callable handed to expectFailure / assertRaises
            a["kind"] = draw(st.sampled_from(["xf_kbi", "ar_kbi"])) if a["kind"] == "kbi" else "ar_sysexit"
        elif a["a"] == "raise" and a["kind"] == "multi":
            for s in _multi_subs(a["sub"]):
                if s["kind"] in NO_TB_KINDS and draw(QUARTER) == 0:
                    s["notb"] = True
    if draw(st.integers(0, 7)) == 0:
        prog["tb_locals"] = True        # the result wants the locals of every frame in its tracebacks
    for f in _fixtures(prog):
        if f["details"] and draw(THIRD) == 0:
            f["bare"] = True
            for n in f["details"]:
                if draw(st.booleans()):
                    f["details"][n] = draw(BARE_CHUNKS)
    return prog


PROG = _programs()


def run_case(prog):
    """(a result that asks for locals in tracebacks - result.tb_locals - is the harness recorder with that attribute set)"""
    if not prog.get("tb_locals"):
        return _run_case(prog)
    from vp import results
    results.Ext.tb_locals = True
    try:
        return _run_case(prog)
    finally:
        del results.Ext.tb_locals


def _run_case(prog):
    vs = []
    model = P.Model(prog).run()
    obs = R.run_program(prog, "ext")
    outs = [e for e in obs["events"] if e[0] in OUTCOMES]
    if len(outs) != 1:
        return Case([V("one-outcome", "count", "%d outcomes" % len(outs))], True, ["no-single-outcome"])
    out = outs[0]
    ctx = out[2]
    det = ctx.get("details")
    if det is None:
        if model.details_added or model.gen_items:
            vs.append(V("details", "none-delivered", "%s delivered without details" % out[0]))
        det = {}
    delivered = {n: (d[1], d[2]) for n, d in det.items()}      # name -> (content type, bytes)
    for n, (ct, data) in delivered.items():
        if not isinstance(data, bytes):
            vs.append(V("details", "unreadable", "detail %r could not be evaluated at reporting time: %r" % (n, data)))
            return Case(vs, True, ["unreadable"])
    # A. user details: last write per name wins and must survive under exactly that name
    last = {}
    for d in model.details_added:
        last[d["name"]] = d
    used = set()
    collisions = 0
    acts = {a["i"]: a for a in _walk(prog)}
    for name, d in last.items():
        bare = acts[d["i"]].get("bare")
        want = (b"" if bare else b"D%d/" % d["i"]) + (model.cells[d["cell"]] if d["cell"] is not None else b"".join(acts[d["i"]]["chunks"]))
        got = delivered.get(name)
        if got is None:
            vs.append(V("user-detail", "dropped", "detail %r added by the test is missing; delivered names %r" % (name, sorted(delivered))))
        elif got[1] != want:
            kind = "stale-bytes" if d["cell"] is not None and (bare or got[1].startswith(b"D%d/" % d["i"])) else "overwritten"
            vs.append(V("user-detail", kind, "detail %r delivered as %r, its source yields %r at reporting time" % (name, got[1], want)))
        used.add(name)
    # B. generated items -> distinct entries
    items = []
    for g in model.gen_items:
        # (gathered fixture details take t = len(log) without logging themselves: a user detail with the same t came first)
        t0 = g["t"] + 1 if g["type"] == "fixture-detail" else g["t"]
        excused = any(u["t"] >= t0 and (u["name"] == g["base"] or u["name"].startswith(g["base"] + "-")) for u in model.details_added)
        items.append((g, excused))
    names = [n for n in delivered if n not in used]
    fixtures = {f["i"]: f for f in _fixtures(prog)}
    no_tb = {s["i"] for a in acts.values() if a["a"] == "raise" and a["kind"] == "multi" for s in _multi_subs(a["sub"]) if s.get("notb")}

    def params(ct):
        return dict(getattr(ct, "parameters", None) or {})

    def accepts(g, n):
        ct, data = delivered[n]
        text = data.decode("utf8", "replace")
        if g["type"] == "traceback":
            # the traceback *of that exception*: its last line names the marker, and it is not the
            # traceback of a MultipleExceptions wrapper that merely quotes its constituents
            # (the part after the last indented frame / source line: the exception's own summary, possibly several lines)
            lines = [ln for ln in text.split("\n") if ln.strip()]
            k = max([i for i, ln in enumerate(lines) if ln.startswith("  ")] or [-1])
            last = ["\n".join(lines[k + 1:])]
            # ... and it is a traceback: it shows where the exception was raised (every generated raise site is in
            # vp/programs.py), unless the exc_info handed over had no traceback object to show
            shown = g["marker"] in no_tb or "programs.py" in text
            return shown and ("MARK-%d-" % g["marker"]) in last[0] and "MultipleExceptions" not in last[0]
        if g["type"] == "traceback-xfail":
            # the assertion behind expectFailure(reason, assertEqual, 1, 2): some rendering of an exception whose own
            # summary mentions both operands and is no other exception's (no marker, no MultipleExceptions wrapper);
            # neither the exception's class name nor the wording / operand order of Equals' description is pinned
            lines = [ln for ln in text.split("\n") if ln.strip()]
            k = max([i for i, ln in enumerate(lines) if ln.startswith("  ")] or [-1])
            summary = "\n".join(lines[k + 1:])
            return (XF_ONE.search(summary) is not None and XF_TWO.search(summary) is not None and "MARK-" not in summary
                    and "MultipleExceptions" not in summary)
        if g["type"] == "mismatch-detail":
            i, _, dn = g["marker"][1:].partition("/")
            pay = (acts[int(i)].get("mpay") or {}).get(dn)
            if pay is None:
                return text == g["marker"]
            want = model.cells.get(pay["cell"], b"") if pay.get("cell") is not None else b"".join(pay["chunks"])
            return data == want and (ct.type, ct.subtype) == ("application", "octet-stream") and params(ct) == {"id": g["marker"]}
        if g["type"] == "fixture-detail":
            f = fixtures[int(g["marker"][2:].split("/")[0])]
            if f.get("bare"):
                return data == g["payload"] and (ct.type, ct.subtype) == ("application", "octet-stream") and params(ct) == {"id": g["marker"]}
            return data == g["marker"].encode("utf8") + g["payload"] and (ct.type, ct.subtype) == ("application", "octet-stream")
        if g["type"] == "failed-expectation":
            # (the marker of an expectThat action occurs in no other entry; nothing is demanded of the wording around it)
            return ("MARK-%d-" % g["marker"]) in text
        return False
    required = [g for g, ex in items if not ex]
    if required:
        acc = [[accepts(g, n) for n in names] for g in required]
        size = ML._max_matching(acc) if names else 0
        if size != len(required):
            # name the first item that cannot be placed
            for k, g in enumerate(required):
                sub = [acc[j] for j in range(len(required)) if j != k]
                if (ML._max_matching(sub) if sub and names else 0) == len(required) - 1 and not any(acc[k]) or not any(acc[k]):
                    missing = g
                    break
            else:
                missing = required[0]
            vs.append(V("generated-detail", "%s-missing" % missing["type"],
                        "%s for %r has no entry of its own among the delivered details %r (all expected: %r)" % (
                            missing["type"], missing["marker"], {n: delivered[n][1][:40] for n in delivered},
                            [(g["type"], g["marker"]) for g in required])))
    # skip / expected-failure reason
    texts = {a["i"]: a.get("text", "") for a in _walk(prog) if a["a"] == "raise"}
    if out[0] in ("addExpectedFailure", "addUnexpectedSuccess"):
        # expectFailure(reason, ...) records its reason
        xs = [r for r in model.raised if r["kind"] in ("xfail", "uxsuccess", "xf_error", "xf_skip", "xf_kbi")]
        # (... under the name 'reason' or, when that name was taken by an earlier reason, under a name of its own: the
        # entry is identified by its bytes, which no other source produces)
        rs = delivered.get("reason")
        if xs and not any(("MARK-%d-" % r["i"]).encode() == delivered[n][1] for r in xs for n in names):
            vs.append(V("reason", "expectFailure", "reason detail of %s is %r, expectFailure was called with markers %r" % (out[0], rs and rs[1], [r["i"] for r in xs])))
    if out[0] == "addSkip" and model.skipped_by_decorator:
        # the reason given to the decorator is the reason reported
        want_r = "" if prog["decor"].endswith("_empty") else "decorated"
        got_r = ctx.get("reason")
        if got_r is None and delivered.get("reason") is not None:
            got_r = delivered["reason"][1].decode("utf8", "replace")
        if got_r != want_r:
            vs.append(V("reason", "decorator-skip", "a test skipped by @%s reported the reason %r" % (prog["decor"], got_r)))
    if out[0] == "addSkip" and not model.skipped_by_decorator:
        skips = [r for r in model.raised if P.klass(r["kind"]) == "skip"]
        rs = delivered.get("reason")
        def reason_of(r):
            if r["kind"] in ("skip_empty", "skip_int"):
                return {"skip_empty": b"", "skip_int": b"42"}[r["kind"]]
            return ("MARK-%d-" % r["i"]).encode() + texts.get(r["i"], "").encode("utf8")
        def reported(r):
            if r["kind"] == "skip_noargs":
                return True         # a skip raised without any argument has no reason: whatever placeholder (or nothing) is reported
            if r["kind"] in P.UNMARKED:
                # a reason without a marker ('' / '42') is looked for under the reserved name and its renamings only
                return any(reason_of(r) == delivered[n][1] for n in names if "reason" in n)
            return any(reason_of(r) == delivered[n][1] for n in names)
        if not any(reported(r) for r in skips):
            vs.append(V("reason", "skip", "skip reason detail is %r, raised skips %r" % (rs and rs[1], [r["i"] for r in skips])))
    # handlers
    user_raises = [r for r in model.raised if r["kind"] not in ("forced", "setup_error", "upcall_error", "restore_error")]
    optional = len(model.raised) - len(user_raises)
    hids = []
    for a in _walk(prog):
        if a["a"] == "onexc":
            hids.append(a["i"])
    executed = ([0] if prog.get("outside_handler") else []) + [h for h in hids if ("A", h) in model.log]
    out_index = next(i for i, e in enumerate(obs["shared"]) if e[0] in OUTCOMES)
    wrappers = {}           # constituent id -> number of MultipleExceptions wrapped around it

    def depth(subs, d):
        for s in subs:
            if s["kind"] == "multi" and s["sub"]:
                depth(s["sub"], d + 1)
            else:                   # (a MultipleExceptions without constituents is an ordinary error)
                wrappers[s["i"]] = d
    for a in acts.values():
        if a["a"] == "raise" and a["kind"] == "multi":
            depth(a["sub"], 1)
    for j, h in enumerate(executed):
        want = sum(1 for r in user_raises if r["handlers"] > j)
        lo, hi = want, want + sum(1 for r in model.raised if r["kind"] in ("forced", "setup_error", "upcall_error", "restore_error") and r["handlers"] > j)
        # a MultipleExceptions wrapper is itself an exception raised by user code: the handlers may be told about it
        # in addition to its constituents (at most one more call per wrapper around a reported constituent)
        # (fixtures wraps a failing setUp's error and its SetupError, and the errors of failing cleanUps - negative
        # ids -, in a MultipleExceptions of its own)
        hi += sum(wrappers.get(r["i"], 0) for r in user_raises if r["handlers"] > j)
        hi += sum(1 for r in model.raised if r["handlers"] > j and (r["kind"] == "setup_error" or (isinstance(r["i"], int) and r["i"] < 0)))
        calls = [c for c in obs["live"].handler_calls if c[0] == h]
        if not (lo <= len(calls) <= hi):
            vs.append(V("onException", "call-count", "handler registered %d-th was called %d times; %d exceptions were raised by user code after it was registered (kinds %r)" % (
                j, len(calls), want, [r["kind"] for r in user_raises])))
        if any(c[2] is not None and c[2] > out_index for c in calls):
            vs.append(V("onException", "after-outcome", "a handler was called after the outcome had been reported"))
        # ... and with the exceptions that were raised (those whose message carries a marker)
        plain = P.FAILURE_KINDS + P.ERROR_KINDS + P.SKIP_KINDS + P.NONEXC_KINDS + ("xf_kbi", "ar_kbi", "ar_sysexit")
        universe = {r["i"] for r in model.raised if r["kind"] in plain and r["kind"] not in P.UNMARKED and r["i"] is not None}
        want_m = sorted(r["i"] for r in user_raises if r["handlers"] > j and r["i"] in universe)
        got_m = sorted(c[1] for c in calls if isinstance(c[1], int) and c[1] in universe)
        extra = [m for m in got_m if m not in want_m]
        if lo <= len(calls) <= hi and (extra or any(got_m.count(m) < want_m.count(m) for m in set(want_m))) and not vs:
            vs.append(V("onException", "wrong-exception", "handler registered %d-th was handed exceptions with markers %r, raised after its registration: %r" % (j, got_m, want_m)))
    # a handler registered on the instance from outside keeps being called when the instance is run again
    if prog.get("outside_handler") and not vs:
        first = len([c for c in obs["live"].handler_calls if c[0] == 0])
        del obs["live"].handler_calls[:]
        del obs["live"].log[:]
        obs2 = R.run_program(prog, "ext", case=obs["case"], live=obs["live"])
        second = len([c for c in obs["live"].handler_calls if c[0] == 0])
        if second != first:
            vs.append(V("onException", "rerun-call-count", "handler registered before run(): %d calls in the first run, %d in the second" % (first, second)))
    tb = sum(1 for g, ex in items if g["type"].startswith("traceback"))
    kinds = {g["type"] for g, ex in items}
    gen_names = {g["base"] for g, ex in items}
    collisions = len({d["name"] for d in model.details_added} & gen_names)
    nt = collisions > 0 or tb >= 2 or {"fixture-detail", "mismatch-detail", "traceback"} <= kinds
    return Case(vs, nt, ["collision" if collisions else "", "tracebacks=%d" % min(tb, 4), "out=" + out[0], "handlers=%d" % len(executed)] +
                sorted("has-" + k for k in kinds), {"delivered": sorted(delivered), "expected": [(g["type"], g["marker"]) for g, ex in items][:8]})


def _walk(prog):
    def rec(acts):
        for a in acts:
            yield a
            if a["a"] == "cleanup":
                yield from rec(a["body"])
    for s in ("setUp_pre", "setUp_post", "body", "tearDown_pre", "tearDown_post"):
        yield from rec(prog[s])


def _prog(**stages):
    prog = {"decor": "none", "setUp_pre": [], "setUp_post": [], "body": [], "tearDown_pre": [], "tearDown_post": [],
            "handlers": [], "handlers_when": "init", "cells": 0, "outside_handler": False}
    prog.update(stages)
    return prog


def _ending(kind, ids):
    return [] if kind is None else [{"a": "raise", "i": next(ids), "kind": kind, "text": ""}]


def _enum_payloads():
    """Every source of a detail x payloads that are empty / have no chunk at all / start with an empty chunk / are
    large x every outcome, with and without an earlier user detail of the same name (so that the empty detail is
    also renamed)."""
    import itertools
    payloads = [[], [b""], [b"", b"x"], [BIG, b"\xff"]]
    endings = [None, "fail", "error", "skip", "xfail", "uxsuccess"]
    for src, chunks, end, collide in itertools.product(
            ["user", "user_lazy", "fixture", "fixture_live", "fixture_setup_fails", "fixture_nested_fails", "expect", "assert"],
            payloads, endings, [False, True]):
        if src in ("assert", "fixture_setup_fails", "fixture_nested_fails") and end not in (None, "error"):
            continue            # the stage ends with the mismatch / the failing setUp
        ids = itertools.count(1)
        body = [{"a": "onexc", "i": next(ids)}]
        if collide:
            body.append({"a": "detail", "i": next(ids), "name": "log", "chunks": [b"first"], "cell": None})
        cells = 0
        if src == "user":
            body.append({"a": "detail", "i": next(ids), "name": "log-1" if collide else "log", "chunks": chunks, "cell": None, "bare": True})
        elif src == "user_lazy":
            cells = 1
            body.append({"a": "detail", "i": next(ids), "name": "log-1" if collide else "log", "chunks": [b"early"], "cell": 0, "bare": True})
            body.append({"a": "mutate", "i": next(ids), "cell": 0, "data": b"".join(chunks)})
        elif src.startswith("fixture"):
            f = {"i": next(ids), "setup_fail": src == "fixture_setup_fails", "cleanup_fail": False, "details": {"log": chunks, "fx": [b"y"]},
                 "nested": None, "details_fail": False, "live": src == "fixture_live", "bare": True}
            if src == "fixture_nested_fails":
                f["nested"] = {"i": next(ids), "setup_fail": True, "cleanup_fail": False, "details": {}, "nested": None,
                               "details_fail": False, "live": False}
            body.append({"a": "fixture", "i": next(ids), "spec": f})
        else:
            body.append({"a": src, "i": next(ids), "ok": False, "dnames": ["log", "m"], "message": "", "verbose": False,
                         "mpay": {"log": {"chunks": chunks}}})
        if src != "assert" and not src.endswith("fails"):
            body += _ending(end, ids)
            yield _prog(body=body, cells=cells)
        else:
            yield _prog(body=body, cells=cells, tearDown_post=_ending(end, ids))


def _enum_lazy_mismatch():
    """A mismatch detail whose bytes change after assertThat / expectThat returned: what is delivered is what the
    content yields at reporting time."""
    import itertools
    for how, where, data in itertools.product(["expect", "assert"], ["body", "tearDown_pre", "cleanup"], [b"changed", b"", b"\xfe" + BIG]):
        if how == "assert" and where == "body":
            continue
        ids = itertools.count(1)
        mutate = {"a": "mutate", "i": next(ids), "cell": 0, "data": data}
        pre = [{"a": "detail", "i": next(ids), "name": "fx", "chunks": [b"early"], "cell": 0}]
        if where == "cleanup":
            pre.append({"a": "cleanup", "i": next(ids), "args": False, "body": [mutate]})
        body = [{"a": how, "i": next(ids), "ok": False, "dnames": ["m", "fx"], "message": "", "verbose": True, "mpay": {"m": {"cell": 0}, "fx": {"cell": 0}}}]
        if where == "body":
            body.append(mutate)
        yield _prog(setUp_post=pre, body=body, tearDown_pre=[mutate] if where == "tearDown_pre" else [], cells=1)


def _enum_many_tracebacks():
    """10 and more tracebacks in one run (suffixes reach two digits), as constituents of one MultipleExceptions or
    from as many raising cleanups, next to user details that occupy some of the generated names."""
    import itertools
    for n, shape, taken in itertools.product([10, 11, 13, 21], ["multi", "cleanups", "multi_in_cleanup"],
                                             [None, "traceback-1", "traceback-10", "traceback-2", "locals"]):
        tb_locals, taken = taken == "locals", (None if taken == "locals" else taken)
        ids = itertools.count(1)
        pre = [{"a": "onexc", "i": next(ids)}]
        if taken:
            pre.append({"a": "detail", "i": next(ids), "name": taken, "chunks": [b"u"], "cell": None})
        kinds = ["error", "fail", "error_key", "assertion_sub", "error_falsy"]
        if shape == "cleanups":
            body = [{"a": "cleanup", "i": next(ids), "args": False, "body": [{"a": "raise", "i": next(ids), "kind": kinds[k % 5], "text": ""}]}
                    for k in range(n)]
        else:
            m = {"a": "raise", "i": next(ids), "kind": "multi", "sub": [{"kind": kinds[k % 5], "i": next(ids)} for k in range(n)]}
            body = [m] if shape == "multi" else [{"a": "cleanup", "i": next(ids), "args": True, "body": [m]}]
        yield _prog(setUp_post=pre, body=body, tb_locals=tb_locals)


def _enum_no_traceback_object():
    """MultipleExceptions whose constituents are (type, value, None) triples - every subset of two / three
    constituents, raised by every stage: each is still reported (one traceback detail each, handlers called)."""
    import itertools
    kinds = ["error", "fail", "error_key"]
    for k in (1, 2, 3):
        for mask in itertools.product([False, True], repeat=k):
            if not any(mask):
                continue
            for stage in ("setUp_post", "body", "tearDown_post", "cleanup"):
                ids = itertools.count(1)
                pre = [{"a": "onexc", "i": next(ids)}]
                m = {"a": "raise", "i": next(ids), "kind": "multi",
                     "sub": [dict({"kind": kinds[j], "i": next(ids)}, **({"notb": True} if mask[j] else {})) for j in range(k)]}
                if stage == "cleanup":
                    yield _prog(setUp_pre=pre, body=[{"a": "cleanup", "i": next(ids), "args": False, "body": [m]}])
                else:
                    yield _prog(setUp_pre=pre, **{stage: [m]})


def _enum_repeats():
    """(a) ten and more renamings of one name before a fixture detail of that name is gathered (on success and
    from a failing setUp); (b) the very same cleanup - with a failing expectThat inside - registered twice: two
    equal mismatch details under one name are two details; (c) the very same MultipleExceptions instance raised
    again by a later stage: its constituents are reported again."""
    import itertools
    for n, fails, bare in itertools.product([10, 12], [False, True], [False, True]):
        ids = itertools.count(1)
        f = {"i": next(ids), "setup_fail": fails, "cleanup_fail": False, "details": {"log": [b"x"], "Failed expectation": [b"y"]},
             "nested": None, "details_fail": False, "live": False, "bare": bare}
        fx = {"a": "fixture", "i": next(ids), "spec": f}
        expects = [{"a": "expect", "i": next(ids), "ok": False, "dnames": ["log"], "message": "", "verbose": False} for _ in range(n)]
        if fails:
            yield _prog(body=expects + [fx])
        else:
            yield _prog(setUp_post=[fx], body=expects)
    for verbose, pay in itertools.product([False, True], [None, {"m": {"chunks": [b"same"]}}, {"m": {"chunks": []}}]):
        ids = itertools.count(1)
        e = {"a": "expect", "i": next(ids), "ok": False, "dnames": ["m"], "message": "", "verbose": verbose}
        if pay:
            e["mpay"] = pay
        c = {"a": "cleanup", "i": next(ids), "args": True, "body": [e]}
        yield _prog(body=[c, {"a": "cleanup_dup", "i": next(ids), "ref": c["i"]}, {"a": "cleanup_dup", "i": next(ids), "ref": c["i"]}])
    for where, nsub in itertools.product(["tearDown_post", "cleanup", "both"], [1, 2]):
        ids = itertools.count(1)
        pre = [{"a": "onexc", "i": next(ids)}]
        m = {"a": "raise", "i": next(ids), "kind": "multi", "sub": [{"kind": ["error", "fail"][k], "i": next(ids)} for k in range(nsub)]}
        again = {"a": "raise", "i": next(ids), "kind": "again", "ref": m["i"]}
        again2 = {"a": "raise", "i": next(ids), "kind": "again", "ref": m["i"]}
        if where in ("cleanup", "both"):
            pre.append({"a": "cleanup", "i": next(ids), "args": False, "body": [again]})
        yield _prog(setUp_pre=pre, body=[m], tearDown_post=[again2] if where in ("tearDown_post", "both") else [])


def _enum_interrupt_in_helper():
    """KeyboardInterrupt / SystemExit raised by the callable handed to expectFailure / assertRaises, in every stage:
    the traceback and the handlers are those of the interrupt itself."""
    import itertools
    for kind, stage, text in itertools.product(["xf_kbi", "ar_kbi", "ar_sysexit"], ["setUp_post", "body", "tearDown_post", "cleanup"], ["", " two\nlines"]):
        ids = itertools.count(1)
        pre = [{"a": "onexc", "i": next(ids)},
               {"a": "cleanup", "i": next(ids), "args": False, "body": [{"a": "raise", "i": next(ids), "kind": "error", "text": ""}]}]
        r = {"a": "raise", "i": next(ids), "kind": kind, "text": text}
        if stage == "cleanup":
            yield _prog(setUp_pre=pre, body=[{"a": "cleanup", "i": next(ids), "args": False, "body": [r]}])
        else:
            yield _prog(setUp_pre=pre, **{stage: [r]})


def subchecks(tier):
    q = tier == "quick"
    return [Sub("detail_programs", run_case, PROG, 2500 if q else 120000),
            Sub("payload_grid", run_case, enum=_enum_payloads, enum_complete=True,
                note="source of the detail x empty / zero-chunk / leading-empty-chunk / large payload x outcome x renamed or not"),
            Sub("lazy_mismatch_grid", run_case, enum=_enum_lazy_mismatch, enum_complete=True,
                note="mismatch details evaluated at reporting time"),
            Sub("many_tracebacks_grid", run_case, enum=_enum_many_tracebacks, enum_complete=True,
                note="10..21 tracebacks in one run x shape x user detail on a generated name"),
            Sub("no_traceback_object_grid", run_case, enum=_enum_no_traceback_object, enum_complete=True,
                note="MultipleExceptions constituents with tb None"),
            Sub("repeats_grid", run_case, enum=_enum_repeats, enum_complete=True,
                note="10+ renamings before a gather; one cleanup registered twice; one MultipleExceptions raised again"),
            Sub("interrupt_in_helper_grid", run_case, enum=_enum_interrupt_in_helper, enum_complete=True,
                note="interrupt kind x stage")]
