"""C05 - all details and every traceback reach the result; none is dropped or overwritten."""
from hypothesis import strategies as st

from vp.core import Case, Sub, V
from vp import programs as P
from vp import progrun as R
from vp import matchers as ML
from vp.results import OUTCOMES

PROPERTY = "C05"
RULE = ("Generated test programs whose stages attach details under arbitrary names (incl. 'traceback', 'traceback-1', "
        "'Failed expectation', names equal to fixture / mismatch detail names, non-ASCII names; never 'reason') with "
        "empty / multi-chunk / non-UTF-8 / lazily evaluated payloads, use fixtures carrying details (also with "
        "failing setUp, nested), produce assertThat/expectThat mismatches with details, raise 0..k exceptions incl. "
        "MultipleExceptions and expectFailure (empty skip reasons, falsy exceptions, loops attaching one name 11-14 "
        "times so that suffixes reach two digits), and register 0..2 addOnException handlers; the extended recorder "
        "snapshots every content's bytes inside the outcome call. Oracle: name-agnostic containment - every expected "
        "item (identified by a marker in its bytes) maps to a distinct entry of the delivered details dict; user "
        "details sit under exactly their own name with the bytes their source yields at reporting time; handler "
        "calls are counted and must precede the outcome. Non-trivial: a name collision, or >= 2 tracebacks, or "
        "fixture + mismatch + traceback details together; distinct = distinct canonical program.")
ASSUMPTIONS = [
    "a user addDetail(n) executed after a generated detail took the name n (or n's base name) is plain replacement: "
    "that generated item may then be missing",
    "details of a nested fixture (passed to Fixture.useFixture, not TestCase.useFixture) are optional",
    "the forced failure of expectThat/force_failure and fixtures' SetupError are not 'raised by user code': their "
    "tracebacks and handler calls are optional",
]

PROG = P.programs(multi=True, details=True, fixture=True, expect=True, onexc=True, cleanup_depth=2, p_raise=5, nonexc=True, texts=True, decor=True)


def run_case(prog):
    vs = []
    model = P.Model(prog).run()
    obs = R.run_program(prog, "ext")
    outs = [e for e in obs["events"] if e[0] in OUTCOMES]
    if len(outs) != 1:
        return Case([V("one-outcome", "count", "%d outcomes" % len(outs))], True, ["no-single-outcome"])
    out = outs[0]
    ctx = out[2]
    det = ctx.get("details")
    if det is None:
        if model.details_added or model.gen_items:
            vs.append(V("details", "none-delivered", "%s delivered without details" % out[0]))
        det = {}
    delivered = {n: (d[1], d[2]) for n, d in det.items()}      # name -> (content type, bytes)
    for n, (ct, data) in delivered.items():
        if not isinstance(data, bytes):
            vs.append(V("details", "unreadable", "detail %r could not be evaluated at reporting time: %r" % (n, data)))
            return Case(vs, True, ["unreadable"])
    # A. user details: last write per name wins and must survive under exactly that name
    last = {}
    for d in model.details_added:
        last[d["name"]] = d
    used = set()
    collisions = 0
    for name, d in last.items():
        want = b"D%d/" % d["i"] + (model.cells[d["cell"]] if d["cell"] is not None else b"".join(d["chunks"]))
        got = delivered.get(name)
        if got is None:
            vs.append(V("user-detail", "dropped", "detail %r added by the test is missing; delivered names %r" % (name, sorted(delivered))))
        elif got[1] != want:
            kind = "stale-bytes" if d["cell"] is not None and got[1].startswith(b"D%d/" % d["i"]) else "overwritten"
            vs.append(V("user-detail", kind, "detail %r delivered as %r, its source yields %r at reporting time" % (name, got[1], want)))
        used.add(name)
    # B. generated items -> distinct entries
    items = []
    for g in model.gen_items:
        excused = any(u["t"] >= g["t"] and (u["name"] == g["base"] or u["name"].startswith(g["base"] + "-")) for u in model.details_added)
        items.append((g, excused))
    names = [n for n in delivered if n not in used]

    def accepts(g, n):
        ct, data = delivered[n]
        text = data.decode("utf8", "replace")
        if g["type"] == "traceback":
            # the traceback *of that exception*: its last line names the marker, and it is not the
            # traceback of a MultipleExceptions wrapper that merely quotes its constituents
            # (the part after the last indented frame / source line: the exception's own summary, possibly several lines)
            lines = [ln for ln in text.split("\n") if ln.strip()]
            k = max([i for i, ln in enumerate(lines) if ln.startswith("  ")] or [-1])
            last = ["\n".join(lines[k + 1:])]
            return ct.subtype == "x-traceback" and ("MARK-%d-" % g["marker"]) in last[0] and "MultipleExceptions" not in last[0]
        if g["type"] == "traceback-xfail":
            return ct.subtype == "x-traceback" and "MismatchError" in text and "1 != 2" in text
        if g["type"] == "mismatch-detail":
            return text == g["marker"]
        if g["type"] == "fixture-detail":
            return data == g["marker"].encode("utf8") + g["payload"] and (ct.type, ct.subtype) == ("application", "octet-stream")
        if g["type"] == "failed-expectation":
            return "MismatchError" in text and ("MARK-%d-" % g["marker"]) in text and n.startswith("Failed expectation")
        return False
    required = [g for g, ex in items if not ex]
    if required:
        acc = [[accepts(g, n) for n in names] for g in required]
        size = ML._max_matching(acc) if names else 0
        if size != len(required):
            # name the first item that cannot be placed
            for k, g in enumerate(required):
                sub = [acc[j] for j in range(len(required)) if j != k]
                if (ML._max_matching(sub) if sub and names else 0) == len(required) - 1 and not any(acc[k]) or not any(acc[k]):
                    missing = g
                    break
            else:
                missing = required[0]
            vs.append(V("generated-detail", "%s-missing" % missing["type"],
                        "%s for %r has no entry of its own among the delivered details %r (all expected: %r)" % (
                            missing["type"], missing["marker"], {n: delivered[n][1][:40] for n in delivered},
                            [(g["type"], g["marker"]) for g in required])))
    # skip / expected-failure reason
    texts = {a["i"]: a.get("text", "") for a in _walk(prog) if a["a"] == "raise"}
    if out[0] in ("addExpectedFailure", "addUnexpectedSuccess"):
        # expectFailure(reason, ...) records its reason
        xs = [r for r in model.raised if r["kind"] in ("xfail", "uxsuccess", "xf_error", "xf_skip", "xf_kbi")]
        rs = delivered.get("reason")
        if xs and (rs is None or not any(("MARK-%d-" % r["i"]).encode() == rs[1] for r in xs)):
            vs.append(V("reason", "expectFailure", "reason detail of %s is %r, expectFailure was called with markers %r" % (out[0], rs and rs[1], [r["i"] for r in xs])))
    if out[0] == "addSkip" and model.skipped_by_decorator:
        # the reason given to the decorator is the reason reported
        want_r = "" if prog["decor"].endswith("_empty") else "decorated"
        got_r = ctx.get("reason")
        if got_r is None and delivered.get("reason") is not None:
            got_r = delivered["reason"][1].decode("utf8", "replace")
        if got_r != want_r:
            vs.append(V("reason", "decorator-skip", "a test skipped by @%s reported the reason %r" % (prog["decor"], got_r)))
    if out[0] == "addSkip" and not model.skipped_by_decorator:
        skips = [r for r in model.raised if P.klass(r["kind"]) == "skip"]
        rs = delivered.get("reason")
        def reason_of(r):
            if r["kind"] in ("skip_empty", "skip_noargs", "skip_int"):
                return {"skip_empty": b"", "skip_noargs": b"no reason given.", "skip_int": b"42"}[r["kind"]]
            return ("MARK-%d-" % r["i"]).encode() + texts.get(r["i"], "").encode("utf8")
        if rs is None or not any(reason_of(r) == rs[1] for r in skips):
            vs.append(V("reason", "skip", "skip reason detail is %r, raised skips %r" % (rs and rs[1], [r["i"] for r in skips])))
    # handlers
    user_raises = [r for r in model.raised if r["kind"] not in ("forced", "setup_error", "upcall_error", "restore_error")]
    optional = len(model.raised) - len(user_raises)
    hids = []
    for a in _walk(prog):
        if a["a"] == "onexc":
            hids.append(a["i"])
    executed = ([0] if prog.get("outside_handler") else []) + [h for h in hids if ("A", h) in model.log]
    out_index = next(i for i, e in enumerate(obs["shared"]) if e[0] in OUTCOMES)
    for j, h in enumerate(executed):
        want = sum(1 for r in user_raises if r["handlers"] > j)
        lo, hi = want, want + sum(1 for r in model.raised if r["kind"] in ("forced", "setup_error", "upcall_error", "restore_error") and r["handlers"] > j)
        calls = [c for c in obs["live"].handler_calls if c[0] == h]
        if not (lo <= len(calls) <= hi):
            vs.append(V("onException", "call-count", "handler registered %d-th was called %d times; %d exceptions were raised by user code after it was registered (kinds %r)" % (
                j, len(calls), want, [r["kind"] for r in user_raises])))
        if any(c[2] is not None and c[2] > out_index for c in calls):
            vs.append(V("onException", "after-outcome", "a handler was called after the outcome had been reported"))
        # ... and with the exceptions that were raised (those whose message carries a marker)
        plain = P.FAILURE_KINDS + P.ERROR_KINDS + P.SKIP_KINDS + P.NONEXC_KINDS
        universe = {r["i"] for r in model.raised if r["kind"] in plain and r["kind"] not in P.UNMARKED and r["i"] is not None}
        want_m = sorted(r["i"] for r in user_raises if r["handlers"] > j and r["i"] in universe)
        got_m = sorted(c[1] for c in calls if isinstance(c[1], int) and c[1] in universe)
        extra = [m for m in got_m if m not in want_m]
        if lo <= len(calls) <= hi and (extra or any(got_m.count(m) < want_m.count(m) for m in set(want_m))) and not vs:
            vs.append(V("onException", "wrong-exception", "handler registered %d-th was handed exceptions with markers %r, raised after its registration: %r" % (j, got_m, want_m)))
    # a handler registered on the instance from outside keeps being called when the instance is run again
    if prog.get("outside_handler") and not vs:
        first = len([c for c in obs["live"].handler_calls if c[0] == 0])
        del obs["live"].handler_calls[:]
        del obs["live"].log[:]
        obs2 = R.run_program(prog, "ext", case=obs["case"], live=obs["live"])
        second = len([c for c in obs["live"].handler_calls if c[0] == 0])
        if second != first:
            vs.append(V("onException", "rerun-call-count", "handler registered before run(): %d calls in the first run, %d in the second" % (first, second)))
    tb = sum(1 for g, ex in items if g["type"].startswith("traceback"))
    kinds = {g["type"] for g, ex in items}
    gen_names = {g["base"] for g, ex in items}
    collisions = len({d["name"] for d in model.details_added} & gen_names)
    nt = collisions > 0 or tb >= 2 or {"fixture-detail", "mismatch-detail", "traceback"} <= kinds
    return Case(vs, nt, ["collision" if collisions else "", "tracebacks=%d" % min(tb, 4), "out=" + out[0], "handlers=%d" % len(executed)] +
                sorted("has-" + k for k in kinds), {"delivered": sorted(delivered), "expected": [(g["type"], g["marker"]) for g, ex in items][:8]})


def _walk(prog):
    def rec(acts):
        for a in acts:
            yield a
            if a["a"] == "cleanup":
                yield from rec(a["body"])
    for s in ("setUp_pre", "setUp_post", "body", "tearDown_pre", "tearDown_post"):
        yield from rec(prog[s])


def subchecks(tier):
    q = tier == "quick"
    return [Sub("detail_programs", run_case, PROG, 2500 if q else 120000)]
