"""C12 - ThreadsafeForwardingResult: per-test atomicity under every interleaving."""
import itertools

from hypothesis import strategies as st

from vp.core import Case, Sub, V, HarnessError
from vp import history as H
from vp import sched as S
from vp.results import Ext, OUTCOMES

PROPERTY = "C12"
RULE = ("2..4 controlled threads, each reporting 1..3 tests (any outcome kind, tags inside/outside the test, explicit "
        "time() values, optional startTestRun/stopTestRun/stop/done) through its own ThreadsafeForwardingResult "
        "sharing one recording target and one harness-owned semaphore; a deterministic scheduler owns every context "
        "switch (yield points: every semaphore operation and every call on the target), the schedule is a list of "
        "ints drawn by Hypothesis or enumerated by DFS with <= k pre-emptions; optional fault: the k-th call on the "
        "target raises. Oracle: the target log partitions into contiguous per-test blocks by one thread, each outcome "
        "exactly once, per-thread order, own start time and tags (further time()/tags() calls by the holder between the outcome "
        "and stopTest, or after stopTest in the same holding of the semaphore, belong to no block and are left aside), no deadlock state, semaphore count back to 1 at the "
        "end and never above 1, an injected BaseException reaches the calling thread. After the explicit schedule is used up pre-emptions continue from a congruential sequence derived from the spec (about 1 decision in 2/4/8); a scheduling point sits between a reporter's own calls; 1..3 consecutive target calls may raise; failfast may be set on the target and on the forwarders; an enumerated family restarts a forwarder with the target raising at each of its first 16 calls. "
        "The raising call raises an Exception, a BaseException, a TypeError or an AttributeError (the two classes the decorator between forwarder and target gives a meaning to), before or after the target did its work; the tests a raising call struck are known to the harness (it raised) and only they are exempt: every other test keeps its block, own start and end time, outcome kind, tags and payload also after a fault. Outcomes carry a payload naming the test (reason / details / exc_info, positionally or by keyword) which must arrive with that test; startTest, outcome and stopTest of one block are about one test; a reporter may go on reporting after stopTestRun without a new startTestRun; the target may carry run-level tags of its own; blocks are attributed to the reporter of their test, whichever thread made the calls; a timed acquire may time out whenever the semaphore is taken. Enumerated families: run-level calls raising in turn, every kind x payload form, reporting after stopTestRun, pre-tagged target. "
        "Non-trivial: a context switch "
        "while a block was open (semaphore held), or a fault; distinct = distinct canonical (programs, schedule).")
ASSUMPTIONS = [
    "interleavings are explored at the granularity of operations on shared objects (semaphore, target); code between "
    "two such operations only touches thread-local state",
    "'no interleaving deadlocks' is decided as: no explored schedule reaches a state where an unfinished thread "
    "exists and none is enabled",
    "tags() is called with disjoint new/gone sets (a tag named in both is kept by _merge_tags but dropped by TagContext; "
    "C17 states the same assumption)",
    "what becomes of an Exception raised by the target (propagated, logged, swallowed - the decorator in between already "
    "swallows AttributeError from run-level calls and retries after a TypeError) is not in the statement and not checked; a "
    "BaseException (KeyboardInterrupt-like) is expected to reach the reporting thread - that clause is the check's own reading",
    "'that test's tags' are the tags the forwarder's own current_tags shows for the test; a reporter's startTestRun empties "
    "them (TestResult semantics, C17) also when the target's startTestRun raises - a forwarder that wipes its buffered "
    "run-level tags only after the target accepted the call is reported (seeded change C12-r4-1)",
    "whether stopTestRun() / done() with no startTestRun() after them end the scope of the reporter's run-level tags is not in "
    "the statement: 'never', 'stopTestRun does' and 'stopTestRun and done do' are all admitted, the forwarder's own current_tags "
    "(when it matches one of the three) saying which it follows - a forwarder that drops the buffered tags but still shows them "
    "in current_tags is reported; on a target that carries run-level tags of its own both 'a reporter's gone also takes the "
    "target's own tag off the test' ((pre | new) - gone, what forwarding the gone set does) and 'the target's tag stays' "
    "(pre | current_tags, what forwarding the effective set does) are admitted",
    "the six-part block is what every test must get; time()/tags() calls beyond it made while the semaphore is held are not held "
    "against the forwarder (the tags and time every outcome sees are still checked at the target); any call on the target made "
    "without holding the semaphore is - including stop()/done()/startTestRun()/stopTestRun(): the anchors name them 'semaphore-"
    "guarded', so a stop() that sets the flag without waiting for the semaphore is reported (seeded change C12-r4-3)",
    "after a fault, when a tags() call reached the recording target outside a test (a forwarder that swallows the Exception and "
    "carries on with a block whose startTest never was recorded), the tags the recording target attached to later outcomes are "
    "harness state; 'that test's tags' are then read off the tags() calls of each block only",
    "a raising time()/tags() call is attributed to the test its calling thread is in the middle of reporting (a design in "
    "which one thread sends another thread's block is followed in the no-fault path only)",
    "not generated: a test reported twice or with two outcomes, start-less skips, reporters that never call time(), "
    "addSubTest/addDuration (not forwarded: known C04 finding); not observed: whether stop()/done()/startTestRun() reach "
    "the target, the value and the guarding of a shouldStop read, wasSuccessful() (the statement names these calls only in "
    "its release clause)",
]


class Fault(Exception):
    pass


class Interrupt(BaseException):
    """A fault that is not an Exception (KeyboardInterrupt / SystemExit raised by the target)."""


class FaultTypeError(TypeError):
    """A TypeError from inside the target: ExtendedToOriginalDecorator reads it as 'old signature' and retries."""


class FaultAttributeError(AttributeError):
    """An AttributeError from inside the target: ExtendedToOriginalDecorator reads it as 'no such method'."""


FAULT_CLASSES = {"exc": Fault, "base": Interrupt, "type": FaultTypeError, "attr": FaultAttributeError}
FAULTS = (Fault, Interrupt, FaultTypeError, FaultAttributeError)


def fault_class(spec):
    return FAULT_CLASSES[spec.get("fault_cls") or ("base" if spec.get("fault_base") else "exc")]


class Semaphore(S.FakeSemaphore):
    """The fake honours timeout=: a timed wait may run out whenever it finds the semaphore taken (one scheduling
    point, then False) - the try-lock's semantics; after three misses in a row by one task the wait is long enough."""

    def __init__(self, sched, value=1):
        S.FakeSemaphore.__init__(self, sched, value)
        self.misses = {}
        self.epoch = 0           # number of successful acquires so far: names one uninterrupted holding

    def acquire(self, blocking=True, timeout=None):
        t = S.current_task()
        if blocking and timeout is not None and timeout >= 0 and self.misses.get(t, 0) < 3:
            got = S.FakeSemaphore.acquire(self, False)
            self.misses[t] = 0 if got else self.misses.get(t, 0) + 1
            self.epoch += bool(got)
            return got
        self.misses[t] = 0
        got = S.FakeSemaphore.acquire(self, blocking)
        self.epoch += bool(got)
        return got

    __enter__ = acquire


def _tid_of(x):
    try:
        return x.id()
    except Exception:
        return "<%s at %x>" % (type(x).__name__, id(x))


_BY_KEYWORD = {"time": ("a_datetime",), "tags": ("new_tags", "gone_tags")}


def positional(name, a, kw):
    """The leading arguments of a call on the target, positionally, whichever way the forwarder passed them
    (startTest(test=...), time(a_datetime=...)) -> (args, remaining keywords)."""
    a, kw = tuple(a), dict(kw)
    for i, nm in enumerate(_BY_KEYWORD.get(name, ("test",))):
        if len(a) == i and nm in kw:
            a += (kw.pop(nm),)
    return a, kw


class Tags:
    """What 'that test's tags' may be at the target.  Two things the statement leaves open are followed in parallel:
    whether stopTestRun() / done() end the scope of the reporter's run-level tags when no startTestRun() follows
    (three policies), and whether a reporter's 'gone' also takes off a tag the target carries on its own ('sent':
    (pre | new) - gone) or only the reporter's own ('own': the forwarder's current_tags, seen at the target as
    pre | current_tags)."""
    POLICIES = ("never", "stopTestRun", "stopTestRun+done")

    def __init__(self, pre):
        self.pre = frozenset(pre)
        self.own = dict((p, H.TagModel()) for p in self.POLICIES)
        self.sent = dict((p, H.TagModel()) for p in self.POLICIES)
        for m in self.sent.values():
            m.g = set(pre)

    def _each(self):
        return list(self.own.values()) + list(self.sent.values())

    def start_run(self):
        for m in self._each():
            m.start_run()

    def end_run(self, op):
        for p in self.POLICIES:
            if op in p.split("+"):
                self.own[p].g, self.own[p].l = set(), None
                self.sent[p].g, self.sent[p].l = set(self.pre), None

    def start_test(self):
        for m in self._each():
            m.start_test()

    def stop_test(self):
        for m in self._each():
            m.stop_test()

    def change(self, new, gone):
        for m in self._each():
            m.change(new, gone)

    @property
    def current(self):
        return self.sent["never"].current

    def admitted(self, current_tags=None):
        """The tag sets admitted for a test reported now.  The forwarder's own current_tags (a public attribute of
        every TestResult) says which end-of-run policy it follows, when it matches one of them."""
        pols = self.POLICIES
        if current_tags is not None:
            pols = [p for p in pols if self.own[p].current == set(current_tags)] or pols
        return (set(frozenset(self.sent[p].current) for p in pols)
                | set(frozenset(self.pre | self.own[p].current) for p in pols))


@st.composite
def s_thread(draw, tid):
    ops = []
    if draw(st.integers(0, 3)) == 0:
        ops.append({"op": "startTestRun"})
    ntests = draw(st.integers(1, 3))
    for k in range(ntests):
        if k and draw(st.integers(0, 4)) == 0:
            # the same forwarder goes on to report another run - or was told the run is over and reports on regardless
            how = draw(st.integers(0, 2))
            if how != 1:
                ops.append({"op": "stopTestRun"})
            if how != 2:
                ops.append({"op": "startTestRun"})
        if draw(st.integers(0, 2)) == 0:
            new = draw(H.TAGSET)
            ops.append({"op": "tags", "new": sorted(new), "gone": sorted(draw(H.TAGSET) - new)})
        t0 = draw(st.sampled_from([10 * k, 10 * k, 10 * k + 5, 100 * tid + 10 * k]))     # collisions across tests and threads
        ops.append({"op": "time", "t": t0})
        ops.append({"op": "startTest", "k": k})
        for _ in range(draw(st.sampled_from([0, 1, 1, 2, 3]))):
            new = draw(H.TAGSET)
            ops.append({"op": "tags", "new": sorted(new), "gone": sorted(draw(H.TAGSET) - new)})
        ops.append({"op": "time", "t": draw(st.sampled_from([10 * k + 10, 10 * k + 5, t0, 100 * tid + 10 * k + 5]))})
        ops.append({"op": "outcome", "kind": draw(H.KIND), "form": draw(st.integers(0, 3))})      # how the payload is passed: payload()
        if draw(st.integers(0, 3)) == 0:
            new = draw(H.TAGSET)
            ops.append({"op": "tags", "new": sorted(new), "gone": sorted(draw(H.TAGSET) - new)})
        ops.append({"op": "stopTest"})
        if draw(st.integers(0, 5)) == 0:
            ops.append({"op": draw(st.sampled_from(["stop", "done", "shouldStop"]))})
    if draw(st.integers(0, 3)) == 0:
        ops.append({"op": "stopTestRun"})
    return ops


@st.composite
def s_case(draw):
    n = draw(st.integers(2, 4))
    threads = [draw(s_thread(i)) for i in range(n)]
    fault = draw(st.one_of(st.none(), st.none(), st.integers(0, 25), st.integers(0, 60)))
    schedule = draw(st.lists(st.integers(0, 3), max_size=40))
    pre = draw(st.sampled_from([[], [], ["t"], ["u", "w"]]))        # tags the shared target already carries (used when no thread restarts the run)
    return {"threads": threads, "fault": fault, "schedule": schedule, "fault_base": draw(st.booleans()),
            "fault_cls": draw(st.sampled_from([None, None, None, "type", "attr"])),       # None: fault_base decides
            "fault_after": draw(st.sampled_from([False, False, True])),      # the target records the call, then raises
            "pre_tags": pre,
            "tail": draw(st.one_of(st.none(), st.fixed_dictionaries({"seed": st.integers(0, 1 << 20), "p": st.sampled_from([2, 4, 8])}))),       # pre-emptions after the explicit schedule is used up
            "fault_len": draw(st.sampled_from([1, 1, 1, 2, 3])),      # how many consecutive calls on the target raise
            "failfast": draw(st.sampled_from(["off", "off", "target", "forwarders", "both"])),
            "scratch_tags": draw(st.booleans())}


def payload(content, test_id, op):
    """What the reporter passes along with the outcome -> (args, kwargs, expectation).  The text names the test, so a
    payload swapped between two tests, replaced by a constant or dropped is visible at the target."""
    kind, form = op["kind"], op.get("form", 0)
    txt = "about " + test_id
    if kind in ("error", "failure", "xfail"):
        if form == 0:
            return (), {"details": {}}, None
        if form == 1:
            return (), {"details": {"note": content.text_content(txt)}}, ("details", "note", txt)
        err = (ValueError, ValueError(txt), None)
        return ((err,), {}, ("err", err)) if form == 2 else ((), {"err": err}, ("err", err))
    if kind == "skip":
        if form == 1:
            return (), {"reason": txt}, ("reason", txt)
        if form == 2:
            return (), {"details": {"reason": content.text_content(txt)}}, ("details", "reason", txt)
        return (txt,), {}, ("reason", txt)
    if form % 2:
        return (), {"details": {"note": content.text_content(txt)}}, ("details", "note", txt)
    return (), {}, None


def payload_ok(expect, ctx):
    """Lenient on the channel (a result may turn a reason into a 'reason' detail or an exc_info into a traceback
    detail), strict on the content."""
    if expect is None:
        return True
    details = ctx.get("details") or {}
    texts = [d[2] for d in details.values() if isinstance(d[2], bytes)]
    if expect[0] == "reason":
        return ctx.get("reason") == expect[1] or expect[1].encode() in texts
    if expect[0] == "details":
        got = details.get(expect[1])
        if got is not None:
            return got[2] == expect[2].encode()
        return ctx.get("reason") == expect[2] or (ctx.get("err") is not None and expect[2] in str(ctx["err"][1]))
    if expect[0] == "err":
        err = ctx.get("err")
        if err is not None:
            return len(err) == 3 and err[1] is expect[1][1]
        return any(str(expect[1][1]).encode() in t for t in texts)
    return True


def execute(spec, schedule=None):
    """-> (violations, stats, decisions)"""
    import testtools
    from testtools import content
    vs = []
    sched = S.Scheduler(spec["schedule"] if schedule is None else schedule, tail=spec.get("tail") if schedule is None else None)
    sem = Semaphore(sched, 1)
    log = []                 # (tid, name, payload)
    calls = [0]
    open_switch = [0]
    target_inner = Ext()
    if spec.get("failfast") in ("target", "both"):
        target_inner.failfast = True
    restarts = any(op["op"] == "startTestRun" for ops in spec["threads"] for op in ops)
    # a target that carries run-level tags of its own: only a 'gone' from a reporter can take them off a test.  The
    # target's own startTestRun would wipe them for every thread at a schedule-dependent moment, hence not with restarts
    pre = set() if restarts else set(spec.get("pre_tags") or ())
    if pre:
        target_inner.tags(set(pre), set())
        del target_inner.events[:]
    fcls = fault_class(spec)
    flo = spec["fault"]
    fhi = None if flo is None else flo + spec.get("fault_len", 1)

    def hook(a, b):
        if sem.count == 0:
            open_switch[0] += 1
    sched.hooks.append(hook)
    open_rep = {}            # tid -> the report of the test that thread is in the middle of
    struck = set()           # ids of tests for which a call on the target raised (the harness knows: it raised them)
    run_level_tags = [False]     # a tags() call reached the recording target while it was not inside a test

    class Target:
        """The shared target: every call is a yield point and is logged with the calling thread."""

        def __getattr__(self, name):
            attr = getattr(target_inner, name)
            if not callable(attr):
                if name == "shouldStop":
                    sched.yield_point("target.shouldStop")
                return attr

            def call(*a, **kw):
                sched.yield_point("target." + name)
                t = S.current_task()
                n = calls[0]
                calls[0] += 1
                holder = sem.holder
                me = t.tid if t else None
                a, kw = positional(name, a, kw)
                log.append((me, name, a, n, sem.count, holder.tid if holder else None, sem.epoch))
                if name == "tags" and target_inner._local_tags is None and any(a[:2]):
                    run_level_tags[0] = True
                if flo is not None and flo <= n < fhi:
                    if me in open_rep:
                        struck.add(open_rep[me]["test"].id())
                    if name in ("startTest", "stopTest") + OUTCOMES and a:
                        struck.add(_tid_of(a[0]))
                    if spec.get("fault_after"):
                        attr(*a, **kw)          # the target did its work, then failed
                    raise fcls("injected at call %d (%s)" % (n, name))
                return attr(*a, **kw)
            return call
    target = Target()
    reports = []         # per thread: list of dicts
    faults_seen = []

    def make(tid, ops):
        fwd = testtools.ThreadsafeForwardingResult(target, sem)
        if spec.get("failfast") in ("forwarders", "both"):
            fwd.failfast = True
        tagm = Tags(pre)
        rep = []
        reports.append(rep)

        scratch_new, scratch_gone = set(), set()

        def body():
            cur = None
            now = None
            for op in ops:
                k = op["op"]
                sched.yield_point("reporter.between-calls")       # the reporting thread's own code (a test body) runs here
                try:
                    if k == "startTestRun":
                        # the reporter has begun a new run, whatever the target makes of it: the forwarder's own
                        # current_tags is empty from here on also when the target's startTestRun raises (ASSUMPTIONS)
                        tagm.start_run()
                        fwd.startTestRun()
                    elif k == "stopTestRun":
                        tagm.end_run(k)
                        fwd.stopTestRun()
                    elif k == "tags":
                        if spec.get("scratch_tags"):
                            # a reporter that refills two scratch sets for every tags() call
                            scratch_new.clear(); scratch_new.update(op["new"])
                            scratch_gone.clear(); scratch_gone.update(op["gone"])
                            fwd.tags(scratch_new, scratch_gone)
                        else:
                            fwd.tags(set(op["new"]), set(op["gone"]))
                        tagm.change(op["new"], op["gone"])
                    elif k == "time":
                        now = H.ts(op["t"])
                        fwd.time(now)
                    elif k == "startTest":
                        cur = testtools.PlaceHolder("t%d.%d" % (tid, op["k"]))
                        rep.append({"test": cur, "start": now, "tid": tid})
                        open_rep[tid] = rep[-1]
                        fwd.startTest(cur)
                        tagm.start_test()
                    elif k == "outcome":
                        rep[-1]["kind"] = op["kind"]
                        rep[-1]["tags"] = frozenset(tagm.current)
                        try:
                            own = set(fwd.current_tags)
                        except Exception:
                            own = None
                        rep[-1]["tags_ok"] = tagm.admitted(own)
                        rep[-1]["end"] = now
                        rep[-1]["first_call"] = calls[0]
                        m = getattr(fwd, H.METHOD[op["kind"]])
                        a, kw, rep[-1]["payload"] = payload(content, cur.id(), op)
                        try:
                            m(cur, *a, **kw)
                        finally:
                            rep[-1]["last_call"] = calls[0]
                    elif k == "stopTest":
                        try:
                            fwd.stopTest(cur)
                        finally:
                            open_rep.pop(tid, None)
                        tagm.stop_test()
                    elif k == "stop":
                        fwd.stop()
                    elif k == "done":
                        tagm.end_run(k)
                        fwd.done()
                    elif k == "shouldStop":
                        fwd.shouldStop
                except FAULTS as f:
                    faults_seen.append((tid, k))
                    if k == "stopTest":
                        tagm.stop_test()
                    if k in ("startTest", "outcome", "stopTest") and rep:
                        struck.add(rep[-1]["test"].id())
        return body
    for tid, ops in enumerate(spec["threads"]):
        sched.spawn(make(tid, ops), "T%d" % tid)
    try:
        sched.run()
    except S.Deadlock as d:
        vs.append(V("deadlock", "after-fault" if faults_seen else "plain",
                    "no thread can run: %r; semaphore count %d; faults delivered %r" % (d.blocked, sem.count, faults_seen)))
    for t in sched.tasks:
        if t.error is not None:
            raise HarnessError("task %s raised %r" % (t.name, t.error))
    # ---- semaphore discipline
    if not vs:
        if sem.count != 1:
            vs.append(V("semaphore", "not-released", "semaphore count is %d after all threads finished (faults %r)" % (sem.count, faults_seen)))
        if sem.max_seen > 1:
            vs.append(V("semaphore", "over-released", "semaphore count reached %d" % sem.max_seen))
    fault_hit = flo is not None and flo < calls[0]
    if fault_hit and not faults_seen and fcls is Interrupt:
        # only for a BaseException (ASSUMPTIONS): what becomes of an Exception the target raised is not in the statement
        vs.append(V("fault", "swallowed", "the BaseException raised by the target at call %d did not reach the calling thread" % flo))
    # ---- target calls only under the semaphore
    for tid, name, a, n, count, holder, epoch in log:
        if count != 0 or holder != tid:
            vs.append(V("atomicity", "call-outside-critical-section-" + name,
                        "thread %s called target.%s while the semaphore was %s" % (tid, name, "free" if count else "held by thread %s" % holder)))
            break
    # ---- blocks
    block_methods = ("time", "startTest", "tags", "stopTest") + OUTCOMES
    # Every test gets its contiguous block; a time()/tags() call the holder makes after stopTest, in the same
    # uninterrupted holding of the semaphore and not opening its next block, is part of no block and is left aside
    blog = [e for e in log if e[1] in block_methods]
    seq = []
    closed = {}              # (thread, holding) -> the last block call of that holding was stopTest
    for x, (tid, name, a, n, c, h, epoch) in enumerate(blog):
        if name in ("time", "tags") and c == 0 and h == tid and closed.get((tid, epoch)):
            nxt = blog[x + 1] if x + 1 < len(blog) else None
            if not (name == "time" and nxt is not None and nxt[1] == "startTest" and nxt[0] == tid and nxt[6] == epoch):
                continue
        closed[(tid, epoch)] = name == "stopTest"
        seq.append((tid, name, a, n))
    i = 0
    seen_tests = []
    while i < len(seq):
        tid = seq[i][0]
        j = i
        names = []
        while j < len(seq) and seq[j][0] == tid:
            if seq[j][1] == "startTest" and len(names) != 1:
                # a block cut short by a raising target is followed directly by the same thread's next block,
                # which began with the preceding time() call
                if names and names[-1] == "time" and len(names) > 1:
                    names.pop()
                    j -= 1
                    break
            names.append(seq[j][1])
            j += 1
            if names[-1] == "stopTest":
                break
        # a run of events by one thread up to stopTest (or until another thread's event)
        blk = seq[i:j]
        shape = [e[1] for e in blk]
        faulted_here = fault_hit and any(flo <= e[3] < fhi for e in blk)
        # start time, startTest, end time, tags, the outcome, [more time/tags calls: they change nothing the outcome saw], stopTest
        out_at = next((x for x, s_ in enumerate(shape) if s_ in OUTCOMES), None)
        ok_shape = (len(shape) >= 5 and shape[0] == "time" and shape[1] == "startTest" and shape[2] == "time"
                    and out_at is not None and out_at >= 3 and all(s_ == "tags" for s_ in shape[3:out_at])
                    and all(s_ in ("time", "tags") for s_ in shape[out_at + 1:-1]) and shape[-1] == "stopTest")
        if not ok_shape and not faulted_here:
            # a block cut by another thread's events, or malformed
            nxt = seq[j][0] if j < len(seq) else None
            vs.append(V("atomicity", "interleaved-block" if shape[-1:] != ["stopTest"] else "malformed-block",
                        "thread %d's events %r are followed by thread %r's before the block was complete (log: %r)" % (
                            tid, shape, nxt, [(e[0], e[1]) for e in seq[max(0, i - 3):j + 3]])))
            break
        if faulted_here:
            # whichever thread made the calls: the tests this run of calls is about were struck
            struck.update(_tid_of(e[2][0]) for e in blk if e[1] in ("startTest", "stopTest") + OUTCOMES and e[2])
        if ok_shape:
            blk = blk[:out_at + 1] + blk[-1:]
            test = blk[1][2][0]
            seen_tests.append((tid, test, blk))
            if not faulted_here:
                about = [_tid_of(e[2][0]) if e[2] else None for e in (blk[1], blk[-2], blk[-1])]
                if len({x for x in about if x is not None}) > 1:
                    vs.append(V("block-content", "test-identity", "one block has startTest(%s) %s(%s) stopTest(%s)" % (about[0], blk[-2][1], about[1], about[2])))
        i = j
    if not any(v.clause == "atomicity" for v in vs):
        # exactly once / order / times / tags.  A block belongs to the reporter of the test it is about (whichever
        # thread made the calls); the tests a raising call struck may be absent, truncated or repeated
        owner = {r["test"].id(): tid for tid, rep in enumerate(reports) for r in rep}
        foreign = [_tid_of(t) for (tt, t, b) in seen_tests if _tid_of(t) not in owner]
        if foreign:
            vs.append(V("exactly-once", "duplicate-or-foreign", "the target saw blocks about %r, which nobody reported" % (foreign,)))
        for tid, rep in enumerate(reports):
            mine = [(t, b) for (tt, t, b) in seen_tests if owner.get(_tid_of(t)) == tid and _tid_of(t) not in struck]
            want = [r for r in rep if "kind" in r and r["test"].id() not in struck]
            got_ids = [t.id() for t, b in mine]
            want_ids = [r["test"].id() for r in want]
            if got_ids != want_ids:
                if fault_hit:
                    vs.append(V("exactly-once", "lost-after-a-fault", "thread %d reported %r (besides the tests the fault struck: %r), target saw %r; faults delivered %r" % (
                        tid, want_ids, sorted(struck), got_ids, faults_seen)))
                else:
                    vs.append(V("exactly-once", "missing-or-reordered", "thread %d reported %r, target saw %r" % (tid, want_ids, got_ids)))
                continue
            for r, (t, b) in zip(want, mine):
                if b[0][2][0] != r["start"]:
                    vs.append(V("block-content", "start-time", "block of %s starts with time %r, the test started at %r" % (t.id(), b[0][2][0], r["start"])))
                if b[2][2][0] != r["end"]:
                    vs.append(V("block-content", "end-time", "block of %s has end time %r, expected %r" % (t.id(), b[2][2][0], r["end"])))
                if b[-2][1] != H.METHOD[r["kind"]]:
                    vs.append(V("block-content", "outcome", "%s delivered as %s" % (r["kind"], b[-2][1])))
        # tags and payload as observed by the target at each outcome
        outs = [e for e in target_inner.events if e[0] in OUTCOMES]
        by_id = {}
        for e in outs:
            by_id.setdefault(_tid_of(e[1]), []).append(e[2])
        for rep in reports:
            for r in rep:
                if "kind" not in r or r["test"].id() in struck:
                    continue
                got = by_id.get(r["test"].id(), [])
                if len(got) != 1:
                    vs.append(V("exactly-once", "outcome-count", "%s has %d outcomes at the target" % (r["test"].id(), len(got))))
                    continue
                if got[0]["tags"] not in r["tags_ok"] and not (fault_hit and run_level_tags[0]):
                    # (after a fault a forwarder may carry on with a block whose startTest the recording target never
                    # recorded: that block's tags are then run-level tags of the recording target - harness state, not
                    # forwarder behaviour; the tags are then read off the blocks only, below)
                    vs.append(V("block-content", "tags", "%s delivered with tags %r, its thread had %r" % (r["test"].id(), sorted(got[0]["tags"]), sorted(r["tags"]))))
                if not payload_ok(r.get("payload"), got[0]):
                    vs.append(V("block-content", "payload", "%s was reported with %r, the target got %r" % (
                        r["test"].id(), r["payload"][:1] + r["payload"][-1:], {k: v for k, v in got[0].items() if k in ("reason", "err", "details")})))
        # that test's tags, read off the block itself (also when a run-level call on the target raised)
        for tid, test, blk in seen_tests:
            r = next((r for rep in reports for r in rep if r["test"].id() == _tid_of(test)), None)
            if r is None or "tags" not in r or r["test"].id() in struck:
                continue
            cur = set(pre)
            for e in blk:
                if e[1] == "tags":
                    cur = (cur | set(e[2][0])) - set(e[2][1])
            if frozenset(cur) not in r["tags_ok"] and not any(v.bucket == "block-content:tags" for v in vs):
                vs.append(V("block-content", "tags-in-block", "block of %s carries tags %r, its thread had %r for that test%s" % (
                    test.id(), sorted(cur), sorted(r["tags"]), " (a call on the target raised earlier: %r)" % (faults_seen,) if faults_seen else "")))
    stats = {"switches": sched.switches, "open_switches": open_switch[0], "calls": calls[0], "fault_hit": fault_hit,
             "decisions": len(sched.decisions)}
    return vs, stats, sched.decisions


def run_case(spec):
    vs, stats, _ = execute(spec)
    nt = stats["open_switches"] > 0 or stats["fault_hit"]
    return Case(vs, nt, ["threads=%d" % len(spec["threads"]), "fault" if stats["fault_hit"] else "no-fault",
                         "open-switch" if stats["open_switches"] else "no-open-switch", "failfast=" + spec.get("failfast", "off"),
                         "switches=%d" % min(stats["switches"], 9)], stats)


def small_config(nthreads, ntests, fault=None, tags=True):
    threads = []
    for tid in range(nthreads):
        ops = []
        for k in range(ntests):
            ops += [{"op": "time", "t": 10 * k}, {"op": "startTest", "k": k}]
            if tags:
                ops.append({"op": "tags", "new": ["t%d" % tid], "gone": []})
            ops += [{"op": "time", "t": 10 * k + 10}, {"op": "outcome", "kind": "success" if k else "failure"}, {"op": "stopTest"}]
        if tid == 0:
            ops.append({"op": "stop"})
        threads.append(ops)
    return {"threads": threads, "fault": fault, "schedule": []}


def custom_dfs(ctx):
    """Bounded-exhaustive: all schedules with <= k pre-emptions for small configurations."""
    out = []
    thorough = ctx["tier"] == "thorough"
    configs = [(2, 1, None, 2, 1500), (2, 2, None, 1, 1500), (2, 1, 5, 1, 800), (2, 3, None, 1, 1500)] if not thorough else [(2, 1, None, 2, 4000), (2, 2, None, 2, 6000), (3, 1, None, 2, 6000),
                                                              (2, 1, 4, 2, 3000), (2, 1, 6, 2, 3000), (3, 2, None, 1, 4000), (2, 3, None, 1, 3000)]
    for nth, nt, fault, bound, max_runs in configs:
        base = small_config(nth, nt, fault)
        results = []

        def run_one(choices):
            spec = dict(base, schedule=list(choices))
            vs, stats, decisions = execute(spec)
            results.append((spec, vs, stats))
            return decisions
        for _ in S.explore(run_one, bound, max_runs):
            pass
        complete = S.explore.complete         # read now: the attribute belongs to the last exploration that ran
        for spec, vs, stats in results:
            out.append((spec, Case(vs, stats["open_switches"] > 0 or stats["fault_hit"],
                                   ["dfs-%dx%d-fault=%s-bound=%d" % (nth, nt, fault, bound), "complete" if complete else "truncated"], stats)))
    return out


def _enum_restart_faults():
    """A forwarder that buffered a run-level tag, is told to start another run, and goes on reporting - with the
    target raising at every possible call in turn (serial schedule and one alternating schedule)."""
    t0 = [{"op": "startTestRun"}, {"op": "tags", "new": ["run1"], "gone": []},
          {"op": "time", "t": 0}, {"op": "startTest", "k": 0}, {"op": "time", "t": 10}, {"op": "outcome", "kind": "success"}, {"op": "stopTest"},
          {"op": "startTestRun"},
          {"op": "time", "t": 20}, {"op": "startTest", "k": 1}, {"op": "tags", "new": ["t"], "gone": []}, {"op": "time", "t": 30},
          {"op": "outcome", "kind": "failure"}, {"op": "stopTest"}, {"op": "stopTestRun"}]
    t1 = [{"op": "time", "t": 5}, {"op": "startTest", "k": 0}, {"op": "time", "t": 6}, {"op": "outcome", "kind": "skip"}, {"op": "stopTest"}]
    for schedule in ([], [1, 0] * 12):
        yield {"threads": [t0, t1], "fault": None, "fault_base": False, "fault_len": 1, "schedule": schedule, "scratch_tags": False}
        for fault in range(0, 16):
            for cls in ("exc", "base", "type", "attr"):
                for flen, after in ((1, False), (2, False), (1, True)):
                    yield {"threads": [t0, t1], "fault": fault, "fault_base": cls == "base", "fault_cls": cls, "fault_len": flen,
                           "fault_after": after, "schedule": schedule, "scratch_tags": False}


def _test(k, kind="success", form=0, before=(), inside=(), t=None):
    """ops of one test; before/inside: (new, gone) tag changes outside / inside the test"""
    t = 10 * k if t is None else t
    return ([{"op": "tags", "new": list(n), "gone": list(g)} for n, g in before] + [{"op": "time", "t": t}, {"op": "startTest", "k": k}]
            + [{"op": "tags", "new": list(n), "gone": list(g)} for n, g in inside]
            + [{"op": "time", "t": t + 5}, {"op": "outcome", "kind": kind, "form": form}, {"op": "stopTest"}])


def _enum_shapes():
    """Small fixed families for program shapes a random draw meets too rarely to be relied on at every seed."""
    alt = [1, 0] * 12
    # a reporter that was told the run is over and goes on reporting without a new startTestRun
    for head in ([{"op": "startTestRun"}], []):
        for between in (["stopTestRun"], ["stopTestRun", "done"], ["stop", "stopTestRun"]):
            t0 = head + _test(0, before=[(["v"], [])]) + [{"op": o} for o in between] + _test(1, "failure", inside=[(["t"], [])]) + _test(2, "skip")
            for schedule in ([], alt):
                yield {"threads": [t0, _test(0, "skip", t=5)], "fault": None, "schedule": schedule}
    # every call of a reporter that also makes run-level calls raises in turn, each class of exception
    t0 = [{"op": "startTestRun"}] + _test(0, "failure", 1) + [{"op": "stop"}, {"op": "done"}, {"op": "shouldStop"}, {"op": "stopTestRun"}] + _test(1, "skip")
    for fault in range(0, 14):
        for cls in ("exc", "base", "type", "attr"):
            for schedule in ([], alt):
                yield {"threads": [t0, _test(0, "xfail", 2, t=5)], "fault": fault, "fault_cls": cls, "fault_base": cls == "base", "schedule": schedule}
    # every way of passing the outcome's payload, two reporters whose texts differ
    for kind in H.KINDS:
        for form in range(4):
            yield {"threads": [_test(0, kind, form) + _test(1, kind, (form + 1) % 4), _test(0, kind, (form + 2) % 4)], "fault": None, "schedule": alt}
    # a shared target that carries run-level tags of its own
    for pre in (["t"], ["u", "w"]):
        x = pre[0]
        t0 = _test(0, before=[([], [x])]) + _test(1, "error", inside=[([x], [])]) + _test(2)
        t1 = _test(0, "skip") + _test(1, "xfail", inside=[([], pre)]) + _test(2, before=[(["v"], pre[-1:])])
        for schedule in ([], alt):
            yield {"threads": [t0, t1], "fault": None, "schedule": schedule, "pre_tags": pre}
            yield {"threads": [t0, t1], "fault": 9, "fault_len": 2, "schedule": schedule, "pre_tags": pre}


def subchecks(tier):
    q = tier == "quick"
    return [
        Sub("random_schedules", run_case, s_case(), 2500 if q else 40000),
        Sub("restart_with_faults", run_case, enum=_enum_restart_faults, enum_complete=True,
            note="a forwarder with a buffered run-level tag starts another run; the target raises at each of its first 16 calls "
                 "in turn (1 or 2 calls in a row, before or after the target did its work; an Exception, a BaseException, a TypeError "
                 "or an AttributeError; 2 schedules)"),
        Sub("program_shapes", run_case, enum=_enum_shapes, enum_complete=True,
            note="reporting goes on after stopTestRun without a new startTestRun; every outcome kind x every way of passing its "
                 "payload; a target that already carries run-level tags"),
        Sub("bounded_preemption_dfs", run_case, custom=custom_dfs,
            note="all schedules with <= k pre-emptions (k=1 for 2 threads x 1 test in quick; k<=2 up to 3x2 in thorough)"),
    ]
