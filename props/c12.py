"""C12 - ThreadsafeForwardingResult: per-test atomicity under every interleaving."""
import itertools

from hypothesis import strategies as st

from vp.core import Case, Sub, V, HarnessError
from vp import history as H
from vp import sched as S
from vp.results import Ext, OUTCOMES

PROPERTY = "C12"
RULE = ("2..4 controlled threads, each reporting 1..3 tests (any outcome kind, tags inside/outside the test, explicit "
        "time() values, optional startTestRun/stopTestRun/stop/done) through its own ThreadsafeForwardingResult "
        "sharing one recording target and one harness-owned semaphore; a deterministic scheduler owns every context "
        "switch (yield points: every semaphore operation and every call on the target), the schedule is a list of "
        "ints drawn by Hypothesis or enumerated by DFS with <= k pre-emptions; optional fault: the k-th call on the "
        "target raises. Oracle: the target log partitions into contiguous per-test blocks by one thread, each outcome "
        "exactly once, per-thread order, own start time and tags, no deadlock state, semaphore count back to 1 at the "
        "end and never above 1, the injected exception reaches the calling thread. After the explicit schedule is used up pre-emptions continue from a congruential sequence derived from the spec (about 1 decision in 2/4/8); a scheduling point sits between a reporter's own calls; 1..3 consecutive target calls may raise; failfast may be set on the target and on the forwarders; an enumerated family restarts a forwarder with the target raising at each of its first 16 calls. "
        "Non-trivial: a context switch "
        "while a block was open (semaphore held), or a fault; distinct = distinct canonical (programs, schedule).")
ASSUMPTIONS = [
    "interleavings are explored at the granularity of operations on shared objects (semaphore, target); code between "
    "two such operations only touches thread-local state",
    "'no interleaving deadlocks' is decided as: no explored schedule reaches a state where an unfinished thread "
    "exists and none is enabled",
]


class Fault(Exception):
    pass


class Interrupt(BaseException):
    """A fault that is not an Exception (KeyboardInterrupt / SystemExit raised by the target)."""


FAULTS = (Fault, Interrupt)


@st.composite
def s_thread(draw, tid):
    ops = []
    if draw(st.integers(0, 3)) == 0:
        ops.append({"op": "startTestRun"})
    ntests = draw(st.integers(1, 3))
    for k in range(ntests):
        if k and draw(st.integers(0, 4)) == 0:
            # the same forwarder goes on to report another run
            if draw(st.booleans()):
                ops.append({"op": "stopTestRun"})
            ops.append({"op": "startTestRun"})
        if draw(st.integers(0, 2)) == 0:
            new = draw(H.TAGSET)
            ops.append({"op": "tags", "new": sorted(new), "gone": sorted(draw(H.TAGSET) - new)})
        t0 = draw(st.sampled_from([10 * k, 10 * k, 10 * k + 5, 100 * tid + 10 * k]))     # collisions across tests and threads
        ops.append({"op": "time", "t": t0})
        ops.append({"op": "startTest", "k": k})
        for _ in range(draw(st.sampled_from([0, 1, 1, 2, 3]))):
            new = draw(H.TAGSET)
            ops.append({"op": "tags", "new": sorted(new), "gone": sorted(draw(H.TAGSET) - new)})
        ops.append({"op": "time", "t": draw(st.sampled_from([10 * k + 10, 10 * k + 5, t0, 100 * tid + 10 * k + 5]))})
        ops.append({"op": "outcome", "kind": draw(H.KIND)})
        if draw(st.integers(0, 3)) == 0:
            new = draw(H.TAGSET)
            ops.append({"op": "tags", "new": sorted(new), "gone": sorted(draw(H.TAGSET) - new)})
        ops.append({"op": "stopTest"})
        if draw(st.integers(0, 5)) == 0:
            ops.append({"op": draw(st.sampled_from(["stop", "done", "shouldStop"]))})
    if draw(st.integers(0, 3)) == 0:
        ops.append({"op": "stopTestRun"})
    return ops


@st.composite
def s_case(draw):
    n = draw(st.integers(2, 4))
    threads = [draw(s_thread(i)) for i in range(n)]
    fault = draw(st.one_of(st.none(), st.none(), st.integers(0, 25), st.integers(0, 60)))
    schedule = draw(st.lists(st.integers(0, 3), max_size=40))
    return {"threads": threads, "fault": fault, "schedule": schedule, "fault_base": draw(st.booleans()),
            "tail": draw(st.one_of(st.none(), st.fixed_dictionaries({"seed": st.integers(0, 1 << 20), "p": st.sampled_from([2, 4, 8])}))),       # pre-emptions after the explicit schedule is used up
            "fault_len": draw(st.sampled_from([1, 1, 1, 2, 3])),      # how many consecutive calls on the target raise
            "failfast": draw(st.sampled_from(["off", "off", "target", "forwarders", "both"])),
            "scratch_tags": draw(st.booleans())}


def execute(spec, schedule=None):
    """-> (violations, stats, decisions)"""
    import testtools
    vs = []
    sched = S.Scheduler(spec["schedule"] if schedule is None else schedule, tail=spec.get("tail") if schedule is None else None)
    sem = S.FakeSemaphore(sched, 1)
    log = []                 # (tid, name, payload)
    calls = [0]
    open_switch = [0]
    target_inner = Ext()
    if spec.get("failfast") in ("target", "both"):
        target_inner.failfast = True

    def hook(a, b):
        if sem.count == 0:
            open_switch[0] += 1
    sched.hooks.append(hook)

    class Target:
        """The shared target: every call is a yield point and is logged with the calling thread."""

        def __getattr__(self, name):
            attr = getattr(target_inner, name)
            if not callable(attr):
                if name == "shouldStop":
                    sched.yield_point("target.shouldStop")
                return attr

            def call(*a, **kw):
                sched.yield_point("target." + name)
                t = S.current_task()
                n = calls[0]
                calls[0] += 1
                holder = sem.holder
                log.append((t.tid if t else None, name, a, n, sem.count, holder.tid if holder else None))
                if spec["fault"] is not None and spec["fault"] <= n < spec["fault"] + spec.get("fault_len", 1):
                    raise (Interrupt if spec.get("fault_base") else Fault)("injected at call %d (%s)" % (n, name))
                return attr(*a, **kw)
            return call
    target = Target()
    reports = []         # per thread: list of dicts
    faults_seen = []

    def make(tid, ops):
        fwd = testtools.ThreadsafeForwardingResult(target, sem)
        if spec.get("failfast") in ("forwarders", "both"):
            fwd.failfast = True
        tagm = H.TagModel()
        rep = []
        reports.append(rep)

        scratch_new, scratch_gone = set(), set()

        def body():
            cur = None
            now = None
            for op in ops:
                k = op["op"]
                sched.yield_point("reporter.between-calls")       # the reporting thread's own code (a test body) runs here
                try:
                    if k == "startTestRun":
                        tagm.start_run()          # the reporter has begun a new run, whatever the target makes of it
                        fwd.startTestRun()
                    elif k == "stopTestRun":
                        fwd.stopTestRun()
                    elif k == "tags":
                        if spec.get("scratch_tags"):
                            # a reporter that refills two scratch sets for every tags() call
                            scratch_new.clear(); scratch_new.update(op["new"])
                            scratch_gone.clear(); scratch_gone.update(op["gone"])
                            fwd.tags(scratch_new, scratch_gone)
                        else:
                            fwd.tags(set(op["new"]), set(op["gone"]))
                        tagm.change(op["new"], op["gone"])
                    elif k == "time":
                        now = H.ts(op["t"])
                        fwd.time(now)
                    elif k == "startTest":
                        cur = testtools.PlaceHolder("t%d.%d" % (tid, op["k"]))
                        fwd.startTest(cur)
                        tagm.start_test()
                        rep.append({"test": cur, "start": now, "tid": tid})
                    elif k == "outcome":
                        rep[-1]["kind"] = op["kind"]
                        rep[-1]["tags"] = frozenset(tagm.current)
                        rep[-1]["end"] = now
                        rep[-1]["first_call"] = calls[0]
                        m = getattr(fwd, H.METHOD[op["kind"]])
                        try:
                            if op["kind"] in ("error", "failure", "xfail"):
                                m(cur, details={})
                            elif op["kind"] == "skip":
                                m(cur, "why")
                            else:
                                m(cur)
                        finally:
                            rep[-1]["last_call"] = calls[0]
                    elif k == "stopTest":
                        fwd.stopTest(cur)
                        tagm.stop_test()
                    elif k == "stop":
                        fwd.stop()
                    elif k == "done":
                        fwd.done()
                    elif k == "shouldStop":
                        fwd.shouldStop
                except FAULTS as f:
                    faults_seen.append((tid, k))
                    if k == "outcome":
                        rep[-1]["faulted"] = True
        return body
    for tid, ops in enumerate(spec["threads"]):
        sched.spawn(make(tid, ops), "T%d" % tid)
    try:
        sched.run()
    except S.Deadlock as d:
        vs.append(V("deadlock", "after-fault" if faults_seen else "plain",
                    "no thread can run: %r; semaphore count %d; faults delivered %r" % (d.blocked, sem.count, faults_seen)))
    for t in sched.tasks:
        if t.error is not None:
            raise HarnessError("task %s raised %r" % (t.name, t.error))
    # ---- semaphore discipline
    if not vs:
        if sem.count != 1:
            vs.append(V("semaphore", "not-released", "semaphore count is %d after all threads finished (faults %r)" % (sem.count, faults_seen)))
        if sem.max_seen > 1:
            vs.append(V("semaphore", "over-released", "semaphore count reached %d" % sem.max_seen))
    fault_hit = spec["fault"] is not None and spec["fault"] < calls[0]
    if fault_hit and not faults_seen:
        vs.append(V("fault", "swallowed", "the exception raised by the target at call %d did not reach the calling thread" % spec["fault"]))
    # ---- target calls only under the semaphore
    for tid, name, a, n, count, holder in log:
        if count != 0 or holder != tid:
            vs.append(V("atomicity", "call-outside-critical-section-" + name,
                        "thread %s called target.%s while the semaphore was %s" % (tid, name, "free" if count else "held by thread %s" % holder)))
            break
    # ---- blocks
    block_methods = ("time", "startTest", "tags", "stopTest") + OUTCOMES
    seq = [(tid, name, a, n) for tid, name, a, n, c, h in log if name in block_methods]
    i = 0
    seen_tests = []
    while i < len(seq):
        tid = seq[i][0]
        j = i
        names = []
        while j < len(seq) and seq[j][0] == tid:
            if seq[j][1] == "startTest" and len(names) != 1:
                # a block cut short by a raising target is followed directly by the same thread's next block,
                # which began with the preceding time() call
                if names and names[-1] == "time" and len(names) > 1:
                    names.pop()
                    j -= 1
                    break
            names.append(seq[j][1])
            j += 1
            if names[-1] == "stopTest":
                break
        # a run of events by one thread up to stopTest (or until another thread's event)
        blk = seq[i:j]
        has_fault = fault_hit and any(e[3] == spec["fault"] for e in blk) or (fault_hit and j < len(seq) and False)
        shape = [e[1] for e in blk]
        outs = [e for e in blk if e[1] in OUTCOMES]
        faulted_here = fault_hit and any(spec["fault"] <= e[3] < spec["fault"] + spec.get("fault_len", 1) for e in blk)
        ok_shape = (len(shape) >= 5 and shape[0] == "time" and shape[1] == "startTest" and shape[2] == "time"
                    and all(s == "tags" for s in shape[3:-2]) and shape[-2] in OUTCOMES and shape[-1] == "stopTest")
        if not ok_shape and not faulted_here:
            # a block cut by another thread's events, or malformed
            nxt = seq[j][0] if j < len(seq) else None
            vs.append(V("atomicity", "interleaved-block" if shape[-1:] != ["stopTest"] else "malformed-block",
                        "thread %d's events %r are followed by thread %r's before the block was complete (log: %r)" % (
                            tid, shape, nxt, [(e[0], e[1]) for e in seq[max(0, i - 3):j + 3]])))
            break
        if ok_shape:
            test = blk[1][2][0]
            seen_tests.append((tid, test, blk))
        i = j
    if not any(v.clause == "atomicity" for v in vs):
        # exactly once / order / times / tags
        for tid, rep in enumerate(reports):
            mine = [(t, b) for (tt, t, b) in seen_tests if tt == tid]
            want = [r for r in rep if "kind" in r and not r.get("faulted")]
            # tests whose block was hit by the fault may be truncated: compare the others
            got_ids = [t.id() for t, b in mine]
            want_ids = [r["test"].id() for r in want]
            if fault_hit:
                # tests whose own block was hit by the fault may be absent or truncated; every other test of the thread
                # must still arrive, once, in order
                if not all(g in [r["test"].id() for r in rep] for g in got_ids) or len(set(got_ids)) != len(got_ids):
                    vs.append(V("exactly-once", "duplicate-or-foreign", "thread %d: target saw %r" % (tid, got_ids)))
                    continue
                faulted_ids = {r["test"].id() for r in rep if r.get("faulted")}
                got_clean = [g for g in got_ids if g not in faulted_ids]
                if got_clean != want_ids:
                    vs.append(V("exactly-once", "lost-after-a-fault", "thread %d reported %r (besides the tests the fault struck: %r), target saw %r; faults delivered %r" % (
                        tid, want_ids, sorted(faulted_ids), got_clean, faults_seen)))
                continue
            if got_ids != want_ids:
                vs.append(V("exactly-once", "missing-or-reordered", "thread %d reported %r, target saw %r" % (tid, want_ids, got_ids)))
                continue
            for r, (t, b) in zip(want, mine):
                if b[0][2][0] != r["start"]:
                    vs.append(V("block-content", "start-time", "block of %s starts with time %r, the test started at %r" % (t.id(), b[0][2][0], r["start"])))
                if b[2][2][0] != r["end"]:
                    vs.append(V("block-content", "end-time", "block of %s has end time %r, expected %r" % (t.id(), b[2][2][0], r["end"])))
                if b[-2][1] != H.METHOD[r["kind"]]:
                    vs.append(V("block-content", "outcome", "%s delivered as %s" % (r["kind"], b[-2][1])))
        # tags as observed by the target at each outcome
        outs = [e for e in target_inner.events if e[0] in OUTCOMES]
        by_id = {}
        for e in outs:
            by_id.setdefault(e[1].id(), []).append(e[2]["tags"])
        if not fault_hit:
            for rep in reports:
                for r in rep:
                    if "kind" not in r:
                        continue
                    got = by_id.get(r["test"].id(), [])
                    if len(got) != 1:
                        vs.append(V("exactly-once", "outcome-count", "%s has %d outcomes at the target" % (r["test"].id(), len(got))))
                    elif got[0] != r["tags"]:
                        vs.append(V("block-content", "tags", "%s delivered with tags %r, its thread had %r" % (r["test"].id(), sorted(got[0]), sorted(r["tags"]))))
        # that test's tags, read off the block itself (also when a run-level call on the target raised)
        for tid, test, blk in seen_tests:
            r = next((r for r in reports[tid] if r["test"] is test), None)
            if r is None or "tags" not in r or r.get("faulted"):
                continue
            cur = set()
            for e in blk:
                if e[1] == "tags":
                    cur = (cur | set(e[2][0])) - set(e[2][1])
            if frozenset(cur) != r["tags"] and not any(v.bucket == "block-content:tags" for v in vs):
                vs.append(V("block-content", "tags-in-block", "block of %s carries tags %r, its thread had %r for that test%s" % (
                    test.id(), sorted(cur), sorted(r["tags"]), " (a call on the target raised earlier: %r)" % (faults_seen,) if faults_seen else "")))
    stats = {"switches": sched.switches, "open_switches": open_switch[0], "calls": calls[0], "fault_hit": fault_hit,
             "decisions": len(sched.decisions)}
    return vs, stats, sched.decisions


def run_case(spec):
    vs, stats, _ = execute(spec)
    nt = stats["open_switches"] > 0 or stats["fault_hit"]
    return Case(vs, nt, ["threads=%d" % len(spec["threads"]), "fault" if stats["fault_hit"] else "no-fault",
                         "open-switch" if stats["open_switches"] else "no-open-switch", "failfast=" + spec.get("failfast", "off"),
                         "switches=%d" % min(stats["switches"], 9)], stats)


def small_config(nthreads, ntests, fault=None, tags=True):
    threads = []
    for tid in range(nthreads):
        ops = []
        for k in range(ntests):
            ops += [{"op": "time", "t": 10 * k}, {"op": "startTest", "k": k}]
            if tags:
                ops.append({"op": "tags", "new": ["t%d" % tid], "gone": []})
            ops += [{"op": "time", "t": 10 * k + 10}, {"op": "outcome", "kind": "success" if k else "failure"}, {"op": "stopTest"}]
        if tid == 0:
            ops.append({"op": "stop"})
        threads.append(ops)
    return {"threads": threads, "fault": fault, "schedule": []}


def custom_dfs(ctx):
    """Bounded-exhaustive: all schedules with <= k pre-emptions for small configurations."""
    out = []
    thorough = ctx["tier"] == "thorough"
    configs = [(2, 1, None, 2, 1500), (2, 2, None, 1, 1500), (2, 1, 5, 1, 800)] if not thorough else [(2, 1, None, 2, 4000), (2, 2, None, 2, 6000), (3, 1, None, 2, 6000),
                                                              (2, 1, 4, 2, 3000), (2, 1, 6, 2, 3000), (3, 2, None, 1, 4000)]
    for nth, nt, fault, bound, max_runs in configs:
        base = small_config(nth, nt, fault)
        results = []

        def run_one(choices):
            spec = dict(base, schedule=list(choices))
            vs, stats, decisions = execute(spec)
            results.append((spec, vs, stats))
            return decisions
        for _ in S.explore(run_one, bound, max_runs):
            pass
        for spec, vs, stats in results:
            out.append((spec, Case(vs, stats["open_switches"] > 0 or stats["fault_hit"],
                                   ["dfs-%dx%d-fault=%s-bound=%d" % (nth, nt, fault, bound), "complete" if S.explore.complete else "truncated"], stats)))
    return out


def _enum_restart_faults():
    """A forwarder that buffered a run-level tag, is told to start another run, and goes on reporting - with the
    target raising at every possible call in turn (serial schedule and one alternating schedule)."""
    t0 = [{"op": "startTestRun"}, {"op": "tags", "new": ["run1"], "gone": []},
          {"op": "time", "t": 0}, {"op": "startTest", "k": 0}, {"op": "time", "t": 10}, {"op": "outcome", "kind": "success"}, {"op": "stopTest"},
          {"op": "startTestRun"},
          {"op": "time", "t": 20}, {"op": "startTest", "k": 1}, {"op": "tags", "new": ["t"], "gone": []}, {"op": "time", "t": 30},
          {"op": "outcome", "kind": "failure"}, {"op": "stopTest"}, {"op": "stopTestRun"}]
    t1 = [{"op": "time", "t": 5}, {"op": "startTest", "k": 0}, {"op": "time", "t": 6}, {"op": "outcome", "kind": "skip"}, {"op": "stopTest"}]
    for fault in [None] + list(range(0, 16)):
        for base in (False, True):
            for schedule in ([], [1, 0] * 12):
                for flen in (1, 2):
                    yield {"threads": [t0, t1], "fault": fault, "fault_base": base, "fault_len": flen, "schedule": schedule, "scratch_tags": False}


def subchecks(tier):
    q = tier == "quick"
    return [
        Sub("random_schedules", run_case, s_case(), 2500 if q else 40000),
        Sub("restart_with_faults", run_case, enum=_enum_restart_faults, enum_complete=True,
            note="a forwarder with a buffered run-level tag starts another run; the target raises at each of its first 16 calls "
                 "in turn (1 or 2 calls in a row, Exception or BaseException, 2 schedules)"),
        Sub("bounded_preemption_dfs", run_case, custom=custom_dfs,
            note="all schedules with <= k pre-emptions (k=1 for 2 threads x 1 test in quick; k<=2 up to 3x2 in thorough)"),
    ]
