"""C20 - Deferred matchers classify fired/failed/unfired without firing anything."""
import gc

from hypothesis import strategies as st

from vp.core import Case, Sub, V
from vp import matchers as ML
from vp.results import Ext

PROPERTY = "C20"
RULE = ("Hypothesis-generated Deferred histories: a Deferred with 0..3 callbacks/errbacks attached (pass-through, "
        "transforming, to-None, raising, recovering, or returning an unfired Deferred), fired with a value (incl. mock.ANY and an "
        "exception instance used as a value) / a failure (caught live, cleaned with cleanFailure(), or built from an "
        "instance) / not fired, matched by has_no_result / succeeded(m) / failed(m) with inner matchers from the C06 "
        "language, then (for the history generator) fired or given further callbacks after matching; oracle = a "
        "model of the callback chain plus the reference predicates. Second generator: test programs whose stages "
        "return already-fired Deferreds under SynchronousDeferredRunTest vs. the same program returning/raising "
        "directly under RunTest (differential). Also: a callback attached between two matches of one Deferred, an errback after a match, cleanups with positional and keyword arguments and KeyboardInterrupt / SystemExit / DeferredNotFired / falsy errors as stages of the runner differential (including what run() raises). "
        "Values include an object with identity only and the tuples () and (1, 2); wherever the model knows which object the Deferred delivers, later callbacks, the inner "
        "matcher of succeeded() and extract_result (value returned / exception raised) must meet that very object; every value also meets succeeded(Never()) and "
        "succeeded(Is(value)); one matcher object is applied to a sibling Deferred first and then to the Deferred at hand; after match-then-fire / match-then-fail / "
        "match-while-paused-then-unpause the three matchers are applied again; the second match after the chain grew also uses the generated inner matcher; the handled-marking of an inspected failure is "
        "checked with inner matchers that match and that do not (not with ones that raise). A complete grid (raw state x kind of value / exception / failure form x "
        "every single callback and two pairs x after-match history) runs under the random histories so that catches do not depend on the seed. Runner differential: also mixed "
        "programs in which some stages return fired Deferreds and the others return / raise directly under the same runner (every program with <= 2 faulty stages, four "
        "direct-stage sets), the names of the details that carry a stage's marker (those of the direct run must be among those of the Deferred run), and the Twisted log (no 'Unhandled error in Deferred' after the Deferred run unless the "
        "direct run has one too). "
        "Non-trivial: callbacks attached before matching, or a "
        "match-then-fire history, or a nested inner matcher; distinct = distinct canonical spec.")
ASSUMPTIONS = [
    "a Deferred whose chain is paused on an unfired inner Deferred has no result yet and is classified as such",
    "has_no_result() is a passive probe on a failed Deferred too: it is not required to mark the failure handled (it may, as long as the failure stays), "
    "but the failure it reports stays on the Deferred, so that failed() still matches it and a later errback still sees it, whichever of the three matchers "
    "looks first (the statement's 'exactly one ... matches, according to whether it has ... fired with a failure' over 'all orders of match / fire / "
    "add-callback', and on_deferred_result's documented 'the value of deferred will be preserved, so that other callbacks and errbacks can be added'); the "
    "statement's list of what matching leaves intact does not name this case, so this is a reading: an implementation in which has_no_result() consumes the "
    "failure it reports (the Deferred then delivers None) is reported, under intact:has_no_result-consumed-failure and the *-rematch / *-then-failed buckets",
    "each of the three matchers is applied to its own structurally equal Deferred (inspecting a failure with "
    "succeeded()/failed() consumes it by design)",
    "the same holds for a Deferred that was pause()d before it was fired: 'has fired' in the statement is read as 'delivers a result to a callback added now', "
    "not as Deferred.called; an implementation that classifies by .called / .result on purpose would be reported",
    "'all inner matchers' are matchers whose match() returns None or a Mismatch (the documented Matcher contract): whether a failure is marked handled when "
    "the inner matcher of failed() raises is not constrained (marking before or after consulting the inner matcher are both admitted)",
    "'as if it had returned or raised directly' covers the outcome, the stages that ran, what run() raises, which details carry the stage's marker and what those "
    "details are called, and the absence of an unhandled-error log, in this direction: every outcome, marker and marker-carrying detail name of the direct "
    "report must be in the Deferred report, and the details both reports have must carry the same markers; details that only the Deferred report has (a log, "
    "the runner's own rendering of the Failure, even when it quotes the stage's exception) are not compared",
    "the log clauses count only events that look like the ones this Twisted emits for a failed Deferred dropped unhandled (learnt once per process by dropping "
    "one); they need an interpreter that finalises unreferenced objects promptly (CPython) - elsewhere they are blind (label log-clauses-blind), not wrong",
    "identity is demanded only of objects the model can name: the fired value / exception when every callback in front hands it through untouched, otherwise the "
    "object seen by a harness-owned pass-through callback appended to the chain",
    "a failed Deferred returned by two stages of one test is not generated (the first stage consumes the failure; a Deferred delivers a result once)",
]

VAL = st.one_of(st.none(), st.integers(0, 3), st.sampled_from(["", "ab", "a b"]), st.lists(st.integers(0, 2), max_size=3),
                st.just({"nested": [None, 0]}), st.just("<ANY>"),       # "<ANY>" stands for unittest.mock.ANY (equal to everything)
                st.just("<EXC>"),                                       # "<EXC>" stands for an exception instance used as a plain value
                st.just("<OBJ>"),                                       # a fresh object that has identity only (a connection, a mock): a copy is another object
                st.sampled_from(["<TUPLE0>", "<TUPLE2>"]))              # the tuples () and (1, 2): the one type that '%'-formatting treats specially
PLACEHOLDERS = ("<ANY>", "<EXC>", "<OBJ>", "<TUPLE0>", "<TUPLE2>")
TUPLES = {"<TUPLE0>": (), "<TUPLE2>": (1, 2)}


class Opaque:
    """A result with identity only: equal to nothing but itself, and copy.copy() of it is another object."""

    def __repr__(self):
        return "<Opaque result>"
CB = st.sampled_from(["pass", "wrap", "to_none", "raise", "recover", "log", "pause"])
EXC = st.sampled_from(["ValueError", "RuntimeError", "KeyError", "CustomError", "KeyboardInterrupt", "CustomBase"])


@st.composite
def s_deferred(draw):
    return {"state": draw(st.sampled_from(["value", "failure", "unfired", "value", "failure", "paused-value", "paused-failure"])),
            "value": draw(VAL), "exc": draw(EXC), "callbacks": draw(st.lists(CB, max_size=3)),
            # how the Failure came about: caught live, cleaned (cleanFailure(), as after pickling), or built from an instance
            "fail_form": draw(st.sampled_from(["live", "live", "cleaned", "instance"]))}


def model_chain(spec, full=False):
    """-> ("none",) | ("value", v) | ("failure", exc_name) [+ message when full]"""
    if spec["state"] == "unfired" or spec["state"].startswith("paused"):
        return ("none",)        # a paused Deferred holds a result it is not delivering: it has no result yet
    cur = ("value", spec["value"]) if spec["state"] == "value" else ("failure", spec["exc"], "boom-" + spec["exc"])
    for cb in spec["callbacks"]:
        if cur[0] == "value":
            if cb == "wrap":
                cur = ("value", [cur[1]])
            elif cb in ("to_none", "log"):
                cur = ("value", None)
            elif cb == "raise":
                cur = ("failure", "RuntimeError", "from-callback")
            elif cb == "pause":
                return ("none",)
        else:
            if cb == "recover":
                cur = ("value", "recovered")
    if cur[0] == "failure" and not full:
        return cur[:2]
    return cur


def live_val(v):
    if v == "<ANY>":
        from unittest import mock
        return mock.ANY
    if v == "<EXC>":
        return ValueError("just a value")
    if v == "<OBJ>":
        return Opaque()
    if isinstance(v, str) and v in TUPLES:
        return TUPLES[v]
    return v


def same_val(got, want):
    """Equality that is not fooled by objects that equal everything: the live value is rendered back into
    the spec's vocabulary (placeholders for mock.ANY and for the exception instance) and compared as data."""
    from unittest import mock

    def norm(x):
        if x is mock.ANY:
            return "<ANY>"
        if type(x) is ValueError and x.args == ("just a value",):
            return "<EXC>"
        if type(x) is Opaque:
            return "<OBJ>"
        if type(x) is tuple:
            return {(): "<TUPLE0>", (1, 2): "<TUPLE2>"}.get(x, x)
        if isinstance(x, list):
            return [norm(y) for y in x]
        return x
    return norm(got) == want


def add_cb(d, cb, log):
    """Attach one more callback / errback of the generated vocabulary."""
    make_deferred({"callbacks": [cb], "state": "nothing"}, log, d)


def make_deferred(spec, log, d=None, keep=None):
    """Build the Deferred of ``spec``.  ``keep`` (a list) receives the live object it is fired with: the
    value, or the exception instance of the failure."""
    from twisted.internet import defer
    d = defer.Deferred() if d is None else d
    keep = [] if keep is None else keep
    for cb in spec["callbacks"]:
        if cb == "pass":
            d.addCallback(lambda v: v)
        elif cb == "wrap":
            d.addCallback(lambda v: [v])
        elif cb == "to_none":
            d.addCallback(lambda v: None)
        elif cb == "log":
            d.addCallback(log.append)
        elif cb == "raise":
            def boom(v):
                raise RuntimeError("from-callback")
            d.addCallback(boom)
        elif cb == "recover":
            d.addErrback(lambda f: "recovered")
        elif cb == "pause":
            d.addCallback(lambda v: defer.Deferred())
    if spec["state"].startswith("paused"):
        d.pause()
    if spec["state"] in ("value", "paused-value"):
        keep.append(live_val(spec["value"]))
        d.callback(keep[0])
    elif spec["state"] in ("failure", "paused-failure"):
        from twisted.python.failure import Failure
        form = spec.get("fail_form", "live")
        keep.append(ML.EXC_CLASSES[spec["exc"]]("boom-" + spec["exc"]))
        if form == "instance":
            d.errback(Failure(keep[0]))
        else:
            try:
                raise keep[0]
            except BaseException:
                f = Failure()
            if form == "cleaned":
                f.cleanFailure()
            d.errback(f)
    return d


def result_is_fired_object(ds):
    """True when the model says that what the Deferred delivers now is the very object it was fired with."""
    if ds["state"] not in ("value", "failure"):
        return False
    mode = ds["state"]
    for cb in ds["callbacks"]:
        if mode == "value" and cb in ("wrap", "to_none", "log", "raise", "pause"):
            return False
        if mode == "failure" and cb == "recover":
            return False
    return True


def fresh(ds, kind):
    """-> (Deferred, the object it delivers now).  The object is the one the Deferred was fired with when the
    chain hands that through untouched (the Deferred is then exactly the generated one); otherwise it is learnt from
    a harness-owned pass-through callback pair appended to the chain (one more history of the quantifier)."""
    keep = []
    d = make_deferred(ds, [], keep=keep)
    if kind not in ("value", "failure"):
        return d, None
    if result_is_fired_object(ds):
        return d, keep[0]
    tap = []
    d.addCallbacks(lambda v: (tap.append(v), v)[1], lambda f: (tap.append(f.value), f)[1])
    return d, (tap[0] if tap else None)


_SIGNATURE = []


def unhandled_signature():
    """What this Twisted emits when a failed Deferred is dropped unhandled, learnt once by dropping one:
    a set of (namespace, format) pairs.  Empty on an interpreter that does not finalise promptly: the log clauses
    are then blind, never wrong."""
    if not _SIGNATURE:
        from twisted.internet import defer
        from twisted.logger import globalLogPublisher
        events = []
        obs = events.append
        # (keep the calibration event away from whoever else listens, e.g. Twisted's print-to-stderr fallback; if the
        # attribute is gone the only consequence is one message on stderr)
        others = list(getattr(globalLogPublisher, "_observers", ()))
        for o in others:
            globalLogPublisher.removeObserver(o)
        globalLogPublisher.addObserver(obs)
        try:
            gc.collect(1)
            del events[:]
            d = defer.fail(ValueError("calibration"))
            del d
            gc.collect(1)
        finally:
            globalLogPublisher.removeObserver(obs)
            for o in others:
                globalLogPublisher.addObserver(o)
        _SIGNATURE.append({(str(e.get("log_namespace")), str(e.get("log_format"))) for e in events
                           if e.get("isError") or e.get("log_failure") is not None})
    return _SIGNATURE[0]


class LogCapture:
    """Collect 'Unhandled error in Deferred' events from Twisted's global log publisher.  Only events that look
    like the ones this Twisted emits for a dropped failed Deferred are counted (see unhandled_signature): a
    diagnostic message logged by the code under test is not an unhandled error."""

    def __enter__(self):
        from twisted.logger import globalLogPublisher
        self.sig = unhandled_signature()
        self.events = []
        self._obs = self.events.append
        self._pub = globalLogPublisher
        globalLogPublisher.addObserver(self._obs)
        return self

    def __exit__(self, *a):
        self._pub.removeObserver(self._obs)

    def unhandled(self):
        out = []
        for e in self.events:
            if (e.get("isError") or e.get("log_failure") is not None) and \
                    (str(e.get("log_namespace")), str(e.get("log_format"))) in self.sig:
                out.append((str(e.get("log_format", "")) + str(e.get("log_failure", "")))[:80])
        return out


# failure-side inner matchers
FAIL_INNER = st.sampled_from([{"f": "Always"}, {"f": "Never"}, {"f": "type", "exc": "ValueError"}, {"f": "type", "exc": "RuntimeError"},
                              {"f": "type", "exc": "Exception"}, {"f": "msg", "re": "boom"}, {"f": "msg", "re": "^x"}])


def build_fail_inner(s):
    import testtools.matchers as tm
    if s["f"] == "Always":
        return tm.Always()
    if s["f"] == "Never":
        return tm.Never()
    if s["f"] == "type":
        return tm.AfterPreprocessing(lambda f: f.value, tm.IsInstance(ML.EXC_CLASSES[s["exc"]]))
    return tm.AfterPreprocessing(lambda f: str(f.value), tm.MatchesRegex(s["re"]))


def ref_fail_inner(s, exc_name):
    import re
    if s["f"] == "Always":
        return True
    if s["f"] == "Never":
        return False
    if s["f"] == "type":
        return issubclass(ML.EXC_CLASSES[exc_name], ML.EXC_CLASSES[s["exc"]])
    msg = "from-callback" if exc_name == "RuntimeError" and False else None
    return None  # computed by caller with the real message


@st.composite
def s_case(draw):
    dom = draw(st.sampled_from(["int", "str", "list"]))
    return {"deferred": draw(s_deferred()), "inner_domain": dom,
            "inner": draw(ML.tree(dom, draw(st.sampled_from([1, 0, 2])))),
            "fail_inner": draw(FAIL_INNER),
            "after": draw(st.sampled_from(["add_callback", "fire", "none", "add_callback", "errback"])),
            "then": draw(st.one_of(st.none(), CB))}       # a callback attached between two matches of the same Deferred


def _value_in_domain(v, dom):
    if isinstance(v, str) and v in PLACEHOLDERS:
        return False        # stand for mock.ANY / an exception instance / an opaque object / a tuple, which are in no matcher's domain
    return (dom == "int" and isinstance(v, int) and not isinstance(v, bool)) or (dom == "str" and isinstance(v, str)) or \
        (dom == "list" and isinstance(v, list) and all(isinstance(x, int) for x in v))


def _sibling_value(v):
    """Another value of the same inner-matcher domain."""
    if isinstance(v, int):
        return v + 1
    if isinstance(v, str):
        return v + "x"
    return list(v) + [7]


def check_now(d, model, tag, vs, obj=None, first="has_no_result"):
    """``d`` changed state after it was matched (it fired, failed or was resumed): the three matchers classify it as
    it is now, and later callbacks see what the model says (and, where ``obj`` is known, that very object)."""
    from testtools.twistedsupport import has_no_result, succeeded, failed
    import testtools.matchers as tm
    kind = model[0]
    got = {}
    seen, errs = [], []
    # which matcher looks first after the change is the caller's choice (whatever an earlier match left on the
    # Deferred is met by the first one); the observers go on before any of them (failed() consumes a failure)
    if first != "has_no_result":
        d.addCallbacks(lambda v: (seen.append(v), v)[1], lambda f: (errs.append(f), f)[1])
    for which in sorted(("has_no_result", "succeeded", "failed"), key=lambda w: w != first):
        if which == "has_no_result":
            got["has_no_result"] = has_no_result().match(d) is None
            if first == "has_no_result":
                d.addCallbacks(lambda v: (seen.append(v), v)[1], lambda f: (errs.append(f), f)[1])
        elif which == "succeeded":
            if kind != "failure":
                got["succeeded"] = succeeded(tm.Always()).match(d) is None      # (on a failure it would consume it)
        else:
            got["failed"] = failed(tm.Always()).match(d) is None
    want = {"has_no_result": kind == "none", "succeeded": kind == "value", "failed": kind == "failure"}
    want = {k: want[k] for k in got}
    if got != want:
        vs.append(V("classify", tag + "-rematch", "matched, then the Deferred changed state to %r, then matched again: %r, expected %r" % (model, got, want)))
    if kind == "value":
        if not (len(seen) == 1 and not errs and same_val(seen[0], model[1])):
            vs.append(V("intact", tag, "match-then-fire: callback saw %r (errbacks %r), expected %r" % (seen, errs, model[1])))
        elif obj is not None and seen[0] is not obj:
            vs.append(V("identity", tag, "match-then-fire: the callback saw an object equal to the result but not the result itself"))
    elif kind == "failure":
        if not (len(errs) == 1 and not seen and errs[0].check(ML.EXC_CLASSES[model[1]])):
            vs.append(V("intact", tag + "-then-failed", "match-then-errback: a later errback saw %r (callbacks saw %r), expected a %s failure" % (errs, seen, model[1])))
        elif obj is not None and errs[0].value is not obj:
            vs.append(V("identity", tag + "-then-failed", "match-then-errback: the errback saw another exception object than the one the Deferred failed with"))
    elif seen or errs:
        vs.append(V("passive", tag + "-fired", "a Deferred that delivers no result ran later callbacks: %r %r" % (seen, errs)))
    d.addErrback(lambda f: None)


def run_case(spec):
    from testtools.twistedsupport import has_no_result, succeeded, failed
    from testtools.twistedsupport._deferred import extract_result, DeferredNotFired
    from twisted.internet import defer
    import testtools.matchers as tm
    import re
    vs = []
    ds = spec["deferred"]
    state = model_chain(ds)
    kind = state[0]
    env = ML.Env(None)
    with LogCapture() as cap:
        # --- classification: exactly one of the three matches
        verdicts = {}
        for name, mk in (("has_no_result", has_no_result), ("succeeded", lambda: succeeded(tm.Always())), ("failed", lambda: failed(tm.Always()))):
            log = []
            d = make_deferred(ds, log)
            called = d.called
            try:
                mm = mk().match(d)
            except Exception as e:
                vs.append(V("classify", "%s-raises-%s" % (name, type(e).__name__), "%s().match raised %r on %r" % (name, e, ds)))
                continue
            verdicts[name] = mm is None
            if d.called != called:
                vs.append(V("passive", name + "-fired", "matching changed Deferred.called from %r to %r" % (called, d.called)))
            if mm is not None:
                try:
                    if not isinstance(mm.describe(), str) or not isinstance(mm.get_details(), dict):
                        vs.append(V("mismatch", name, "mismatch not describable"))
                except Exception as e:
                    vs.append(V("mismatch", "%s-describe-raises" % name, "describe raised %r" % (e,)))
            if kind == "failure" and name != "has_no_result":
                d.addErrback(lambda f: None)
            elif kind == "failure":
                d.addErrback(lambda f: None)       # consume, so that only the matchers under test can leak
        want = {"has_no_result": kind == "none", "succeeded": kind == "value", "failed": kind == "failure"}
        for name, w in want.items():
            if name in verdicts and verdicts[name] != w:
                vs.append(V("classify", "%s-on-%s" % (name, kind), "%s() %s a Deferred whose state is %r (spec %r)" % (
                    name, "matches" if verdicts[name] else "does not match", state, ds)))
        # --- succeeded(m) / failed(m) with inner matchers
        if kind == "value" and _value_in_domain(state[1], spec["inner_domain"]):
            try:
                w = ML.ref(spec["inner"], state[1], env)
                d = make_deferred(ds, [])
                got = succeeded(ML.build(spec["inner"], env)).match(d) is None
                if got != w:
                    vs.append(V("inner", "succeeded", "succeeded(%s) on value %r: %s, reference says %s" % (spec["inner"]["m"], state[1], got, w)))
                # one matcher object, two Deferreds: the verdict is about the Deferred at hand
                m = succeeded(ML.build(spec["inner"], env))
                try:
                    m.match(defer.succeed(_sibling_value(state[1])))
                except BaseException as e:
                    if isinstance(e, (MemoryError, RecursionError)):
                        raise
                got = m.match(make_deferred(ds, [])) is None
                if got != w:
                    vs.append(V("inner", "succeeded-reused", "succeeded(%s) applied to another Deferred first, then to one with value %r: %s, reference says %s" % (
                        spec["inner"]["m"], state[1], got, w)))
            except ML.Propagates:
                pass
        if kind == "value":
            # inner matchers that need no domain: the value may be None, a dict, mock.ANY, an opaque object ...
            d, obj = fresh(ds, kind)
            if succeeded(tm.Never()).match(d) is None:
                vs.append(V("inner", "succeeded-Never", "succeeded(Never()) matches a Deferred that fired with %r" % (state[1],)))
            if succeeded(tm.Is(obj)).match(d) is not None or succeeded(tm.Not(tm.Is(obj))).match(d) is None:
                vs.append(V("identity", "succeeded-inner", "the inner matcher of succeeded() was not given the result itself (result %r)" % (state[1],)))
            del d, obj
        d = make_deferred(ds, [])
        inner = build_fail_inner(spec["fail_inner"])
        got = failed(inner).match(d) is None
        if kind == "failure":
            exc_name = state[1]
            fi = spec["fail_inner"]
            if fi["f"] == "msg":
                msg = model_chain(ds, full=True)[2]
                if exc_name == "KeyError":
                    msg = repr(msg)
                w = re.match(fi["re"], msg) is not None
            else:
                w = ref_fail_inner(fi, exc_name)
            if got != w:
                vs.append(V("inner", "failed", "failed(%r) on failure %s: %s, reference says %s" % (fi, exc_name, got, w)))
            # one matcher object, two Deferreds
            m = failed(build_fail_inner(fi))
            sib = defer.fail((ValueError if exc_name == "RuntimeError" else RuntimeError)("x-sibling"))
            m.match(sib)
            sib.addErrback(lambda f: None)
            d2 = make_deferred(ds, [])
            got = m.match(d2) is None
            if got != w:
                vs.append(V("inner", "failed-reused", "failed(%r) applied to another failed Deferred first, then to failure %s: %s, reference says %s" % (fi, exc_name, got, w)))
            d2.addErrback(lambda f: None)
            del d2, sib
        elif got:
            vs.append(V("inner", "failed-on-" + kind, "failed(m) matched a Deferred in state %r" % (state,)))
        del d
        # --- extract_result
        d, obj = fresh(ds, kind)
        try:
            r = ("value", extract_result(d))
        except DeferredNotFired:
            r = ("none",)
        except BaseException as e:
            if isinstance(e, (MemoryError, RecursionError)):
                raise
            r = ("failure", type(e).__name__, e)
        ok_r = (r[0] == state[0]) and (same_val(r[1], state[1]) if r[0] == "value" else r[:2] == state)
        if not ok_r:
            vs.append(V("extract_result", "on-" + kind, "extract_result gave %r, state is %r" % (r[:2], state)))
        elif kind in ("value", "failure") and r[-1] is not obj:
            vs.append(V("identity", "extract_result-" + kind, "extract_result %s an object equal to, but not, the Deferred's %s (%r)" % (
                ("returned", "result", state[1]) if kind == "value" else ("raised", "exception", state[1]))))
        d.addErrback(lambda f: None)
        del d, obj, r
        # --- later callbacks see the original value
        for name, mk in (("has_no_result", has_no_result), ("succeeded", lambda: succeeded(tm.Always())), ("failed", lambda: failed(tm.Always()))):
            if kind == "value":
                d, obj = fresh(ds, kind)
                mk().match(d)
                seen = []
                d.addCallback(seen.append)
                if not (len(seen) == 1 and same_val(seen[0], state[1])):
                    vs.append(V("intact", name + "-value", "after %s().match a new callback saw %r, original result %r" % (name, seen, state[1])))
                elif seen[0] is not obj:
                    vs.append(V("identity", name + "-value", "after %s().match a new callback saw an object equal to the result (%r) but not the result itself" % (name, state[1])))
                del d, obj, seen
            elif kind == "none" and ds["state"] == "unfired" and spec["after"] != "none":
                # matched while unfired, then it fires / fails: the result still belongs to whoever handles it later
                d = make_deferred(ds, [])
                mk().match(d)
                grown = ds
                if spec.get("then") and spec["then"] != "pause":
                    # ... and the chain grows before it fires: what is matched afterwards is the end of the chain as it is then
                    add_cb(d, spec["then"], [])
                    grown = dict(ds, callbacks=list(ds["callbacks"]) + [spec["then"]])
                if spec["after"] == "errback":
                    fired = ML.EXC_CLASSES["ValueError"]("late failure")
                    after = dict(grown, state="failure", exc="ValueError")
                    d.errback(fired)
                else:
                    fired = live_val(ds["value"])
                    after = dict(grown, state="value")
                    d.callback(fired)
                check_now(d, model_chain(after), name + ("-unfired" if grown is ds else "-unfired-then-" + spec["then"]), vs,
                          fired if result_is_fired_object(after) else None, first=name)
                del d, fired
            elif kind == "none" and ds["state"].startswith("paused"):
                # matched while paused, then resumed
                keep = []
                d = make_deferred(ds, [], keep=keep)
                if d.paused:        # (a 'pause' callback in front leaves nothing to resume)
                    mk().match(d)
                    d.unpause()
                    after = dict(ds, state=ds["state"][len("paused-"):])
                    check_now(d, model_chain(after), name + "-paused-then-resumed", vs, keep[0] if result_is_fired_object(after) else None)
                else:
                    d.addErrback(lambda f: None)
                del d, keep
        # --- a passive probe leaves the Deferred as it was: has_no_result() first, then the matcher for its state
        d, obj = fresh(ds, kind) if kind == "value" else (make_deferred(ds, []), None)
        first = has_no_result().match(d) is None
        if first != (kind == "none"):
            vs.append(V("classify", "has_no_result-on-%s" % kind, "has_no_result() verdict %r on state %r" % (first, state)))
        if kind == "failure":
            if failed(tm.Always()).match(d) is not None:
                vs.append(V("intact", "has_no_result-consumed-failure", "after has_no_result() probed a failed Deferred, failed(Always()) no longer matches it"))
        elif kind == "value":
            again = succeeded(tm.Always()).match(d) is None and succeeded(tm.Always()).match(d) is None
            if spec.get("then"):
                # the chain grows between two matches: the matchers look at the Deferred as it is now
                add_cb(d, spec["then"], [])
                ds2 = dict(ds, callbacks=list(ds["callbacks"]) + [spec["then"]])
                state2 = model_chain(ds2)
                got2 = {"has_no_result": has_no_result().match(d) is None}
                got2["succeeded"] = succeeded(tm.Always()).match(d) is None if state2[0] != "failure" else False
                if state2[0] == "value" and _value_in_domain(state2[1], spec["inner_domain"]):
                    # ... and at its value as it is now
                    try:
                        w = ML.ref(spec["inner"], state2[1], env)
                        g = succeeded(ML.build(spec["inner"], env)).match(d) is None
                        if g != w:
                            vs.append(V("inner", "succeeded-second-match", "matched, then a %r callback was added (value now %r), then succeeded(%s): %s, reference says %s" % (
                                spec["then"], state2[1], spec["inner"]["m"], g, w)))
                    except ML.Propagates:
                        pass
                    except Exception as e:
                        vs.append(V("inner", "succeeded-second-match-raises", "matched, then a %r callback was added (value now %r), then succeeded(%s) raised %r" % (
                            spec["then"], state2[1], spec["inner"]["m"], e)))
                got2["failed"] = failed(tm.Always()).match(d) is None
                want2 = {"has_no_result": state2[0] == "none", "succeeded": state2[0] == "value", "failed": state2[0] == "failure"}
                if got2 != want2:
                    vs.append(V("classify", "second-match-after-%s" % spec["then"], "matched, then a %r callback was added (state now %r), then matched again: %r, expected %r" % (
                        spec["then"], state2, got2, want2)))
                state_now = state2
                if spec["then"] not in ("pass", "recover"):
                    obj = None
            else:
                state_now = state
            seen = []
            d.addCallback(seen.append)
            if state_now[0] == "value" and (not again or not (len(seen) == 1 and same_val(seen[0], state_now[1]))):
                vs.append(V("intact", "probe-then-succeeded", "after has_no_result() and succeeded() twice: matches=%r, later callback saw %r, original %r" % (again, seen, state_now[1])))
            elif state_now[0] == "value" and obj is not None and seen[0] is not obj:
                vs.append(V("identity", "probe-then-succeeded", "after has_no_result() and succeeded() twice a later callback saw an object equal to the result (%r) but not the result itself" % (state_now[1],)))
            del seen
        elif ds["state"] == "unfired":
            seen, errs = [], []
            d.addCallbacks(seen.append, errs.append)
            if seen or errs or d.called:
                vs.append(V("passive", "probe-fired", "probing an unfired Deferred fired it"))
        d.addErrback(lambda f: None)
        del d, obj
        # --- inspected failures are marked handled
        if kind == "failure":
            # (inner matchers that return a verdict, as Matcher.match is documented to: what becomes of the failure when
            # the inner matcher raises out of failed().match() - the test errors anyway - is not constrained)
            probes = (("succeeded", lambda d: succeeded(tm.Always()).match(d)), ("failed", lambda d: failed(tm.Never()).match(d)),
                      ("failed-matching", lambda d: failed(tm.Always()).match(d)))
            gc.collect(1)
            n0 = len(cap.unhandled())
            for name, probe in probes:
                d = make_deferred(ds, [])
                probe(d)
                del d
            gc.collect(1)
            if len(cap.unhandled()) != n0:       # somebody leaked: find out who
                for name, probe in probes:
                    n1 = len(cap.unhandled())
                    d = make_deferred(ds, [])
                    probe(d)
                    del d
                    gc.collect(1)
                    if len(cap.unhandled()) != n1:
                        vs.append(V("handled", name, "failure inspected by %s was logged as unhandled: %r (failure %s)" % (name, cap.unhandled()[n1:], state[1])))
        gc.collect(1)
    nt = bool(ds["callbacks"]) or (ds["state"] == "unfired" and spec["after"] != "none") or ML.depth_of(spec["inner"]) >= 1
    return Case(vs, nt, ["state=" + kind, "callbacks=%d" % len(ds["callbacks"]), "raw=" + ds["state"],
                         "failure-" + ds.get("fail_form", "live") if kind == "failure" else "",
                         "value-is-an-exception" if kind == "value" and state[1] == "<EXC>" else "",
                         "value-is-opaque" if kind == "value" and state[1] == "<OBJ>" else "",
                         "matched-then-" + spec["after"] if ds["state"] == "unfired" and spec["after"] in ("fire", "add_callback", "errback") else "",
                         "" if cap.sig else "log-clauses-blind"], {"state": list(state)})


# ---------------------------------------------------------------- SynchronousDeferredRunTest differential
STAGE = st.sampled_from([["ok"], ["ok"], ["fail"], ["error"], ["skip"], ["value"], ["xfail"]])
PROGRAM = st.fixed_dictionaries({"setUp": STAGE, "test": STAGE, "tearDown": STAGE, "cleanup": STAGE})


STAGES = ("setUp", "test", "tearDown", "cleanup")


def run_program_pair(spec):
    import testtools
    from testtools.twistedsupport import SynchronousDeferredRunTest
    from twisted.internet import defer
    vs = []
    # stages that return / raise directly even under the Deferred runner (a test method that fails an assertion
    # before it gets to 'return d' is a test returning fired Deferreds from its other stages)
    direct = set(spec.get("direct", ()))

    def act(case, what, deferred_mode, marker):
        kind = what[0]
        deferred_mode = deferred_mode and marker not in direct
        if kind == "ok":
            return defer.succeed(None) if deferred_mode else None
        if kind == "value":
            return defer.succeed(marker) if deferred_mode else marker
        from testtools.twistedsupport._deferred import DeferredNotFired
        from vp.programs import FalsyError
        exc = {"fail": lambda: case.failureException("MARK-" + marker), "error": lambda: RuntimeError("MARK-" + marker),
               "notfired": lambda: DeferredNotFired("MARK-" + marker), "error_falsy": lambda: FalsyError("MARK-" + marker),
               "kbd": lambda: KeyboardInterrupt("MARK-" + marker), "sysexit": lambda: SystemExit("MARK-" + marker),
               "skip": lambda: case.skipException("MARK-" + marker),
               "xfail": lambda: testtools.testcase._ExpectedFailure((RuntimeError, RuntimeError("MARK-" + marker), None))}[kind]()
        if deferred_mode:
            try:
                raise exc
            except BaseException:
                return defer.fail()
        raise exc

    def make(deferred_mode):
        log = []

        class T(testtools.TestCase):
            if deferred_mode:
                run_tests_with = SynchronousDeferredRunTest

            def setUp(self):
                super().setUp()
                log.append("setUp")
                self.addCleanup(lambda: log.append("first-registered cleanup"))
                # a cleanup that takes positional and keyword arguments
                self.addCleanup(lambda what, marker="?", fn=None, f=None: (log.append("cleanup"), act(self, what, deferred_mode, marker))[1],
                                spec["cleanup"], marker="cleanup", fn="a keyword name the plumbing uses itself",
                                f="the name of maybeDeferred's own first parameter")
                return act(self, spec["setUp"], deferred_mode, "setUp")

            def test_it(self):
                log.append("test")
                return act(self, spec["test"], deferred_mode, "test")

            def tearDown(self):
                log.append("tearDown")
                r = act(self, spec["tearDown"], deferred_mode, "tearDown")
                super().tearDown()
                return r
        res = Ext()
        left = None
        try:
            T("test_it").run(res)
        except BaseException as e:
            if isinstance(e, (MemoryError, RecursionError)):
                raise
            left = type(e).__name__
        log.append(("run() raised", left))
        # per outcome: its name and, for every detail that carries a stage's marker, what it is called and which
        # markers it carries (a runner is free to attach further details of its own, say a log or its own rendering
        # of the Failure - see compare_outcomes)
        marks = ("MARK-setUp", "MARK-test", "MARK-tearDown", "MARK-cleanup")
        outs = []
        for e in res.events:
            if e[0].startswith("add"):
                carried = {}
                for k, d in (e[2].get("details") or {}).items():
                    if isinstance(d[2], bytes):
                        ms = sorted(m for m in marks if m.encode() in d[2])
                        if ms:
                            carried[k] = ms
                outs.append((e[0], carried))
        del res
        return log, outs

    def flat(outs, only=None):
        """-> [(outcome, markers carried, names of the details that carry one)], optionally looking only at the
        details called as in ``only`` (one collection of names per outcome)."""
        return [(name, sorted({m for k, ms in carried.items() if only is None or k in only[i] for m in ms}),
                 sorted(k for k in carried if only is None or k in only[i]))
                for i, (name, carried) in enumerate(outs)]

    def unhandled_after(deferred_mode):
        """Run one arm; -> (log, outcomes, number of 'Unhandled error in Deferred' events by the time its garbage is gone)."""
        gc.collect(1)
        n0 = len(cap.unhandled())
        log, outs = make(deferred_mode)
        gc.collect(1)
        return log, outs, len(cap.unhandled()) - n0
    with LogCapture() as cap:
        a_log, a_raw, a_unh = unhandled_after(False)
        b_log, b_raw, b_unh = unhandled_after(True)
        if b_unh != a_unh and unhandled_after(True)[2] == b_unh:      # (reproducibly, so that nobody else's garbage is blamed on this program)
            vs.append(V("sync-runner", "unhandled-error-logged", "a stage's fired Deferred was left with an unhandled failure: %d 'Unhandled error in Deferred' event(s) "
                        "after the run with Deferreds, %d after returning/raising directly: %r" % (b_unh, a_unh, cap.unhandled()[-2:])))
    if a_log != b_log:
        vs.append(V("sync-runner", "stage-order", "stages ran %r with Deferreds, %r directly" % (b_log, a_log)))
    # what the direct report says must be in the Deferred report: the same outcomes, every stage marker of the direct
    # report, in details of the same names.  Details that only the Deferred report has are the runner's own business
    # (even when they quote the stage's exception, as a rendering of the Failure does): the Deferred report is
    # compared through the details the direct report has.
    a_out, b_all = flat(a_raw), flat(b_raw)
    same_outcomes = [o[0] for o in a_out] == [o[0] for o in b_all]
    b_out = flat(b_raw, [o[2] for o in a_out]) if same_outcomes else b_all
    if not same_outcomes or any(not set(a[1]) <= set(b[1]) for a, b in zip(a_out, b_all)):
        vs.append(V("sync-runner", "outcome", "returning fired Deferreds gave %r, returning/raising directly gave %r" % (b_all, a_out)))
    elif [o[2] for o in a_out] != [o[2] for o in b_out]:
        vs.append(V("sync-runner", "detail-names", "returning fired Deferreds gave details named %r, returning/raising directly %r" % (
            [o[2] for o in b_all], [o[2] for o in a_out])))
    elif a_out != b_out:
        vs.append(V("sync-runner", "outcome", "returning fired Deferreds gave %r, returning/raising directly gave %r (in the details both reports have)" % (b_all, a_out)))
    nt = sum(1 for k in STAGES if spec[k][0] not in ("ok",)) >= 1
    return Case(vs, nt, ["faulty-stages=%d" % sum(1 for k in STAGES if spec[k][0] not in ("ok", "value")),
                         "direct-stages=%d" % len(direct) if direct else "",
                         "" if cap.sig else "log-clauses-blind"], {"outcome": a_out})


def _enum_programs():
    import itertools
    kinds = [["ok"], ["fail"], ["error"], ["skip"], ["value"], ["xfail"], ["notfired"], ["error_falsy"]]
    for a, b, c, d in itertools.product(kinds, repeat=4):
        yield {"setUp": a, "test": b, "tearDown": c, "cleanup": d}
    # an interrupt (not an Exception) in one stage, every other stage ranging over the ordinary behaviours
    few = [["ok"], ["fail"], ["error"], ["skip"]]
    for nonexc in (["kbd"], ["sysexit"]):
        for pos in range(4):
            for rest in itertools.product(few, repeat=3):
                stages = list(rest[:pos]) + [nonexc] + list(rest[pos:])
                yield dict(zip(STAGES, stages))
    # mixed programs: some stages return fired Deferreds, the others return / raise directly under the same
    # (Deferred) runner; every program with at most two stages that are not plain 'ok'
    allk = kinds + [["kbd"], ["sysexit"]]
    for mask in (["test"], ["cleanup", "setUp"], ["tearDown"], sorted(STAGES)):
        for n_faulty in (0, 1, 2):
            for where in itertools.combinations(range(4), n_faulty):
                for what in itertools.product(allk[1:], repeat=n_faulty):
                    stages = [["ok"]] * 4
                    for i, w in zip(where, what):
                        stages[i] = w
                    yield dict(zip(STAGES, stages), direct=list(mask))


GRID_VALUES = [None, 0, 1, "", "ab", [], [0, 1], {"nested": [None, 0]}, "<ANY>", "<EXC>", "<OBJ>", "<TUPLE0>", "<TUPLE2>"]
GRID_CHAINS = [[], ["pass"], ["wrap"], ["to_none"], ["raise"], ["recover"], ["log"], ["pause"], ["raise", "recover"], ["pass", "wrap"]]
GRID_FAIL_INNER = [{"f": "Always"}, {"f": "Never"}, {"f": "type", "exc": "ValueError"}, {"f": "type", "exc": "RuntimeError"},
                   {"f": "type", "exc": "Exception"}, {"f": "msg", "re": "boom"}, {"f": "msg", "re": "^x"}]


def _enum_states():
    """A small complete grid under the random histories, so that what a clause catches does not depend on the seed:
    every raw state x every kind of value / exception / failure form x every single callback (and two pairs) x the
    match-then-fire / -fail / second-match histories."""
    n = [0, 0]

    def case(deferred, then=None, after="none", force=None):
        n[0] += 1
        deferred = dict({"fail_form": "live", "exc": "ValueError", "value": None}, **deferred)
        # the inner matcher's domain follows the value the Deferred delivers (every other time: the value it
        # delivers after the 'then' callback, so that the second match meets an inner matcher that can tell)
        n[1] += 1 if then else 0
        m = model_chain(dict(deferred, callbacks=deferred["callbacks"] + [then]) if then and n[1] % 2 else deferred)
        v = m[1] if m[0] == "value" else deferred["value"]
        if isinstance(v, list):
            dom, inner = "list", [ML.M("Equals", "list", l=[0, 1]), ML.M("Equals", "list", l=[1]), ML.M("HasLength", "list", n=1), ML.M("Equals", "list", l=[0])][n[0] // 2 % 4]
        elif isinstance(v, str) and v not in PLACEHOLDERS:
            dom, inner = "str", [ML.M("Equals", "str", s="ab"), ML.M("StartsWith", "str", s="x")][n[0] // 2 % 2]
        else:
            dom, inner = "int", [ML.M("Equals", "int", k=1), ML.M("LessThan", "int", k=1), ML.M("IsNone", "int")][n[0] // 2 % 3]
        if force:
            dom, inner = force
        return {"deferred": deferred, "inner_domain": dom, "inner": inner,
                "fail_inner": GRID_FAIL_INNER[n[0] % len(GRID_FAIL_INNER)], "after": after, "then": then}
    # the value changes between two matches: every list-domain leaf that tells v from [v]
    for chain in ([], ["pass"]):
        for v in (0, 1):
            for inner in (ML.M("Equals", "list", l=[1]), ML.M("Equals", "list", l=[0]), ML.M("HasLength", "list", n=1), ML.M("Contains", "list", k=1)):
                yield case({"state": "value", "value": v, "callbacks": chain}, then="wrap", force=("list", inner))
    for chain in GRID_CHAINS:
        for v in GRID_VALUES:
            for then in (None, "wrap", "pause", "raise"):
                yield case({"state": "value", "value": v, "callbacks": chain}, then=then)
        for exc in ("ValueError", "RuntimeError", "KeyError", "CustomError", "KeyboardInterrupt", "CustomBase"):
            for form in ("live", "cleaned", "instance"):
                for k in (0, 1):        # (two of the failure-side inner matchers each)
                    yield case({"state": "failure", "exc": exc, "fail_form": form, "value": None, "callbacks": chain})
        for v in (None, 1, "<OBJ>", "<TUPLE2>"):
            for after in ("fire", "errback", "none"):
                yield case({"state": "unfired", "value": v, "callbacks": chain}, after=after)
            yield case({"state": "paused-value", "value": v, "callbacks": chain})
        for exc in ("ValueError", "KeyboardInterrupt"):
            yield case({"state": "paused-failure", "exc": exc, "callbacks": chain})


def subchecks(tier):
    q = tier == "quick"
    return [
        Sub("deferred_states", run_case, s_case(), 4000 if q else 200000),
        Sub("deferred_states_grid", run_case, enum=_enum_states, enum_complete=True,
            note="raw state x value / exception / failure form x single callbacks and two pairs x after-match history"),
        Sub("sync_runner_differential", run_program_pair, enum=_enum_programs, enum_complete=True,
            note="all 8^4 assignments of {ok, fail, error, skip, value, xfail, DeferredNotFired, falsy error} to setUp/test/tearDown/cleanup; "
                 "an interrupt in one stage; mixed programs (<= 2 faulty stages) where some stages return / raise directly"),
    ]
