"""C20 - Deferred matchers classify fired/failed/unfired without firing anything."""
import gc

from hypothesis import strategies as st

from vp.core import Case, Sub, V
from vp import matchers as ML
from vp.results import Ext

PROPERTY = "C20"
RULE = ("Hypothesis-generated Deferred histories: a Deferred with 0..3 callbacks/errbacks attached (pass-through, "
        "transforming, to-None, raising, recovering, or returning an unfired Deferred), fired with a value (incl. mock.ANY and an "
        "exception instance used as a value) / a failure (caught live, cleaned with cleanFailure(), or built from an "
        "instance) / not fired, matched by has_no_result / succeeded(m) / failed(m) with inner matchers from the C06 "
        "language, then (for the history generator) fired or given further callbacks after matching; oracle = a "
        "model of the callback chain plus the reference predicates. Second generator: test programs whose stages "
        "return already-fired Deferreds under SynchronousDeferredRunTest vs. the same program returning/raising "
        "directly under RunTest (differential). Also: a callback attached between two matches of one Deferred, an errback after a match, cleanups with positional and keyword arguments and KeyboardInterrupt / SystemExit / DeferredNotFired / falsy errors as stages of the runner differential (including what run() raises). "
        "Non-trivial: callbacks attached before matching, or a "
        "match-then-fire history, or a nested inner matcher; distinct = distinct canonical spec.")
ASSUMPTIONS = [
    "a Deferred whose chain is paused on an unfired inner Deferred has no result yet and is classified as such",
    "has_no_result() on a failed Deferred is not required to mark the failure handled",
    "each of the three matchers is applied to its own structurally equal Deferred (inspecting a failure with "
    "succeeded()/failed() consumes it by design)",
]

VAL = st.one_of(st.none(), st.integers(0, 3), st.sampled_from(["", "ab", "a b"]), st.lists(st.integers(0, 2), max_size=3),
                st.just({"nested": [None, 0]}), st.just("<ANY>"),       # "<ANY>" stands for unittest.mock.ANY (equal to everything)
                st.just("<EXC>"))                                       # "<EXC>" stands for an exception instance used as a plain value
CB = st.sampled_from(["pass", "wrap", "to_none", "raise", "recover", "log", "pause"])
EXC = st.sampled_from(["ValueError", "RuntimeError", "KeyError", "CustomError", "KeyboardInterrupt", "CustomBase"])


@st.composite
def s_deferred(draw):
    return {"state": draw(st.sampled_from(["value", "failure", "unfired", "value", "failure", "paused-value", "paused-failure"])),
            "value": draw(VAL), "exc": draw(EXC), "callbacks": draw(st.lists(CB, max_size=3)),
            # how the Failure came about: caught live, cleaned (cleanFailure(), as after pickling), or built from an instance
            "fail_form": draw(st.sampled_from(["live", "live", "cleaned", "instance"]))}


def model_chain(spec, full=False):
    """-> ("none",) | ("value", v) | ("failure", exc_name) [+ message when full]"""
    if spec["state"] == "unfired" or spec["state"].startswith("paused"):
        return ("none",)        # a paused Deferred holds a result it is not delivering: it has no result yet
    cur = ("value", spec["value"]) if spec["state"] == "value" else ("failure", spec["exc"], "boom-" + spec["exc"])
    for cb in spec["callbacks"]:
        if cur[0] == "value":
            if cb == "wrap":
                cur = ("value", [cur[1]])
            elif cb in ("to_none", "log"):
                cur = ("value", None)
            elif cb == "raise":
                cur = ("failure", "RuntimeError", "from-callback")
            elif cb == "pause":
                return ("none",)
        else:
            if cb == "recover":
                cur = ("value", "recovered")
    if cur[0] == "failure" and not full:
        return cur[:2]
    return cur


def live_val(v):
    if v == "<ANY>":
        from unittest import mock
        return mock.ANY
    if v == "<EXC>":
        return ValueError("just a value")
    return v


def same_val(got, want):
    """Equality that is not fooled by objects that equal everything: the live value is rendered back into
    the spec's vocabulary (placeholders for mock.ANY and for the exception instance) and compared as data."""
    from unittest import mock

    def norm(x):
        if x is mock.ANY:
            return "<ANY>"
        if type(x) is ValueError and x.args == ("just a value",):
            return "<EXC>"
        if isinstance(x, list):
            return [norm(y) for y in x]
        return x
    return norm(got) == want


def add_cb(d, cb, log):
    """Attach one more callback / errback of the generated vocabulary."""
    make_deferred({"callbacks": [cb], "state": "nothing"}, log, d)


def make_deferred(spec, log, d=None):
    from twisted.internet import defer
    d = defer.Deferred() if d is None else d
    for cb in spec["callbacks"]:
        if cb == "pass":
            d.addCallback(lambda v: v)
        elif cb == "wrap":
            d.addCallback(lambda v: [v])
        elif cb == "to_none":
            d.addCallback(lambda v: None)
        elif cb == "log":
            d.addCallback(log.append)
        elif cb == "raise":
            def boom(v):
                raise RuntimeError("from-callback")
            d.addCallback(boom)
        elif cb == "recover":
            d.addErrback(lambda f: "recovered")
        elif cb == "pause":
            d.addCallback(lambda v: defer.Deferred())
    if spec["state"].startswith("paused"):
        d.pause()
    if spec["state"] in ("value", "paused-value"):
        d.callback(live_val(spec["value"]))
    elif spec["state"] in ("failure", "paused-failure"):
        from twisted.python.failure import Failure
        form = spec.get("fail_form", "live")
        if form == "instance":
            d.errback(Failure(ML.EXC_CLASSES[spec["exc"]]("boom-" + spec["exc"])))
        else:
            try:
                raise ML.EXC_CLASSES[spec["exc"]]("boom-" + spec["exc"])
            except BaseException:
                f = Failure()
            if form == "cleaned":
                f.cleanFailure()
            d.errback(f)
    return d


class LogCapture:
    """Collect 'Unhandled error in Deferred' events from Twisted's global log publisher."""

    def __enter__(self):
        from twisted.logger import globalLogPublisher
        self.events = []
        self._obs = self.events.append
        self._pub = globalLogPublisher
        globalLogPublisher.addObserver(self._obs)
        return self

    def __exit__(self, *a):
        self._pub.removeObserver(self._obs)

    def unhandled(self):
        out = []
        for e in self.events:
            txt = str(e.get("log_format", "")) + str(e.get("why", ""))
            if "Unhandled" in txt or e.get("isError") or e.get("log_failure") is not None:
                out.append(txt[:80])
        return out


# failure-side inner matchers
FAIL_INNER = st.sampled_from([{"f": "Always"}, {"f": "Never"}, {"f": "type", "exc": "ValueError"}, {"f": "type", "exc": "RuntimeError"},
                              {"f": "type", "exc": "Exception"}, {"f": "msg", "re": "boom"}, {"f": "msg", "re": "^x"}])


def build_fail_inner(s):
    import testtools.matchers as tm
    if s["f"] == "Always":
        return tm.Always()
    if s["f"] == "Never":
        return tm.Never()
    if s["f"] == "type":
        return tm.AfterPreprocessing(lambda f: f.value, tm.IsInstance(ML.EXC_CLASSES[s["exc"]]))
    return tm.AfterPreprocessing(lambda f: str(f.value), tm.MatchesRegex(s["re"]))


def ref_fail_inner(s, exc_name):
    import re
    if s["f"] == "Always":
        return True
    if s["f"] == "Never":
        return False
    if s["f"] == "type":
        return issubclass(ML.EXC_CLASSES[exc_name], ML.EXC_CLASSES[s["exc"]])
    msg = "from-callback" if exc_name == "RuntimeError" and False else None
    return None  # computed by caller with the real message


@st.composite
def s_case(draw):
    dom = draw(st.sampled_from(["int", "str", "list"]))
    return {"deferred": draw(s_deferred()), "inner_domain": dom,
            "inner": draw(ML.tree(dom, draw(st.sampled_from([1, 0, 2])))),
            "fail_inner": draw(FAIL_INNER),
            "after": draw(st.sampled_from(["add_callback", "fire", "none", "add_callback", "errback"])),
            "then": draw(st.one_of(st.none(), CB))}       # a callback attached between two matches of the same Deferred


def _value_in_domain(v, dom):
    if v in ("<ANY>", "<EXC>"):
        return False        # stand for mock.ANY / an exception instance, which are in no matcher's domain
    return (dom == "int" and isinstance(v, int) and not isinstance(v, bool)) or (dom == "str" and isinstance(v, str)) or \
        (dom == "list" and isinstance(v, list) and all(isinstance(x, int) for x in v))


def run_case(spec):
    from testtools.twistedsupport import has_no_result, succeeded, failed
    from testtools.twistedsupport._deferred import extract_result, DeferredNotFired
    import testtools.matchers as tm
    import re
    vs = []
    ds = spec["deferred"]
    state = model_chain(ds)
    kind = state[0]
    env = ML.Env(None)
    with LogCapture() as cap:
        # --- classification: exactly one of the three matches
        verdicts = {}
        for name, mk in (("has_no_result", has_no_result), ("succeeded", lambda: succeeded(tm.Always())), ("failed", lambda: failed(tm.Always()))):
            log = []
            d = make_deferred(ds, log)
            called = d.called
            try:
                mm = mk().match(d)
            except Exception as e:
                vs.append(V("classify", "%s-raises-%s" % (name, type(e).__name__), "%s().match raised %r on %r" % (name, e, ds)))
                continue
            verdicts[name] = mm is None
            if d.called != called:
                vs.append(V("passive", name + "-fired", "matching changed Deferred.called from %r to %r" % (called, d.called)))
            if mm is not None:
                try:
                    if not isinstance(mm.describe(), str) or not isinstance(mm.get_details(), dict):
                        vs.append(V("mismatch", name, "mismatch not describable"))
                except Exception as e:
                    vs.append(V("mismatch", "%s-describe-raises" % name, "describe raised %r" % (e,)))
            if kind == "failure" and name != "has_no_result":
                d.addErrback(lambda f: None)
            elif kind == "failure":
                d.addErrback(lambda f: None)       # consume, so that only the matchers under test can leak
        want = {"has_no_result": kind == "none", "succeeded": kind == "value", "failed": kind == "failure"}
        for name, w in want.items():
            if name in verdicts and verdicts[name] != w:
                vs.append(V("classify", "%s-on-%s" % (name, kind), "%s() %s a Deferred whose state is %r (spec %r)" % (
                    name, "matches" if verdicts[name] else "does not match", state, ds)))
        # --- succeeded(m) / failed(m) with inner matchers
        if kind == "value" and _value_in_domain(state[1], spec["inner_domain"]):
            try:
                w = ML.ref(spec["inner"], state[1], env)
                d = make_deferred(ds, [])
                got = succeeded(ML.build(spec["inner"], env)).match(d) is None
                if got != w:
                    vs.append(V("inner", "succeeded", "succeeded(%s) on value %r: %s, reference says %s" % (spec["inner"]["m"], state[1], got, w)))
            except ML.Propagates:
                pass
        d = make_deferred(ds, [])
        inner = build_fail_inner(spec["fail_inner"])
        got = failed(inner).match(d) is None
        if kind == "failure":
            exc_name = state[1]
            fi = spec["fail_inner"]
            if fi["f"] == "msg":
                msg = model_chain(ds, full=True)[2]
                if exc_name == "KeyError":
                    msg = repr(msg)
                w = re.match(fi["re"], msg) is not None
            else:
                w = ref_fail_inner(fi, exc_name)
            if got != w:
                vs.append(V("inner", "failed", "failed(%r) on failure %s: %s, reference says %s" % (fi, exc_name, got, w)))
        elif got:
            vs.append(V("inner", "failed-on-" + kind, "failed(m) matched a Deferred in state %r" % (state,)))
        del d
        # --- extract_result
        d = make_deferred(ds, [])
        try:
            r = ("value", extract_result(d))
        except DeferredNotFired:
            r = ("none",)
        except BaseException as e:
            if isinstance(e, (MemoryError, RecursionError)):
                raise
            r = ("failure", type(e).__name__)
        ok_r = (r[0] == state[0]) and (same_val(r[1], state[1]) if r[0] == "value" else r == state)
        if not ok_r:
            vs.append(V("extract_result", "on-" + kind, "extract_result gave %r, state is %r" % (r, state)))
        d.addErrback(lambda f: None)
        del d
        # --- later callbacks see the original value
        if kind in ("none", "value"):
            for name, mk in (("has_no_result", has_no_result), ("succeeded", lambda: succeeded(tm.Always())), ("failed", lambda: failed(tm.Always()))):
                d = make_deferred(ds, [])
                mk().match(d)
                seen = []
                if kind == "value":
                    d.addCallback(seen.append)
                    if not (len(seen) == 1 and same_val(seen[0], state[1])):
                        vs.append(V("intact", name + "-value", "after %s().match a new callback saw %r, original result %r" % (name, seen, state[1])))
                elif ds["state"] == "unfired" and spec["after"] == "errback":
                    # matched while unfired, then it fails: the failure still belongs to whoever handles it later
                    errs = []
                    d.addCallbacks(seen.append, errs.append)
                    d.errback(ML.EXC_CLASSES["ValueError"]("late failure"))
                    after_model = model_chain(dict(ds, state="failure", exc="ValueError"))
                    if after_model[0] == "failure" and not (len(errs) == 1 and not seen and errs[0].check(ML.EXC_CLASSES[after_model[1]])):
                        vs.append(V("intact", name + "-unfired-then-failed", "match-then-errback: a later errback saw %r (callbacks saw %r), expected a %s failure" % (errs, seen, after_model[1])))
                    d.addErrback(lambda f: None)
                elif ds["state"] == "unfired" and spec["after"] in ("fire", "add_callback"):
                    d.addCallback(seen.append)
                    d.callback(live_val(spec["deferred"]["value"]))
                    after_model = model_chain(dict(ds, state="value"))
                    if after_model[0] == "value" and not (len(seen) == 1 and same_val(seen[0], after_model[1])):
                        vs.append(V("intact", name + "-unfired", "match-then-fire: callback saw %r, expected %r" % (seen, after_model[1])))
                    d.addErrback(lambda f: None)
        # --- a passive probe leaves the Deferred as it was: has_no_result() first, then the matcher for its state
        d = make_deferred(ds, [])
        first = has_no_result().match(d) is None
        if first != (kind == "none"):
            vs.append(V("classify", "has_no_result-on-%s" % kind, "has_no_result() verdict %r on state %r" % (first, state)))
        if kind == "failure":
            if failed(tm.Always()).match(d) is not None:
                vs.append(V("intact", "has_no_result-consumed-failure", "after has_no_result() probed a failed Deferred, failed(Always()) no longer matches it"))
        elif kind == "value":
            again = succeeded(tm.Always()).match(d) is None and succeeded(tm.Always()).match(d) is None
            if spec.get("then"):
                # the chain grows between two matches: the matchers look at the Deferred as it is now
                add_cb(d, spec["then"], [])
                state2 = model_chain(dict(ds, callbacks=list(ds["callbacks"]) + [spec["then"]]))
                got2 = {"has_no_result": has_no_result().match(d) is None}
                got2["succeeded"] = succeeded(tm.Always()).match(d) is None if state2[0] != "failure" else False
                got2["failed"] = failed(tm.Always()).match(d) is None
                want2 = {"has_no_result": state2[0] == "none", "succeeded": state2[0] == "value", "failed": state2[0] == "failure"}
                if got2 != want2:
                    vs.append(V("classify", "second-match-after-%s" % spec["then"], "matched, then a %r callback was added (state now %r), then matched again: %r, expected %r" % (
                        spec["then"], state2, got2, want2)))
                state_now = state2
            else:
                state_now = state
            seen = []
            d.addCallback(seen.append)
            if state_now[0] == "value" and (not again or not (len(seen) == 1 and same_val(seen[0], state_now[1]))):
                vs.append(V("intact", "probe-then-succeeded", "after has_no_result() and succeeded() twice: matches=%r, later callback saw %r, original %r" % (again, seen, state_now[1])))
        elif ds["state"] == "unfired":
            seen, errs = [], []
            d.addCallbacks(seen.append, errs.append)
            if seen or errs or d.called:
                vs.append(V("passive", "probe-fired", "probing an unfired Deferred fired it"))
        d.addErrback(lambda f: None)
        del d
        # --- inspected failures are marked handled
        if kind == "failure":
            probes = (("succeeded", lambda: succeeded(tm.Always())), ("failed", lambda: failed(tm.Never())), ("failed-matching", lambda: failed(tm.Always())))
            gc.collect(1)
            n0 = len(cap.unhandled())
            for name, mk in probes:
                d = make_deferred(ds, [])
                mk().match(d)
                del d
            gc.collect(1)
            if len(cap.unhandled()) != n0:       # somebody leaked: find out who
                for name, mk in probes:
                    n1 = len(cap.unhandled())
                    d = make_deferred(ds, [])
                    mk().match(d)
                    del d
                    gc.collect(1)
                    if len(cap.unhandled()) != n1:
                        vs.append(V("handled", name, "failure inspected by %s was logged as unhandled: %r (failure %s)" % (name, cap.unhandled()[n1:], state[1])))
        gc.collect(1)
    nt = bool(ds["callbacks"]) or (ds["state"] == "unfired" and spec["after"] != "none") or ML.depth_of(spec["inner"]) >= 1
    return Case(vs, nt, ["state=" + kind, "callbacks=%d" % len(ds["callbacks"]), "raw=" + ds["state"],
                         "failure-" + ds.get("fail_form", "live") if kind == "failure" else "",
                         "value-is-an-exception" if kind == "value" and state[1] == "<EXC>" else ""], {"state": list(state)})


# ---------------------------------------------------------------- SynchronousDeferredRunTest differential
STAGE = st.sampled_from([["ok"], ["ok"], ["fail"], ["error"], ["skip"], ["value"], ["xfail"]])
PROGRAM = st.fixed_dictionaries({"setUp": STAGE, "test": STAGE, "tearDown": STAGE, "cleanup": STAGE})


def run_program_pair(spec):
    import testtools
    from testtools.twistedsupport import SynchronousDeferredRunTest
    from twisted.internet import defer
    vs = []

    def act(case, what, deferred_mode, marker):
        kind = what[0]
        if kind == "ok":
            return defer.succeed(None) if deferred_mode else None
        if kind == "value":
            return defer.succeed(marker) if deferred_mode else marker
        from testtools.twistedsupport._deferred import DeferredNotFired
        from vp.programs import FalsyError
        exc = {"fail": lambda: case.failureException("MARK-" + marker), "error": lambda: RuntimeError("MARK-" + marker),
               "notfired": lambda: DeferredNotFired("MARK-" + marker), "error_falsy": lambda: FalsyError("MARK-" + marker),
               "kbd": lambda: KeyboardInterrupt("MARK-" + marker), "sysexit": lambda: SystemExit("MARK-" + marker),
               "skip": lambda: case.skipException("MARK-" + marker),
               "xfail": lambda: testtools.testcase._ExpectedFailure((RuntimeError, RuntimeError("MARK-" + marker), None))}[kind]()
        if deferred_mode:
            try:
                raise exc
            except BaseException:
                return defer.fail()
        raise exc

    def make(deferred_mode):
        log = []

        class T(testtools.TestCase):
            if deferred_mode:
                run_tests_with = SynchronousDeferredRunTest

            def setUp(self):
                super().setUp()
                log.append("setUp")
                self.addCleanup(lambda: log.append("first-registered cleanup"))
                # a cleanup that takes positional and keyword arguments
                self.addCleanup(lambda what, marker="?", fn=None, f=None: (log.append("cleanup"), act(self, what, deferred_mode, marker))[1],
                                spec["cleanup"], marker="cleanup", fn="a keyword name the plumbing uses itself",
                                f="the name of maybeDeferred's own first parameter")
                return act(self, spec["setUp"], deferred_mode, "setUp")

            def test_it(self):
                log.append("test")
                return act(self, spec["test"], deferred_mode, "test")

            def tearDown(self):
                log.append("tearDown")
                r = act(self, spec["tearDown"], deferred_mode, "tearDown")
                super().tearDown()
                return r
        res = Ext()
        left = None
        try:
            T("test_it").run(res)
        except BaseException as e:
            if isinstance(e, (MemoryError, RecursionError)):
                raise
            left = type(e).__name__
        log.append(("run() raised", left))
        outs = [(e[0], sorted(m for m in ("MARK-setUp", "MARK-test", "MARK-tearDown", "MARK-cleanup")
                               if any(m.encode() in d[2] for d in (e[2].get("details") or {}).values() if isinstance(d[2], bytes))))
                for e in res.events if e[0].startswith("add")]
        return log, outs
    a_log, a_out = make(False)
    b_log, b_out = make(True)
    if a_log != b_log:
        vs.append(V("sync-runner", "stage-order", "stages ran %r with Deferreds, %r directly" % (b_log, a_log)))
    if a_out != b_out:
        vs.append(V("sync-runner", "outcome", "returning fired Deferreds gave %r, returning/raising directly gave %r" % (b_out, a_out)))
    nt = sum(1 for k in spec.values() if k[0] not in ("ok",)) >= 1
    return Case(vs, nt, ["faulty-stages=%d" % sum(1 for k in spec.values() if k[0] not in ("ok", "value"))], {"outcome": a_out})


def _enum_programs():
    import itertools
    kinds = [["ok"], ["fail"], ["error"], ["skip"], ["value"], ["xfail"], ["notfired"], ["error_falsy"]]
    for a, b, c, d in itertools.product(kinds, repeat=4):
        yield {"setUp": a, "test": b, "tearDown": c, "cleanup": d}
    # an interrupt (not an Exception) in one stage, every other stage ranging over the ordinary behaviours
    few = [["ok"], ["fail"], ["error"], ["skip"]]
    for nonexc in (["kbd"], ["sysexit"]):
        for pos in range(4):
            for rest in itertools.product(few, repeat=3):
                stages = list(rest[:pos]) + [nonexc] + list(rest[pos:])
                yield dict(zip(("setUp", "test", "tearDown", "cleanup"), stages))


def subchecks(tier):
    q = tier == "quick"
    return [
        Sub("deferred_states", run_case, s_case(), 4000 if q else 200000),
        Sub("sync_runner_differential", run_program_pair, enum=_enum_programs, enum_complete=True,
            note="all 8^4 assignments of {ok, fail, error, skip, value, xfail, DeferredNotFired, falsy error} to setUp/test/tearDown/cleanup"),
    ]
