"""C09 - TestResult -> StreamResult -> TestResult conversion preserves every test."""
from hypothesis import strategies as st

from vp.core import Case, Sub, V
from vp import history as H
from vp import streams
from vp.results import Ext

PROPERTY = "C09"
RULE = ("Model-based TestResult histories (0..4 tests, every outcome kind given as exc_info / details / reason, "
        "0..3 details of 0..4 chunks incl. empty chunks, binary and parameterised text content types, non-ASCII "
        "names and reasons, tags inside/outside tests, explicit time() values or none, a second startTestRun) are "
        "fed to ExtendedToStreamDecorator whose events go to a recorder and to StreamToExtendedDecorator over an "
        "extended recorder; round-trip oracle on the final result plus well-formedness oracle on the stream. "
        "Also generated: one details dict object handed to several calls, fractional and non-UTC times, chunks of 70 kB, chunk boundaries inside characters, upper-case / empty / long / RFC-2231-looking parameter values; a traceback file is accepted only for exc_info outcomes and a reason only for skips given one. "
        "Non-trivial: >= 2 details with >= 2 chunks, or a parameterised content type, or >= 3 tests; distinct = "
        "distinct canonical history.")
ASSUMPTIONS = [
    "details whose chunks are all empty need not survive (statement: every non-empty detail); an empty skip reason counts as none",
    "with no time() value supplied the replayed times are only required to be non-None",
    "a time() value given before the run has been started (explicitly or on demand) is forgotten by startTestRun, as documented for TestResult.startTestRun",
]

HIST = H.s_history(max_tests=4, with_control=False, with_startless=False, test_kinds=("case", "case", "placeholder"), max_ops=30, skip_both=True)
OUT = {"success": "addSuccess", "error": "addFailure", "failure": "addFailure", "skip": "addSkip",
       "xfail": "addExpectedFailure", "uxsuccess": "addUnexpectedSuccess"}
STATUS = {"success": "success", "error": "fail", "failure": "fail", "skip": "skip", "xfail": "xfail", "uxsuccess": "uxsuccess"}


def run_case(spec):
    import testtools
    from testtools.content_type import ContentType
    vs = []
    # one details dict object per distinct set of attachments, handed to several outcome calls (in half of the
    # histories: chosen from the spec itself so that no extra draw is needed)
    shared_details = {} if len(spec["ops"]) % 2 else None
    if len(spec["ops"]) % 4 == 3:
        shared_details = {"<refill>": {}}
    ext = Ext()
    rec = streams.Recorder()
    r = testtools.ExtendedToStreamDecorator(testtools.CopyStreamResult([rec, testtools.StreamToExtendedDecorator(ext)]))
    tags = H.TagModel()
    now = None
    cur = None
    expected = []          # per test dict
    rich = 0
    param_ct = False
    started = False
    for op in spec["ops"]:
        k = op["op"]
        if not started and k in ("startTest", "tags", "outcome"):
            # the decorator starts the run on demand, which (like every startTestRun) forgets time()
            started = True
            now = None
        if k == "startTestRun":
            r.startTestRun()
            tags.start_run()
            now = None
            started = True
        elif k == "stopTestRun":
            r.stopTestRun()
        elif k == "tags":
            r.tags(set(op["new"]), set(op["gone"]))
            tags.change(op["new"], op["gone"])
        elif k == "time":
            now = H.ts(op["t"])
            r.time(now)
        elif k == "startTest":
            # the same test id may be reported more than once in a run (re-runs, parametrised scenarios)
            cur = H.make_test(op["i"] % spec.get("id_mod", 99), op["tk"])
            mark = len(rec.events)
            r.startTest(cur)
            tags.start_test()
            expected.append({"id": cur.id(), "start": now, "stream_from": mark})
        elif k == "outcome":
            e = expected[-1]
            e["kind"] = op["kind"]
            e["tags"] = frozenset(tags.current)
            e["stop"] = now
            e["marker"] = "MARK-%d-" % op["marker"]
            e["out_from"] = len(rec.events)
            info = H.outcome_call(r, cur, op, shared=shared_details)
            e["out_to"] = len(rec.events)
            p = op["payload"]
            e["details"] = {}
            e["err"] = info["err"] is not None
            if info["details"] is not None:
                keys_after = set(info.get("details_live", info["details"]))      # the very dict the reporter handed over
                want_keys = set(p["details"]) | ({"reason"} if p["form"] == "details+reasondetail" else set())
                if keys_after != want_keys:
                    vs.append(V("caller-args", "details-dict-mutated", "the caller's details dict now has keys %r, was %r" % (sorted(keys_after), sorted(want_keys))))
                for name, d in p["details"].items():
                    a, b, params = H.CT_SPECS[d["ct"]]
                    e["details"][name] = (ContentType(a, b, dict(params)), list(d["chunks"]))
                    if len([c for c in d["chunks"]]) >= 2:
                        rich += 1
                    if params:
                        param_ct = True
            e["reason"] = info["reason"]
        elif k == "stopTest":
            r.stopTest(cur)
            tags.stop_test()
    if started and not any(op["op"] == "stopTestRun" for op in spec["ops"][-1:]):
        r.stopTestRun()          # flushes nothing when every test finished; keeps both converters symmetrical
    expected = [e for e in expected if "kind" in e]

    # ---------------- final result: one bracket per test
    brackets, curb = [], None
    ok_shape = True
    for ev in ext.events:
        if ev[0] == "startTest":
            ok_shape &= curb is None
            curb = [ev]
        elif ev[0].startswith("add") or ev[0] == "stopTest":
            if curb is None:
                ok_shape = False
                continue
            curb.append(ev)
            if ev[0] == "stopTest":
                brackets.append(curb)
                curb = None
    if not ok_shape or curb is not None or any(len(b) != 3 for b in brackets):
        vs.append(V("roundtrip", "bracket-shape", "final result did not get startTest/outcome/stopTest brackets: %r" % [e[0] for e in ext.events]))
    elif len(brackets) != len(expected):
        vs.append(V("roundtrip", "test-count", "%d tests reported, %d replayed" % (len(expected), len(brackets))))
    else:
        for e, b in zip(expected, brackets):
            start, out, stop = b
            ctx = out[2]
            tag = e["kind"]
            if start[1].id() != e["id"] or out[1].id() != e["id"] or stop[1].id() != e["id"]:
                vs.append(V("roundtrip", "id", "test id %r replayed as %r" % (e["id"], start[1].id())))
            if out[0] != OUT[e["kind"]]:
                vs.append(V("roundtrip", "outcome-" + tag, "%s replayed as %s" % (e["kind"], out[0])))
            if ctx["tags"] != e["tags"]:
                vs.append(V("roundtrip", "tags", "tags at outcome %r, reporter had %r" % (sorted(ctx["tags"]), sorted(e["tags"]))))
            st_time, out_time = start[2]["time"], ctx["time"]
            for got_t, sent_t in ((st_time, e["start"]), (out_time, e["stop"])):
                # the very value: same instant and same UTC offset, microseconds included
                if sent_t is not None and got_t is not None and got_t == sent_t and got_t.isoformat() != sent_t.isoformat():
                    vs.append(V("roundtrip", "time-converted", "time %r came back as %r" % (sent_t.isoformat(), got_t.isoformat())))
            if e["start"] is not None and st_time != e["start"]:
                vs.append(V("roundtrip", "start-time", "start time %r, supplied %r" % (st_time, e["start"])))
            if e["stop"] is not None and out_time != e["stop"]:
                vs.append(V("roundtrip", "stop-time", "outcome time %r, supplied %r" % (out_time, e["stop"])))
            if st_time is None or out_time is None:
                vs.append(V("roundtrip", "time-missing", "replayed test has no %s time" % ("start" if st_time is None else "stop")))
            det = ctx.get("details") or {}
            for name, (ct, chunks) in e["details"].items():
                data = b"".join(chunks)
                if not data:
                    continue
                if name not in det:
                    vs.append(V("roundtrip", "detail-lost", "detail %r (%d bytes) missing after the round trip; have %r" % (name, len(data), sorted(det))))
                    continue
                if det[name][2] != data:
                    vs.append(V("roundtrip", "detail-bytes", "detail %r bytes %r, sent %r" % (name, det[name][2], data)))
                if det[name][1] != ct:
                    vs.append(V("roundtrip", "detail-type", "detail %r content type %r, sent %r" % (name, det[name][0], repr(ct))))
            if e["err"]:
                tb = det.get("traceback")
                if tb is None or e["marker"].encode() not in tb[2]:
                    vs.append(V("roundtrip", "traceback", "exc_info traceback with marker %s not replayed; details %r" % (e["marker"], sorted(det))))
            if e["kind"] == "skip" and e["reason"]:
                got = ctx.get("reason")
                if got is None and "reason" in det:
                    got = det["reason"][2].decode("utf8", "replace")
                if got != e["reason"]:
                    vs.append(V("roundtrip", "skip-reason", "skip reason %r replayed as %r" % (e["reason"], got)))
            # a traceback is only generated from exc_info, a reason only for a skip that was given one
            allowed = ({"traceback"} if e["err"] else set()) | ({"reason"} if e["kind"] == "skip" and e["reason"] is not None else set())
            extra = set(det) - set(e["details"]) - allowed
            if extra:
                vs.append(V("roundtrip", "detail-invented", "details %r were never sent" % sorted(extra)))

    # ---------------- the stream in between
    evs = rec.events
    for e in expected:
        first = next((x for x in evs[e["stream_from"]:] if x[0] == "status"), None)
        if first is None or first[1]["test_id"] != e["id"] or first[1]["test_status"] != "inprogress":
            vs.append(V("stream", "inprogress", "startTest(%s) did not emit an inprogress event first: %r" % (e["id"], first and first[1])))
        elif e["start"] is not None and first[1]["timestamp"] != e["start"]:
            vs.append(V("stream", "inprogress-timestamp", "inprogress timestamp %r, time() was %r" % (first[1]["timestamp"], e["start"])))
        seg = [x[1] for x in evs[e["out_from"]:e["out_to"]] if x[0] == "status"]
        if any(s["test_id"] != e["id"] for s in seg):
            vs.append(V("stream", "foreign-event", "events for another test inside the outcome of %s" % e["id"]))
        finals = [i for i, s in enumerate(seg) if s["test_status"] in streams.FINAL]
        if len(finals) != 1 or finals[0] != len(seg) - 1:
            vs.append(V("stream", "final-status", "expected exactly one final status as the last event, got statuses %r" % [s["test_status"] for s in seg]))
            continue
        fin = seg[-1]
        if fin["test_status"] != STATUS[e["kind"]]:
            vs.append(V("stream", "final-status-kind", "%s sent as %r" % (e["kind"], fin["test_status"])))
        if (fin["test_tags"] or frozenset()) != e["tags"]:
            vs.append(V("stream", "final-tags", "final status carries tags %r, reporter had %r" % (fin["test_tags"], sorted(e["tags"]))))
        if fin["file_name"] is not None:
            vs.append(V("stream", "final-has-file", "final status event carries a file"))
        files = {}
        order = []
        for s in seg[:-1]:
            if s["file_name"] is None or s["test_status"] is not None:
                vs.append(V("stream", "non-file-event", "unexpected event before the final status: %r" % (s,)))
                continue
            if s["file_name"] not in files:
                files[s["file_name"]] = []
                order.append(s["file_name"])
            elif order[-1] != s["file_name"]:
                vs.append(V("stream", "interleaved-files", "chunks of %r are not contiguous" % s["file_name"]))
            files[s["file_name"]].append(s)
        for name, (ct, chunks) in e["details"].items():
            got = files.get(name)
            if got is None:
                vs.append(V("stream", "detail-not-sent", "no file events for detail %r" % name))
                continue
            sent = [g["file_bytes"] for g in got]
            want = list(chunks) if chunks else [b""]
            if sent != want:
                vs.append(V("stream", "chunks", "detail %r sent as chunks %r, content yields %r" % (name, sent, want)))
            eofs = [g["eof"] for g in got]
            if eofs != [False] * (len(got) - 1) + [True]:
                vs.append(V("stream", "eof", "detail %r eof flags %r (must be set exactly on the last chunk)" % (name, eofs)))
        for name, got in files.items():
            allowed_f = (("traceback",) if e["err"] else ()) + (("reason",) if e["kind"] == "skip" and e["reason"] is not None else ())
            if name not in e["details"] and name not in allowed_f:
                vs.append(V("stream", "file-invented", "file %r was never a detail" % name))
            if [g["eof"] for g in got][-1] is not True or any(g["eof"] for g in got[:-1]):
                vs.append(V("stream", "eof", "file %r eof flags %r" % (name, [g["eof"] for g in got])))
    nt = rich >= 2 or param_ct or len(expected) >= 3
    return Case(vs, nt, ["tests=%d" % len(expected), "rich" if rich >= 2 else "", "param-ct" if param_ct else ""] +
                ["kind=" + e["kind"] for e in expected[:3]], {"final_events": [e[0] for e in ext.events][:20]})


@st.composite
def s_case(draw):
    h = draw(HIST)
    h["id_mod"] = draw(st.sampled_from([99, 99, 2, 1]))
    return h


def subchecks(tier):
    q = tier == "quick"
    return [Sub("roundtrip_histories", run_case, s_case(), 2000 if q else 120000)]
