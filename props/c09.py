"""C09 - TestResult -> StreamResult -> TestResult conversion preserves every test."""
from hypothesis import strategies as st

from vp.core import Case, Sub, V
from vp import history as H
from vp import streams
from vp.results import Ext

PROPERTY = "C09"
RULE = ("Model-based TestResult histories (0..6 tests, every outcome kind given as exc_info / details / reason, "
        "0..3 details of 0..4 chunks incl. empty chunks, binary and parameterised text content types, non-ASCII "
        "names and reasons, tags inside/outside tests, explicit time() values or none, a second startTestRun) are "
        "fed to ExtendedToStreamDecorator whose events go to a recorder and to StreamToExtendedDecorator over an "
        "extended recorder; round-trip oracle on the final result plus well-formedness oracle on the stream. "
        "Also generated: one details dict object handed to several calls, fractional and non-UTC times, chunks of 70 kB, chunk boundaries inside characters, upper-case / empty / long / RFC-2231-looking parameter values; a traceback file is accepted only for exc_info outcomes and a reason only for skips (for a skip given none: any but the reason of an earlier test). "
        "Third audit: the replayed skip reason is read the way a consumer reads it (decoded with the charset its content type declares); histories whose run was started on demand "
        "are in half of the cases not closed by a stopTestRun (every bracket must be there all the same) or get an explicit second run; contents that read differently at "
        "every evaluation, one Content object per detail name for the whole history ('live': the bytes sent must be those of an evaluation made during that very outcome call); "
        "the same instant under two UTC offsets; reasons of several thousand characters; details stretched to 12 chunks; word-sized / padded / non-ASCII tags and test ids; "
        "content types are compared field by field (type, subtype, parameters), not with the tree's ContentType.__eq__. "
        "Directed exhaustive grid (every seed): offset pairs x run kinds, long and non-ASCII reasons x skip forms, on-demand run then explicit run with run-level tags, "
        "unclosed runs x outcome kinds, live contents over three tests, 12-chunk details, 8 tests, a shared details dict after a skip with a reason, skips with an empty reason or details={} only, wide tags and ids, every content-type row next to a chunk-less and an all-empty detail. "
        "Non-trivial: >= 2 details with >= 2 chunks, or a parameterised content type, or >= 3 tests; distinct = "
        "distinct canonical history.")
ASSUMPTIONS = [
    "details whose chunks are all empty need not survive (statement: every non-empty detail); an empty skip reason counts as none",
    "every skip is given a reason, details, or both: a bare addSkip(test) is not a well-formed TestResult call (TestResult.addSkip itself fails on it) and is not generated. "
    "A skip given no reason (details only, or an empty one) may be sent and replayed with a reason of the implementation's own (TestResult.addSkip reports 'No reason given' for these) - "
    "only the reason of an earlier test of the same history turning up there is reported (a leak through a shared details dict)",
    "between the inprogress event of startTest and the final status, interim events are allowed as StreamResult.status documents them: a file event may carry test_status 'inprogress', "
    "file-less 'inprogress' events of the same test are ignored; 'exactly one final status' is about final statuses. The events of an outcome may be sent from the outcome call or later, "
    "up to the return of that test's stopTest",
    "with no time() value supplied nothing is required of the replayed times (they may be invented or absent)",
    "a time() value given before the run has been started (explicitly or on demand) is forgotten by startTestRun, as documented for TestResult.startTestRun",
    "'the supplied times' are compared as instants (datetime equality, microseconds included): a stamp that comes back normalised to another UTC offset is the supplied time; "
    "time() values carry TZ information, as TestResult.time documents - naive datetimes are not generated",
    "on the stream the events of one detail may be cut differently from the chunks the content yields (coalesced, split, empty chunks omitted): required are the identical concatenated bytes, eof on exactly "
    "the last event of the file, and no more empty events than the content has empty chunks; events of different details may interleave. A detail that yields no bytes at all is still announced "
    "by (at least) one file event carrying eof - the statement's 'file events of its details' is read as: every detail handed over has some",
    "the decorator may do what it likes to the details dict it is given as long as every later call still sends what the reporter put in (a key left behind shows as an invented file of the next call that is given the same dict)",
    "a history whose run was only ever started on demand and is never stopped is well formed (a bare test.run(result) calls neither startTestRun nor stopTestRun): its tests have to be replayed by the time the last call returns",
    "a lazily evaluated content may be evaluated more than once per outcome call; what is sent has to be the value of one of the evaluations made during that call",
    "detail names: 'reason' is reserved for the skip reason (DESIGN 11.2: addSkip(test, 'a', details={'reason': ..}) sends two files under one name) - never generated as an ordinary detail; "
    "text details are valid for the charset they declare",
    "the content-type rows with a 90-character, an RFC-2231-looking and a non-ASCII parameter value go through email.headerregistry of the running interpreter (CPython 3.12 here): a loss there on another "
    "interpreter version would be reported as detail-type although the tree is unchanged",
]

HIST = H.s_history(max_tests=6, with_control=False, with_startless=False, test_kinds=("case", "case", "placeholder"), max_ops=30, skip_both=True)
OUT = {"success": "addSuccess", "error": "addFailure", "failure": "addFailure", "skip": "addSkip",
       "xfail": "addExpectedFailure", "uxsuccess": "addUnexpectedSuccess"}
STATUS = {"success": "success", "error": "fail", "failure": "fail", "skip": "skip", "xfail": "xfail", "uxsuccess": "uxsuccess"}
# spec["wide"]: the four tag letters of the shared generator and the test ids stand for values with blanks, capitals,
# non-ASCII characters, a new-line, and of some length
TAGMAP = {"t": "t", "u": "Tag One ", "v": "\u00e9tiquette", "w": "W" * 120}
WIDE_IDS = [" padded id %d ", "pkg/mod.py::Cls::test[\u00e9-%d]", "Upper.Case_%d", "two\nlines %d"]


def _expand(op, spec):
    """The outcome op as it is performed: details stretched (spec['stretch'] copies of every chunk list) and the reason
    repeated (payload['reason_rep']) - kept as factors so that specs and replay files stay small."""
    p = op["payload"]
    k, rep = spec.get("stretch", 1), p.get("reason_rep", 1)
    if k == 1 and rep == 1:
        return op
    p2 = dict(p)
    if k != 1:
        p2["details"] = {n: {"ct": d["ct"], "chunks": list(d["chunks"]) * k} for n, d in p["details"].items()}
    if rep != 1 and "reason" in p2:
        p2["reason"] = p["reason"] * rep
    return dict(op, payload=p2)


class _Live:
    """spec['live']: one Content object per detail name for the whole history (a log attached to every test), and
    each evaluation of it reads differently: the chunks of the first spec seen under that name plus b'#<n>' at the
    n-th evaluation.  Every evaluation is recorded."""

    def __init__(self):
        self.by_name = {}

    def get(self, name, dspec):
        from testtools.content import Content
        from testtools.content_type import ContentType
        ent = self.by_name.get(name)
        if ent is None:
            a, b, params = H.CT_SPECS[dspec["ct"]]
            ent = {"ct": dspec["ct"], "chunks": list(dspec["chunks"]), "log": []}

            def get_bytes(ent=ent):
                n = len(ent["log"]) + 1
                ent["log"].append(n)
                return iter(ent["chunks"] + [b"#%d" % n])
            ent["content"] = Content(ContentType(a, b, dict(params)), get_bytes)
            self.by_name[name] = ent
        return ent


def _declared_text(snap):
    """What a consumer gets from as_text() of a replayed detail: its bytes decoded with the charset the content
    type declares (ISO-8859-1 when it declares none); None when the type is not text/*."""
    ct, data = snap[1], snap[2]
    if getattr(ct, "type", None) != "text" or not isinstance(data, bytes):
        return None
    try:
        return data.decode((getattr(ct, "parameters", None) or {}).get("charset", "ISO-8859-1"), "replace")
    except LookupError:
        return None


def _ct_fields(ct):
    return (getattr(ct, "type", None), getattr(ct, "subtype", None), dict(getattr(ct, "parameters", None) or {}))


def run_case(spec):
    import testtools
    vs = []
    # one details dict object per distinct set of attachments, handed to several outcome calls (in half of the
    # histories: chosen from the spec itself so that no extra draw is needed)
    share = spec.get("share") or ("refill" if len(spec["ops"]) % 4 == 3 else "dict" if len(spec["ops"]) % 2 else "none")
    live = _Live() if spec.get("live") else None
    if live is not None:
        share = "dict"                # the live contents are handed over through the shared-dict door of outcome_call
    shared_details = {"none": None, "dict": {}, "refill": {"<refill>": {}}}[share]
    wide = bool(spec.get("wide"))
    tagv = (lambda names: [TAGMAP.get(n, n) for n in names]) if wide else list
    ext = Ext()
    rec = streams.Recorder()
    r = testtools.ExtendedToStreamDecorator(testtools.CopyStreamResult([rec, testtools.StreamToExtendedDecorator(ext)]))
    tags = H.TagModel()
    now = None
    cur = None
    expected = []          # per test dict
    rich = 0
    param_ct = False
    started = False
    for op in spec["ops"]:
        k = op["op"]
        if not started and k in ("startTest", "tags", "outcome"):
            # the decorator starts the run on demand, which (like every startTestRun) forgets time()
            started = True
            now = None
        if k == "startTestRun":
            r.startTestRun()
            tags.start_run()
            now = None
            started = True
        elif k == "stopTestRun":
            r.stopTestRun()
        elif k == "tags":
            r.tags(set(tagv(op["new"])), set(tagv(op["gone"])))
            tags.change(tagv(op["new"]), tagv(op["gone"]))
        elif k == "time":
            now = H.ts(op["t"])
            r.time(now)
        elif k == "startTest":
            # the same test id may be reported more than once in a run (re-runs, parametrised scenarios)
            cur = H.make_test(op["i"] % spec.get("id_mod", 99), op["tk"])
            if wide:
                cur.id = (lambda v: lambda: v)(WIDE_IDS[op["i"] % len(WIDE_IDS)] % (op["i"] % spec.get("id_mod", 99)))
            mark = len(rec.events)
            r.startTest(cur)
            tags.start_test()
            expected.append({"id": cur.id(), "start": now, "stream_from": mark})
        elif k == "outcome":
            e = expected[-1]
            e["kind"] = op["kind"]
            e["tags"] = frozenset(tags.current)
            e["stop"] = now
            e["marker"] = "MARK-%d-" % op["marker"]
            op = _expand(op, spec)
            p = op["payload"]
            marks = {}
            if live is not None and p["form"] in ("details", "details+reasondetail", "reason+details"):
                ents = {name: live.get(name, d) for name, d in p["details"].items()}
                marks = {name: len(ent["log"]) for name, ent in ents.items()}
                # a fresh dict of the same Content objects for every call
                shared_details[repr(sorted(p["details"].items()))] = {name: ent["content"] for name, ent in ents.items()}
            e["out_from"] = len(rec.events)
            info = H.outcome_call(r, cur, op, shared=shared_details)
            # the events of an outcome may be sent from the outcome call or later, up to the return of the test's
            # stopTest (the statement orders the events, it does not name the call that emits them)
            e["out_to"] = len(rec.events)
            e["details"] = {}
            e["err"] = info["err"] is not None
            if info["details"] is not None:
                # (what the decorator does to the dict it was given is not judged here: the expectation is what the
                # spec says the reporter put in - a key left behind by an earlier call is an invented file of this one)
                for name, d in p["details"].items():
                    if live is not None:
                        ent = live.by_name[name]
                        # the value of any evaluation made during this very call
                        d = {"ct": ent["ct"], "chunks": ent["chunks"]}
                        cands = [ent["chunks"] + [b"#%d" % n] for n in ent["log"][marks[name]:]]
                        e.setdefault("live_evals", {})[name] = len(cands)
                    else:
                        cands = [list(d["chunks"])]
                    a, b, params = H.CT_SPECS[d["ct"]]
                    e["details"][name] = ((a, b, dict(params)), cands)
                    if len([c for c in d["chunks"]]) >= 2:
                        rich += 1
                    if params:
                        param_ct = True
            e["reason"] = info["reason"]
        elif k == "stopTest":
            r.stopTest(cur)
            tags.stop_test()
            if expected and "kind" in expected[-1]:
                expected[-1]["out_to"] = len(rec.events)
    explicit = any(op["op"] == "startTestRun" for op in spec["ops"])
    if started and not any(op["op"] == "stopTestRun" for op in spec["ops"][-1:]) and (explicit or spec.get("close", True)):
        # flushes nothing when every test finished.  A run that was only ever started on demand (a bare
        # test.run(result)) has nobody to stop it: with close=False the history ends here, and every bracket has
        # to be there all the same
        r.stopTestRun()
    expected = [e for e in expected if "kind" in e]

    # ---------------- final result: one bracket per test
    brackets, curb = [], None
    ok_shape = True
    for ev in ext.events:
        if ev[0] == "startTest":
            ok_shape &= curb is None
            curb = [ev]
        elif ev[0].startswith("add") or ev[0] == "stopTest":
            if curb is None:
                ok_shape = False
                continue
            curb.append(ev)
            if ev[0] == "stopTest":
                brackets.append(curb)
                curb = None
    if not ok_shape or curb is not None or any(len(b) != 3 for b in brackets):
        vs.append(V("roundtrip", "bracket-shape", "final result did not get startTest/outcome/stopTest brackets: %r" % [e[0] for e in ext.events]))
    elif len(brackets) != len(expected):
        vs.append(V("roundtrip", "test-count", "%d tests reported, %d replayed" % (len(expected), len(brackets))))
    else:
        seen_reasons = set()
        for e, b in zip(expected, brackets):
            start, out, stop = b
            ctx = out[2]
            tag = e["kind"]
            if start[1].id() != e["id"] or out[1].id() != e["id"] or stop[1].id() != e["id"]:
                vs.append(V("roundtrip", "id", "test id %r replayed as %r" % (e["id"], start[1].id())))
            if out[0] != OUT[e["kind"]]:
                vs.append(V("roundtrip", "outcome-" + tag, "%s replayed as %s" % (e["kind"], out[0])))
            if ctx["tags"] != e["tags"]:
                vs.append(V("roundtrip", "tags", "tags at outcome %r, reporter had %r" % (sorted(ctx["tags"]), sorted(e["tags"]))))
            st_time, out_time = start[2]["time"], ctx["time"]
            # (compared as instants, microseconds included: datetime equality - the same instant rendered under another
            # UTC offset is the supplied time)
            if e["start"] is not None and st_time != e["start"]:
                vs.append(V("roundtrip", "start-time", "start time %r, supplied %r" % (st_time, e["start"])))
            if e["stop"] is not None and out_time != e["stop"]:
                vs.append(V("roundtrip", "stop-time", "outcome time %r, supplied %r" % (out_time, e["stop"])))
            det = ctx.get("details") or {}
            for name, (ct, cands) in e["details"].items():
                datas = [b"".join(c) for c in cands]
                if datas and not any(datas):
                    continue
                if name not in det:
                    vs.append(V("roundtrip", "detail-lost", "detail %r (%d bytes) missing after the round trip; have %r" % (name, len(datas[0]) if datas else -1, sorted(det))))
                    continue
                if det[name][2] not in datas:
                    vs.append(V("roundtrip", "detail-bytes", "detail %r bytes %r, sent %r" % (
                        name, det[name][2][-200:] if isinstance(det[name][2], bytes) else det[name][2],
                        [d[-200:] for d in datas] or "(the content was not evaluated during the call)")))
                if _ct_fields(det[name][1]) != ct:
                    vs.append(V("roundtrip", "detail-type", "detail %r content type %r, sent %r" % (name, det[name][0], ct)))
            if e["err"]:
                tb = det.get("traceback")
                if tb is None or e["marker"].encode() not in tb[2]:
                    vs.append(V("roundtrip", "traceback", "exc_info traceback with marker %s not replayed; details %r" % (e["marker"], sorted(det))))
            if e["kind"] == "skip" and e["reason"]:
                got = ctx.get("reason")
                how = ""
                if got is None and "reason" in det:
                    # what every consumer does with it: as_text(), i.e. the bytes decoded as the content type declares
                    got = _declared_text(det["reason"])
                    how = " (detail 'reason' declared as %s)" % det["reason"][0]
                if got != e["reason"]:
                    vs.append(V("roundtrip", "skip-reason", "skip reason %r replayed as %r%s" % (e["reason"][:80], got if got is None else got[:80], how)))
            # a traceback is only generated from exc_info, a reason only for a skip.  A skip that was given no reason
            # may come with one of the implementation's own (TestResult.addSkip says "No reason given" for these) -
            # but not with the reason an earlier test of this history was given
            allowed = ({"traceback"} if e["err"] else set()) | ({"reason"} if e["kind"] == "skip" else set())
            extra = set(det) - set(e["details"]) - allowed
            if extra:
                vs.append(V("roundtrip", "detail-invented", "details %r were never sent" % sorted(extra)))
            if e["kind"] == "skip" and e["reason"] is None:
                got = ctx.get("reason")
                if got is None and "reason" in det and "reason" not in e["details"]:
                    got = _declared_text(det["reason"])
                if got and got in seen_reasons:
                    vs.append(V("roundtrip", "detail-invented", "a skip given no reason was replayed with the reason of an earlier test: %r" % got[:80]))
            if e["reason"]:
                seen_reasons.add(e["reason"])

    # ---------------- the stream in between
    evs = rec.events
    sent_reasons = set()
    for e in expected:
        earlier_reasons = set(sent_reasons)
        if e["reason"]:
            sent_reasons.add(e["reason"])
        first = next((x for x in evs[e["stream_from"]:] if x[0] == "status"), None)
        if first is None or first[1]["test_id"] != e["id"] or first[1]["test_status"] != "inprogress":
            vs.append(V("stream", "inprogress", "startTest(%s) did not emit an inprogress event first: %r" % (e["id"], first and first[1])))
        elif e["start"] is not None and first[1]["timestamp"] != e["start"]:
            vs.append(V("stream", "inprogress-timestamp", "inprogress timestamp %r, time() was %r" % (first[1]["timestamp"], e["start"])))
        seg = [x[1] for x in evs[e["out_from"]:e["out_to"]] if x[0] == "status"]
        if any(s["test_id"] != e["id"] for s in seg):
            vs.append(V("stream", "foreign-event", "events for another test inside the outcome of %s" % e["id"]))
        finals = [i for i, s in enumerate(seg) if s["test_status"] in streams.FINAL]
        if len(finals) != 1 or finals[0] != len(seg) - 1:
            vs.append(V("stream", "final-status", "expected exactly one final status as the last event, got statuses %r" % [s["test_status"] for s in seg]))
            continue
        fin = seg[-1]
        if fin["test_status"] != STATUS[e["kind"]]:
            vs.append(V("stream", "final-status-kind", "%s sent as %r" % (e["kind"], fin["test_status"])))
        if (fin["test_tags"] or frozenset()) != e["tags"]:
            vs.append(V("stream", "final-tags", "final status carries tags %r, reporter had %r" % (fin["test_tags"], sorted(e["tags"]))))
        if fin["file_name"] is not None:
            vs.append(V("stream", "final-has-file", "final status event carries a file"))
        files = {}
        order = []
        for s in seg[:-1]:
            # (StreamResult.status: as many interim events as desired, 'inprogress' at any intermediary point - a file
            # event may repeat the interim status and a file-less 'inprogress' may sit between the files)
            if s["file_name"] is None and s["test_status"] == "inprogress":
                continue
            if s["file_name"] is None or s["test_status"] not in streams.INTERIM:
                vs.append(V("stream", "non-file-event", "unexpected event before the final status: %r" % (s,)))
                continue
            if s["file_name"] not in files:
                files[s["file_name"]] = []
                order.append(s["file_name"])
            files[s["file_name"]].append(s)          # (events of different files may interleave: not judged)
        for name, (ct, cands) in e["details"].items():
            got = files.get(name)
            if got is None:
                vs.append(V("stream", "detail-not-sent", "no file events for detail %r" % name))
                continue
            sent = [g["file_bytes"] or b"" for g in got]
            joined = b"".join(sent)
            match = [c for c in cands if b"".join(c) == joined]
            if not match:
                vs.append(V("stream", "chunks", "detail %r sent as %r, content yields %r" % (
                    name, [x[-60:] for x in sent][:14], [[x[-60:] for x in c][:14] for c in cands] or "(it was not evaluated during the call)")))
            else:
                # the events may be cut differently from the chunks, but an empty event has to stand for an empty
                # chunk (for a content without any chunk: the one event that announces it)
                n_empty = sum(1 for x in sent if not x)
                allowed_empty = max(max(sum(1 for x in c if not x) for c in match), 0 if joined else 1)
                if n_empty > allowed_empty:
                    vs.append(V("stream", "chunks", "detail %r sent with %d empty events, the content has %d empty chunks: %r" % (
                        name, n_empty, allowed_empty, [x[-60:] for x in sent][:14])))
            eofs = [g["eof"] for g in got]
            if eofs != [False] * (len(got) - 1) + [True]:
                vs.append(V("stream", "eof", "detail %r eof flags %r (must be set exactly on the last chunk)" % (name, eofs)))
        for name, got in files.items():
            allowed_f = (("traceback",) if e["err"] else ()) + (("reason",) if e["kind"] == "skip" else ())
            if name not in e["details"] and name not in allowed_f:
                vs.append(V("stream", "file-invented", "file %r was never a detail" % name))
            elif name == "reason" and name not in e["details"] and e["kind"] == "skip" and e["reason"] is None:
                # a reason of the implementation's own is fine, the reason of an earlier test is a leak
                text = b"".join(g["file_bytes"] or b"" for g in got).decode("utf8", "replace")
                if text and text in earlier_reasons:
                    vs.append(V("stream", "file-invented", "a skip given no reason was sent with the reason of an earlier test: %r" % text[:80]))
            if [g["eof"] for g in got][-1] is not True or any(g["eof"] for g in got[:-1]):
                vs.append(V("stream", "eof", "file %r eof flags %r" % (name, [g["eof"] for g in got])))
    nt = rich >= 2 or param_ct or len(expected) >= 3
    return Case(vs, nt, ["tests=%d" % len(expected), "rich" if rich >= 2 else "", "param-ct" if param_ct else "",
                         "live" if live is not None else "", "wide" if wide else "", "unclosed" if started and not explicit and not spec.get("close", True) else ""] +
                ["kind=" + e["kind"] for e in expected[:3]], {"final_events": [e[0] for e in ext.events][:20]})


@st.composite
def s_case(draw):
    h = draw(HIST)
    ops = h["ops"]
    h["id_mod"] = draw(st.sampled_from([99, 99, 2, 1]))
    h["close"] = draw(st.booleans())
    h["live"] = draw(st.sampled_from([0, 0, 0, 1]))
    h["wide"] = draw(st.booleans())
    h["stretch"] = draw(st.sampled_from([1, 1, 1, 1, 1, 1, 1, 3]))
    for op in ops:
        if op["op"] == "time" and op["t"] == 3:
            op["t"] = 4                      # with 1004: one instant under two UTC offsets
        if op["op"] == "outcome" and op["kind"] == "skip":
            z = draw(st.integers(0, 11))
            if z == 0:
                op["payload"]["reason_rep"] = 400          # a reason of some thousand characters
            # (z == 1 used to turn the call into a bare addSkip(test): TestResult.addSkip itself does not accept that
            # call, so it is not a well-formed history - see ASSUMPTIONS; the draw is kept for the case stream)
    if not any(op["op"] == "startTestRun" for op in ops):
        # the run is started on demand; in half of these an explicit second run follows the implicit one
        stops = [i for i, op in enumerate(ops) if op["op"] == "stopTest"]
        if stops and draw(st.booleans()):
            j = draw(st.sampled_from(stops)) + 1
            ops[j:j] = [{"op": "stopTestRun"}, {"op": "startTestRun"}]
    return h


# ------------------------------------------------------------------ directed grid (exhaustive, the same at every seed)
def _g(ops, **kw):
    return dict({"ops": ops, "id_mod": 99, "close": True, "live": 0, "wide": False, "stretch": 1, "share": "none"}, **kw)


def _payload(kind, **kw):
    if kind in ("success", "uxsuccess"):
        base = {"form": "none", "details": {}}
    elif kind == "skip":
        base = {"form": "reason", "reason": "because", "details": {}, "call": "pos"}
    else:
        base = {"form": "err", "details": {}, "exc": "ValueError", "call": "pos"}
    return dict(base, **kw)


def _test(i, kind="success", tk="case", pre=(), mid=(), **kw):
    return list(pre) + [{"op": "startTest", "i": i, "tk": tk}] + list(mid) + [
        {"op": "outcome", "kind": kind, "marker": i + 1, "payload": _payload(kind, **kw)}, {"op": "stopTest"}]


_START, _STOP = {"op": "startTestRun"}, {"op": "stopTestRun"}
_LOG = {"ct": 0, "chunks": [b"first line\n", "d\u00e9j\u00e0\n".encode("utf8")]}
_BIN = {"ct": 3, "chunks": [b"\xff\x00", b"", b"\x80abc"]}


def _time(t):
    return {"op": "time", "t": t}


def _tag(*new):
    return {"op": "tags", "new": sorted(new), "gone": []}


def _enum_grid():
    kinds = H.KINDS
    # 1. one instant under two UTC offsets: the second value is a new value
    for a, b in ((4, 1004), (1004, 4), (0, 1000), (1000, 0)):
        for run in (True, False):
            for kind in ("success", "skip", "failure"):
                for tk in ("case", "placeholder"):
                    ops = ([_START] if run else []) + _test(0, kind, tk, pre=[_time(a)], mid=[_time(b)]) + _test(1, kind, tk, mid=[_time(a)])
                    yield _g(ops + ([_STOP] if run else []))
    # 2. long / non-ASCII reasons x every way of giving a reason
    for form in ("reason", "reason+details", "details+reasondetail"):
        for call in ("pos", "kw"):
            for reason, rep in (("r", 5000), ("r\u00e9ason \u00fcnicode \u4e2d", 1), ("r\u00e9ason \u00fcnicode ", 400), ("two\nlines\r\n", 1), (" ", 1)):
                for tk in ("case", "placeholder"):
                    yield _g([_START] + _test(0, "skip", tk, form=form, call=call, reason=reason, reason_rep=rep,
                                              details={} if form == "reason" else {"log": _LOG}) + [_STOP])
    # 3. a run started on demand, stopped, then an explicit run: nothing of the first one is left
    for first in ([_tag("t")], [_tag("t", "u"), _time(5)], [_time(5), _tag("w")], []):
        for between in ([], [_tag("v")]):
            for kind in ("success", "skip", "error"):
                ops = list(first) + _test(0, kind) + between + [_STOP, _START] + _test(1, kind, "placeholder") + _test(2, kind)
                yield _g(ops + [_STOP])
                yield _g(ops, wide=True)
    # 4. a run that nobody stops (a bare test.run(result)): every bracket is there when the last call returns
    for kind in kinds:
        for n in (1, 2, 3):
            for tk in ("case", "placeholder"):
                ops = []
                for i in range(n):
                    ops += _test(i, kind, tk, pre=[_tag("t")] if i == 1 else [], mid=[_time(i)] if n == 3 else [])
                yield _g(ops, close=False)
    for kind in kinds:
        form = {"form": "details"} if kind != "skip" else {"form": "reason+details"}
        yield _g(_test(0, kind, details={"log": _LOG, "x": _BIN}, **form) + _test(1, kind, details={"x": _BIN}, **form), close=False)
    # 5. one Content object per name for three tests, reading differently at every evaluation
    for kind in kinds:
        form = {"form": "details"} if kind != "skip" else {"form": "reason+details"}
        for dets in ({"log": _LOG}, {"log": _LOG, "x": _BIN}):
            for run in (True, False):
                ops = [_START] if run else []
                for i in range(3):
                    ops += _test(i, kind if i != 1 else "success", details=dets if i != 1 else {"log": _LOG}, **(form if i != 1 else {"form": "details"}))
                yield _g(ops, live=1, close=run)
    # 6. details of 12 chunks (a traceback has one chunk per line), empty ones among them
    many = {"log": {"ct": 0, "chunks": [b"line %d\n" % i if i % 5 else b"" for i in range(12)]},
            "x": {"ct": 3, "chunks": [bytes([i, 255 - i]) for i in range(12)]}}
    for kind in kinds:
        form = {"form": "details"} if kind != "skip" else {"form": "details+reasondetail"}
        yield _g([_START] + _test(0, kind, details=many, **form) + [_STOP])
        yield _g(_test(0, kind, "placeholder", details={"log": _LOG, "x": _BIN}, **form), stretch=4, close=False)
    # 7. eight tests in one run, every outcome kind, the same id twice
    for id_mod in (99, 3):
        ops = [_START]
        for i in range(8):
            ops += _test(i, kinds[i % 6], ("case", "placeholder")[i % 2], pre=[_tag("tuvw"[i % 4])] if i % 3 == 0 else [], mid=[_time(i)])
        yield _g(ops + [_STOP], id_mod=id_mod)
        yield _g(ops + [_STOP], id_mod=id_mod, wide=True)
    # 8. the same details dict object for a skip that also has a reason, and then for another test
    for share in ("dict", "refill"):
        for kind in kinds:
            form = {"form": "details"} if kind != "skip" else {"form": "details"}
            for dets in ({"log": _LOG}, {}):
                yield _g([_START] + _test(0, "skip", form="reason+details", reason="first one's reason", details=dets) +
                         _test(1, kind, details=dets, **form) + [_STOP], share=share)
    # 9. skips without a reason to preserve: an empty one (positional, by keyword), and details={} only
    for tk in ("case", "placeholder"):
        for run in (True, False):
            ops = (([_START] if run else []) + _test(0, "skip", tk, form="reason", reason="", call="kw") + _test(1, "skip", tk, form="reason", reason="") +
                   _test(2, "skip", tk, form="details", details={}, pre=[_tag("u")]))
            yield _g(ops + ([_STOP] if run else []), close=run)
            yield _g(ops + ([_STOP] if run else []), close=run, wide=True)
    # 10. every content-type row alone, next to a detail without chunks and one with only empty chunks
    for cti in range(len(H.CT_SPECS)):
        for kind in ("success", "skip"):
            form = {"form": "details"} if kind != "skip" else {"form": "reason+details"}
            dets = {"log": {"ct": cti, "chunks": [b"a", b"", b"tail"]}, "x": {"ct": cti, "chunks": []}, "stdout": {"ct": cti, "chunks": [b"", b""]}}
            yield _g([_START] + _test(0, kind, ("case", "placeholder")[cti % 2], details=dets, **form) + [_STOP])


def subchecks(tier):
    q = tier == "quick"
    return [Sub("roundtrip_histories", run_case, s_case(), 2000 if q else 120000),
            Sub("directed_grid", run_case, enum=_enum_grid, enum_complete=True,
                note="offset pairs, long / non-ASCII reasons x skip forms, on-demand then explicit run, unclosed runs, live contents, "
                     "12-chunk details, 8 tests, shared dict after a skip with a reason, empty-reason skips, wide tags and ids")]
