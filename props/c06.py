"""C06 - matcher verdicts obey their declared semantics compositionally."""
import itertools

from hypothesis import strategies as st

from vp.core import Case, Sub, V
from vp import matchers as ML

PROPERTY = "C06"
RULE = ("Typed matcher-expression trees (depth <= 3 random; depth <= 2 exhaustive over a 9-leaf int alphabet for "
        "the list combinators) built onto the real testtools matchers, with values constructed from the "
        "tree's own domain (ints, strings, bytes, lists, dicts, objects, exc_info tuples, callables, paths in a "
        "per-case scratch directory); match() is compared with a reference predicate written from the "
        "docstrings (MatchesSetwise = maximum bipartite matching, SameMembers = multiset equality, ...); "
        "verdict must repeat on a second call and on a rebuilt matcher, and deep snapshots of matcher and "
        "matchee must be unchanged. Non-trivial: tree depth >= 2; distinct = distinct canonical (tree, value).")
ASSUMPTIONS = [
    "values come from the matcher's own domain (comparable ints for LessThan/GreaterThan, homogeneous str keys "
    "for dict matchers, objects that have the attributes, paths inside the scratch directory)",
    "DocTestMatches reference implements flags 0 / ELLIPSIS / NORMALIZE_WHITESPACE and the True/1 and "
    "<BLANKLINE> rules of the doctest documentation",
    "filesystem matchers applied to an object of the wrong kind (HasPermissions on a missing path, "
    "TarballContains on a non-tarball, FileContains on a directory) are outside the documented domain: "
    "executed, verdict not asserted",
]


@st.composite
def s_case(draw):
    domain = draw(st.sampled_from(ML.DOMAINS))
    depth = draw(st.sampled_from([2, 3, 1, 2, 0, 3]))
    spec = draw(ML.tree(domain, depth))
    value = draw(ML.VALUES[domain])
    fs = draw(ML.FS) if ML.uses_domain(spec, "path") else None
    fs2 = draw(ML.FS) if fs is not None and draw(st.booleans()) else None       # what the scratch directory holds later on
    list_flavour = "list"
    if domain == "list" and not ML.has_node(spec, lambda n: n.get("d") == "list" and n["m"] in ("Equals", "Is")):
        list_flavour = draw(st.sampled_from(["list", "tuple", "tuple"]))       # a tuple equals no list, and copies of a tuple are the tuple
    return {"domain": domain, "matcher": spec, "value": value, "fs": fs, "fs2": fs2, "list_flavour": list_flavour,
            "dict_flavour": draw(st.sampled_from(["dict", "dict", "defaultdict", "Counter"])) if domain == "dict" else "dict"}


def run_case(spec):
    import warnings
    with warnings.catch_warnings():
        warnings.simplefilter("ignore")
        return _run_case(spec)


def _run_case(spec):
    vs = []
    domain, ms, value = spec["domain"], spec["matcher"], spec["value"]
    with ML.Env(spec.get("fs"), defer=True) as env:
        env.dict_flavour = spec.get("dict_flavour", "dict")      # dict subclasses with __missing__ are dicts too
        env.list_flavour = spec.get("list_flavour", "list")
        # a matcher constructed while the scratch directory is still empty: what it says later depends on the
        # file system at match time, not at construction time
        early = ML.build(ms, env) if spec.get("fs") is not None else None
        env.populate()
        try:
            want = ML.ref(ms, value, env)
        except ML.Propagates as p:
            want = p
        top = ms["m"]
        if isinstance(want, ML.Propagates) and want.exc_name not in ML.EXC_CLASSES:
            # outside the documented domain: run it, assert nothing about the verdict
            try:
                ML.build(ms, env).match(ML.live_value(domain, value, env))
            except (MemoryError, RecursionError):
                raise
            except BaseException:
                pass
            return Case([], False, ["undefined-domain"])
        matcher = ML.build(ms, env)
        live = ML.live_value(domain, value, env)
        snap_m = ML.snapshot(matcher)
        snap_v = ML.snapshot(live) if domain not in ("callable",) else None

        def do(m, lv):
            try:
                return ("verdict", m.match(lv))
            except BaseException as e:
                if isinstance(e, (MemoryError, RecursionError)):
                    raise
                return ("raised", e)
        kind, res = do(matcher, live)
        if env.list_flavour == "iter":
            live = ML.live_value(domain, value, env)         # the first match() has used the iterator up: a fresh one for the second
        if isinstance(want, ML.Propagates):
            if kind != "raised" or type(res).__name__ != want.exc_name:
                vs.append(V("propagation", top, "%s: a %s raised by the matchee should propagate, got %s %r" % (
                    top, want.exc_name, kind, res)))
            return Case(vs, ML.depth_of(ms) >= 2, ["propagates"])
        if kind == "raised":
            vs.append(V("raises", "%s-%s" % (top, type(res).__name__), "match(%r) raised %r for %r" % (value, res, ms)))
            return Case(vs, ML.depth_of(ms) >= 2, ["raised"])
        got = res is None
        if got != want:
            vs.append(V("verdict", top, "%s.match(%r) %s, documented predicate says %s; matcher spec %r" % (
                top, value, "matched" if got else "mismatched", "match" if want else "mismatch", ms)))
        if res is not None:
            if not (hasattr(res, "describe") and hasattr(res, "get_details")):
                vs.append(V("mismatch-protocol", top, "match() returned %r which is not a Mismatch" % (res,)))
        # determinism: same object again, and a structurally equal fresh matcher
        k2, r2 = do(matcher, live)
        if (k2, r2 is None) != (kind, got):
            vs.append(V("determinism", "second-call-" + top, "second match() call gives a different verdict"))
        m3 = ML.build(ms, env)
        k3, r3 = do(m3, ML.live_value(domain, value, env))
        if (k3, r3 is None) != (kind, got):
            vs.append(V("determinism", "rebuilt-" + top, "a rebuilt, structurally equal matcher gives a different verdict"))
        if early is not None:
            k4, r4 = do(early, ML.live_value(domain, value, env))
            if (k4, r4 is None) != (kind, got):
                vs.append(V("determinism", "built-before-the-files-existed-" + top,
                            "a structurally equal matcher constructed before the files were created gives a different verdict"))
        if spec.get("fs2") is not None and not vs:
            # the files change; the very same matcher object (and the one built before any file existed) is asked again
            env.repopulate(spec["fs2"])
            try:
                want2 = ML.ref(ms, value, env)
            except ML.Propagates:
                want2 = None
            if want2 is not None:
                for who, mm in (("same-matcher", matcher), ("early-matcher", early)):
                    k5, r5 = do(mm, ML.live_value(domain, value, env))
                    if k5 != "verdict" or (r5 is None) != want2:
                        vs.append(V("verdict", "stale-after-the-files-changed-" + top, "%s: after the scratch directory changed from %r to %r, match(%r) says %s, the documented predicate says %s" % (
                            who, spec["fs"], spec["fs2"], value, "match" if k5 == "verdict" and r5 is None else (k5 if k5 != "verdict" else "mismatch"), "match" if want2 else "mismatch")))
                        break
            snap_m = ML.snapshot(matcher)
        if ML.snapshot(matcher) != snap_m:
            vs.append(V("side-effect", "matcher-" + top, "match() modified the matcher: %s -> %s" % (snap_m[:300], ML.snapshot(matcher)[:300])))
        if snap_v is not None and ML.snapshot(live) != snap_v:
            vs.append(V("side-effect", "matchee-" + top, "match() modified the matchee: %s -> %s" % (snap_v[:200], ML.snapshot(live)[:200])))
    d = ML.depth_of(ms)
    return Case(vs, d >= 2, ["domain=" + domain, "depth=%d" % d, "top=" + top, "match" if want else "mismatch"],
                {"verdict": "match" if got else "mismatch"})


def _enum(max_leaves):
    leaves = [ML.M("Equals", "int", k=0), ML.M("Equals", "int", k=1), ML.M("Equals", "int", k=2),
              ML.M("LessThan", "int", k=1), ML.M("GreaterThan", "int", k=1), ML.M("NotEquals", "int", k=1),
              ML.M("Always", "int"), ML.M("Never", "int"), ML.M("MatchesPredicate", "int")]
    values = [list(t) for n in range(0, 4) for t in itertools.product([0, 1, 2], repeat=n)]

    def gen():
        trees = []
        for lf in leaves:
            trees.append(ML.M("AllMatch", "list", inner=lf))
            trees.append(ML.M("AnyMatch", "list", inner=lf))
            trees.append(ML.M("Not", "list", inner=ML.M("AnyMatch", "list", inner=lf)))
        for n in range(0, max_leaves + 1):
            for combo in itertools.product(leaves, repeat=n):
                trees.append(ML.M("MatchesSetwise", "list", inner=list(combo), share=False))
                trees.append(ML.M("MatchesListwise", "list", inner=list(combo), first_only=False))
                if n == 2:
                    trees.append(ML.M("MatchesSetwise", "list", inner=list(combo), share=True))
                    trees.append(ML.M("MatchesListwise", "list", inner=list(combo), first_only=True))
        for t in trees:
            for v in values:
                yield {"domain": "list", "matcher": t, "value": v, "fs": None}
    return gen


def _enum_nested():
    """Every (outer, inner) pair of list combinators over lists of lists, including the empty ones: an inner
    combinator's verdict on an empty sequence / with no matchers must survive under every parent."""
    M = ML.M
    leaves = [M("Equals", "int", k=1), M("Always", "int"), M("Never", "int")]
    inners = [M("MatchesAny", "list", inner=[]), M("MatchesAll", "list", inner=[], first_only=False),
              M("MatchesListwise", "list", inner=[], first_only=False), M("MatchesSetwise", "list", inner=[], share=False)]
    for lf in leaves:
        inners += [M("AnyMatch", "list", inner=lf), M("AllMatch", "list", inner=lf), M("Not", "list", inner=M("AnyMatch", "list", inner=lf)),
                   M("MatchesAny", "list", inner=[M("AnyMatch", "list", inner=lf)]),
                   M("MatchesListwise", "list", inner=[lf], first_only=False), M("MatchesSetwise", "list", inner=[lf], share=False)]
    inner_values = [[], [0], [1], [0, 1], [1, 1]]
    values = [list(t) for n in range(0, 3) for t in itertools.product(inner_values, repeat=n)]
    for x in inners:
        outers = [M("AllMatch", "list", inner=x), M("AnyMatch", "list", inner=x), M("Not", "list", inner=M("AllMatch", "list", inner=x)),
                  M("MatchesListwise", "list", inner=[x, x], first_only=False), M("MatchesListwise", "list", inner=[x], first_only=True),
                  M("MatchesSetwise", "list", inner=[x, x], share=False), M("MatchesAll", "list", inner=[M("AllMatch", "list", inner=x)], first_only=True),
                  M("Annotate", "list", inner=M("AllMatch", "list", inner=x), note="n", if_message=False)]
        for o in outers:
            for v in values:
                yield {"domain": "list", "matcher": o, "value": v, "fs": None}
        for v in inner_values:
            yield {"domain": "dict", "matcher": M("MatchesDict", "dict", inner={"k": x}), "value": {"k": v}, "fs": None}
            yield {"domain": "dict", "matcher": M("ContainsDict", "dict", inner={"k": x}), "value": {"k": v, "j": [0]}, "fs": None}
            yield {"domain": "obj", "matcher": M("MatchesStructure", "obj", a=x, b=None, update=None), "value": {"a": v, "b": 0}, "fs": None}
            yield {"domain": "list", "matcher": M("AfterPreprocessing", "list", fn="sorted", inner=x, annotate=True), "value": v, "fs": None}


def _enum_dicts():
    """The three dict matchers x expected keys x every small dict, falsy values included (0, "", None are values too)."""
    M = ML.M
    vals = [0, 1]
    keysets = [[], ["a"], ["a", "b"]]
    observed = [{}]
    for ks in (["a"], ["b"], ["a", "b"], ["a", "c"], ["a", "b", "c"], ["c"]):
        for combo in itertools.product(vals, repeat=len(ks)):
            observed.append(dict(zip(ks, combo)))
    for name in ("MatchesDict", "ContainsDict", "ContainedByDict"):
        for ks in keysets:
            for leaf_k in (0, 1):
                inner = {k: M("Equals", "int", k=leaf_k) for k in ks}
                for v in observed:
                    for flavour in ("dict", "defaultdict"):
                        yield {"domain": "dict", "matcher": M(name, "dict", inner=inner), "value": v, "fs": None, "dict_flavour": flavour}
                        yield {"domain": "dict", "matcher": M("Not", "dict", inner=M(name, "dict", inner=inner)), "value": v, "fs": None, "dict_flavour": flavour}


def _enum_one_shot():
    """The sequence matchers that are documented for iterators / 'values', fed one-shot iterators."""
    M = ML.M
    leaves = [M("Equals", "int", k=1), M("LessThan", "int", k=2), M("Always", "int"), M("Never", "int")]
    values = [list(t) for n in range(0, 4) for t in itertools.product([0, 1, 2], repeat=n)]
    trees = []
    for lf in leaves:
        trees += [M("AllMatch", "list", inner=lf), M("AnyMatch", "list", inner=lf), M("Not", "list", inner=M("AllMatch", "list", inner=lf))]
    for n in range(0, 3):
        for combo in itertools.product(leaves, repeat=n):
            trees.append(M("MatchesSetwise", "list", inner=list(combo), share=False))
    for l in ([], [1], [1, 1], [1, 2], [2, 1, 0]):
        trees.append(M("SameMembers", "list", l=l))
    for t in trees:
        for v in values:
            yield {"domain": "list", "matcher": t, "value": v, "fs": None, "list_flavour": "iter"}


def _enum_fs_and_raises():
    """Small exhaustive grids for the sparse corners: filesystem matchers x scratch-directory shapes, and
    Raises/raises x every kind of raised error (incl. non-Exception ones, matched and unmatched)."""
    M = ML.M
    perms = ["0644", "0600", "0755", "1644", "1755", "0777"]
    for mode in ["0644", "0600", "0755", "1644", "1755"]:
        fs = {"file_a": "hello", "file_a_mode": mode, "file_b": "x", "dir_a": ["inner", "x"], "tar_a": ["m1", "d/m3"]}
        for perm in perms:
            for path in ("file_a", "link_a"):
                yield {"domain": "path", "matcher": M("HasPermissions", "path", perm=perm), "value": path, "fs": fs}
                yield {"domain": "path", "matcher": M("Not", "path", inner=M("HasPermissions", "path", perm=perm)), "value": path, "fs": fs}
    fs = {"file_a": "hello\n", "file_a_mode": "0644", "file_b": "hello", "dir_a": ["inner", "y"], "tar_a": ["m2"]}
    leaves = [M("PathExists", "path"), M("DirExists", "path"), M("FileExists", "path"), M("DirContains", "path", filenames=["inner", "y"]),
              M("DirContains", "path", filenames=[]), M("FileContains", "path", contents="hello\n"), M("FileContains", "path", contents="hello"),
              M("SamePath", "path", other="file_a"), M("SamePath", "path", other="dir_a/../file_a"), M("SamePath", "path", other="link_a"),
              M("TarballContains", "path", paths=["m2"]), M("TarballContains", "path", paths=[])]
    fs_later = {"file_a": "hello", "file_a_mode": "0600", "file_b": "hello\n", "dir_a": ["x"], "tar_a": ["m1"]}
    for lf in leaves:
        for path in ML.PATH_NAMES:
            yield {"domain": "path", "matcher": lf, "value": path, "fs": fs}
            yield {"domain": "path", "matcher": lf, "value": path, "fs": fs, "fs2": fs_later}
            yield {"domain": "path", "matcher": lf, "value": path, "fs": fs_later, "fs2": fs}
    raised = ["ValueError", "KeyError", "LookupError", "CustomError", "KeyboardInterrupt", "SystemExit", "CustomBase"]
    expected = raised + ["Exception", "BaseException", "ArithmeticError"]
    callables = [{"ret": 1}] + [{"raise": {"exc": e, "args": ["boom"]}} for e in raised]
    for c in callables:
        yield {"domain": "callable", "matcher": M("Raises", "callable", inner=None), "value": c, "fs": None}
        for e in expected:
            yield {"domain": "callable", "matcher": M("raises", "callable", form="type", exc=e), "value": c, "fs": None}
            yield {"domain": "callable", "matcher": M("Not", "callable", inner=M("raises", "callable", form="type", exc=e)), "value": c, "fs": None}
            yield {"domain": "callable", "matcher": M("Raises", "callable", inner=M("MatchesException", "exc_info", form="type", exc=e, value_re="bo+m")), "value": c, "fs": None}
        yield {"domain": "callable", "matcher": M("Raises", "callable", inner=M("MatchesException", "exc_info", form="tuple", excs=["KeyError", "CustomError"])), "value": c, "fs": None}


def subchecks(tier):
    q = tier == "quick"
    return [
        Sub("random_trees", run_case, s_case(), 4000 if q else 300000),
        Sub("filesystem_and_raises_grid", run_case, enum=_enum_fs_and_raises, enum_complete=True,
            note="HasPermissions x 5 modes x 6 octal strings; 12 filesystem leaves x 9 paths; Raises/raises x 8 callables x 10 expected classes"),
        Sub("nested_combinators_with_empties", run_case, enum=_enum_nested, enum_complete=True,
            note="22 inner list combinators (incl. MatchesAny() / MatchesAll() / AnyMatch on []) under 8 list parents x 31 "
                 "lists of lists, and under MatchesDict / ContainsDict / MatchesStructure / AfterPreprocessing"),
        Sub("dict_matchers_grid", run_case, enum=_enum_dicts, enum_complete=True,
            note="MatchesDict / ContainsDict / ContainedByDict (and their negations) x expected key sets {}, {a}, {a,b} x every dict over "
                 "keys a, b, c with values 0 / 1 (falsy values included), as dict and as defaultdict"),
        Sub("one_shot_iterators", run_case, enum=_enum_one_shot, enum_complete=True,
            note="AllMatch / AnyMatch / Not(AllMatch) / MatchesSetwise (<= 2 leaves) / SameMembers x every list over {0,1,2} of "
                 "length <= 3, handed over as a one-shot iterator"),
        Sub("enumerated_list_combinators", run_case, enum=_enum(2 if q else 3), enum_complete=True,
            note="AllMatch/AnyMatch/Not(AnyMatch)/MatchesSetwise/MatchesListwise over every tuple of <= %d leaves from a "
                 "9-leaf int alphabet x every list over {0,1,2} of length <= 3" % (2 if q else 3)),
    ]
