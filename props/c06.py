"""C06 - matcher verdicts obey their declared semantics compositionally."""
import itertools
import os
import shutil
import stat
import tempfile

from hypothesis import strategies as st

from vp.core import Case, HarnessError, Sub, V
from vp import matchers as ML

PROPERTY = "C06"
RULE = ("Typed matcher-expression trees (depth <= 3 random; depth <= 2 exhaustive over a 9-leaf int alphabet for "
        "the list combinators) built onto the real testtools matchers, with values constructed from the "
        "tree's own domain (ints, strings, bytes, lists, dicts, objects, exc_info tuples, callables, paths in a "
        "per-case scratch directory); match() is compared with a reference predicate written from the "
        "docstrings (MatchesSetwise = maximum bipartite matching, SameMembers = multiset equality, ...); "
        "verdict must repeat on a second call and on a rebuilt matcher, and deep snapshots of matcher and "
        "matchee (for an exc_info tuple also traceback chain, cause / context / notes) must be unchanged. "
        "The same matcher object is then asked about a second, different matchee and must answer what the reference "
        "says for that one. Exhaustive grids back every low-rate corner: DocTestMatches rules (ELLIPSIS, <BLANKLINE>, "
        "True/1, trailing newline, empty example, backslash) on the matching side, empty / repeated leaf arguments, regex "
        "flags S / M / X, Warnings / IsDeprecated x lists of 0-2 warnings and raising callables, tuple / instance forms of "
        "MatchesException, a symbolic link to a directory, directories whose raw listing is not sorted (probed on the "
        "host), and leaves built directly (WarningMessage filename / line, non-bool predicates, IsInstance on bool / float). "
        "Where a docstring admits two readings both verdicts are admitted (see ASSUMPTIONS). "
        "Non-trivial: tree depth >= 2; distinct = distinct canonical (tree, value).")
ASSUMPTIONS = [
    "values come from the matcher's own domain (comparable ints for LessThan/GreaterThan, homogeneous str keys "
    "for dict matchers, objects that have the attributes, paths inside the scratch directory)",
    "DocTestMatches reference implements flags 0 / ELLIPSIS / NORMALIZE_WHITESPACE and the True/1 and "
    "<BLANKLINE> rules of the doctest documentation",
    "filesystem matchers applied to an object of the wrong kind (HasPermissions on a missing path, "
    "TarballContains on a non-tarball, FileContains on a directory) are outside the documented domain: "
    "executed, verdict not asserted",
    "ambiguous docstrings, both readings admitted: WarningMessage(category) - identity of the category (the code) or "
    "issubclass (only Warning itself is a proper superclass in the alphabet); IsDeprecated - exactly one warning in "
    "total and it is a DeprecationWarning (the code) or exactly one DeprecationWarning among the warnings (when a "
    "tree holds both IsDeprecated and Warnings nodes and the two readings differ, the verdict is not asserted)",
    "an ordinary exception (Exception subclass) raised by a callable under Warnings / IsDeprecated: nothing is "
    "documented, so letting exactly that exception escape (the code) and answering with a Mismatch / a verdict are "
    "both admitted; a different exception is not; non-Exception errors must escape unchanged",
    "warnings emitted by match() itself are not observed (cases run under simplefilter('ignore')); interpreter "
    "options that turn them into errors (-W error, -bb, -X warn_default_encoding) are outside the check",
    "environment: Linux (sticky-bit modes 1644 / 1755 on a regular file can be set by its owner; os.symlink "
    "available) and UTF-8 mode (./check pins PYTHONUTF8=1: scratch files hold UTF-8 text, FileContains reads with "
    "the default encoding); the sorted() of DirContains is observable only if the scratch file system lists some "
    "directory out of order - the grid probes for such a directory and falls back to a fixed one",
    "side-effect:matcher-* reports any change of vars(matcher), including a harmless cache; the message says when "
    "every verdict was still the documented one",
    "more docstrings with two readings, both verdicts admitted: MatchesException(instance) / raises(instance) - 'the type "
    "... of the exception' as isinstance of the given exception's class (the code) or as exactly that class; HasPermissions "
    "on a symbolic link - the mode of the file it points to (the code, os.stat) or of the link itself (os.lstat)",
    "only SameMembers documents iterators: a TypeError from AllMatch / AnyMatch / MatchesSetwise handed a one-shot iterator "
    "(an implementation that takes len() first is right on every list, tuple and set) counts as outside the domain; the "
    "verdict, when there is one, is asserted",
    "'modifies neither ... nor the matched value' is read deeply for an exc_info tuple: the exception object's "
    "__traceback__ (identity with the tuple's third item, line numbers and local names along the chain), __cause__, "
    "__context__, __suppress_context__ and __notes__ are part of the value, so a match() that re-raises the exception to "
    "test its type is reported as side-effect:matchee-* although its verdicts are right",
    "the file system is consulted at match() time, not when the matcher is constructed: SamePath's 'the paths do not have "
    "to exist' is read as 'at match time'; a SamePath that resolves its reference path in __init__ answers differently "
    "once the files appear or change and is reported (determinism:built-before-the-files-existed-*, "
    "verdict:stale-after-the-files-changed-*)",
    "bare Raises() and a non-Exception error (KeyboardInterrupt, SystemExit, a BaseException subclass): the class docstring "
    "('Exceptions which are not subclasses of Exception propagate ... unless they are explicitly matched') decides, not the __init__ sentence 'the simple fact of "
    "raising an exception is considered enough to match on'",
    "a scratch file system on which chmod does not leave the requested mode (sticky bit silently dropped) is a harness "
    "error (exit 2), not a verdict",
]


@st.composite
def s_case(draw):
    domain = draw(st.sampled_from(ML.DOMAINS))
    depth = draw(st.sampled_from([2, 3, 1, 2, 0, 3]))
    spec = draw(ML.tree(domain, depth))
    value = draw(ML.VALUES[domain])
    fs = draw(ML.FS) if ML.uses_domain(spec, "path") else None
    fs2 = draw(ML.FS) if fs is not None and draw(st.booleans()) else None       # what the scratch directory holds later on
    list_flavour = "list"
    if domain == "list" and not ML.has_node(spec, lambda n: n.get("d") == "list" and n["m"] in ("Equals", "Is")):
        list_flavour = draw(st.sampled_from(["list", "tuple", "tuple"]))       # a tuple equals no list, and copies of a tuple are the tuple
    out = {"domain": domain, "matcher": spec, "value": value, "fs": fs, "fs2": fs2, "list_flavour": list_flavour,
           "dict_flavour": draw(st.sampled_from(["dict", "dict", "defaultdict", "Counter"])) if domain == "dict" else "dict"}
    out["value2"] = draw(ML.VALUES[domain])         # drawn last: the same matcher object is asked about another matchee afterwards
    return out


class Env6(ML.Env):
    """The scratch directory of vp.matchers plus, when the fs spec says so, a symbolic link to a directory."""

    def populate(self):
        ML.Env.populate(self)
        if self.fs is not None and self.fs.get("link_dir"):
            os.symlink("dir_a", self.path("link_dir"))
        if self.fs is not None:
            # an OS / file system that silently drops mode bits (the sticky bit of a regular file) is a harness problem
            got = stat.S_IMODE(os.stat(self.path("file_a")).st_mode)
            if got != int(self.fs["file_a_mode"], 8):
                raise HarnessError("scratch file system: chmod(file_a, %s) left mode %04o" % (self.fs["file_a_mode"], got))


def _rewrite(spec, fn):
    """A copy of the matcher spec with ``fn`` applied to every node (children first)."""
    def walk(x):
        if isinstance(x, dict) and "m" in x:
            return fn({k: walk(v) for k, v in x.items()})
        if isinstance(x, dict):
            return {k: walk(v) for k, v in x.items()}
        if isinstance(x, list):
            return [walk(v) for v in x]
        return x
    return walk(spec)


def _deref(name):
    """link_dir is a symbolic link to dir_a: every filesystem matcher follows it, so the reference sees dir_a."""
    return name.replace("link_dir", "dir_a") if isinstance(name, str) else name


def _readings(ms, value, domain, env=None):
    """The (spec, value) pairs under which the documented predicate can defensibly be read; None when the
    readings cannot be told apart by rewriting (verdict not asserted).  The first one is what the code does today.
    - WarningMessage(category): 'a warning type' - identity of the category, or (as the warnings module and
      pytest.warns read it) membership: only Warning itself is a proper superclass in the alphabet.
    - IsDeprecated: 'produces exactly one DeprecationWarning' - exactly one warning which is a DeprecationWarning, or
      exactly one DeprecationWarning among the warnings.
    - MatchesException(instance): 'the type and arguments of the exception are checked' - the exception is an
      instance of the given one's class (the code), or its type is exactly that class.
    - HasPermissions on a symbolic link: 'a file has the given permissions' - those of the file the link points
      to (the code), or those of the link itself."""
    out = [(ms, value)]
    raised = value if domain == "exc_info" else (value.get("raise") if domain == "callable" and isinstance(value, dict) else None)
    if isinstance(raised, dict) and "exc" in raised:
        other_type = lambda n: n["m"] in ("MatchesException", "raises") and n.get("form") == "instance" and n["inst"]["exc"] != raised["exc"]
        never = lambda n: ML.M("Never", "exc_info") if n["m"] == "MatchesException" else ML.M("Raises", "callable", inner=ML.M("Never", "exc_info"))
        if ML.has_node(ms, other_type):
            out.append((_rewrite(ms, lambda n: never(n) if other_type(n) else n), value))
    if domain == "path" and value == "link_a" and env is not None and env.root and ML.has_node(ms, lambda n: n["m"] == "HasPermissions"):
        try:
            own = "%04o" % stat.S_IMODE(os.lstat(env.path(value)).st_mode)
        except OSError:
            return None
        out.append((_rewrite(ms, lambda n: ML.M("Always" if n["perm"] == own else "Never", "path") if n["m"] == "HasPermissions" else n), value))
    if domain == "warning" and ML.has_node(ms, lambda n: n["m"] == "WarningMessage" and n.get("cat") == "Warning"):
        out.append((_rewrite(ms, lambda n: dict(n, cat=value["cat"]) if n["m"] == "WarningMessage" and n.get("cat") == "Warning" else n), value))
    if domain == "callable" and isinstance(value, dict) and ML.has_node(ms, lambda n: n["m"] == "IsDeprecated"):
        w = value.get("warn") or []
        dep = [x for x in w if x[0] == "DeprecationWarning"]
        if len(w) > 1 and len(dep) == 1:
            if ML.has_node(ms, lambda n: n["m"] == "Warnings"):
                return None
            out.append((ms, dict(value, warn=dep)))
    if domain == "path":
        out = [(_rewrite(s, lambda n: dict(n, other=_deref(n["other"])) if n["m"] == "SamePath" else n), _deref(v)) for s, v in out]
    return out


def _admitted(ms, value, domain, env):
    """(primary, admitted): the verdict under the first reading (or a Propagates), and the set of verdicts
    the documentation admits (None: not asserted)."""
    rs = _readings(ms, value, domain, env)
    verdicts = []
    for s, v in (rs if rs is not None else [(ms, value)]):
        try:
            verdicts.append(bool(ML.ref(s, v, env)))
        except ML.Propagates as p:
            if not verdicts:
                return p, None
            return verdicts[0], None        # a verdict under one reading, an escaping error under another: not asserted
    return verdicts[0], (set(verdicts) if rs is not None else None)


def _snap_value(domain, live):
    """Snapshot of the matchee; for an exc_info tuple also the state the exception object carries besides its
    args: traceback chain (line numbers, names of the frames' locals), cause / context / notes."""
    out = ML.snapshot(live)
    if domain == "exc_info" and isinstance(live, tuple) and len(live) == 3 and isinstance(live[1], BaseException):
        e, tb, chain = live[1], live[2], []
        while tb is not None:
            chain.append((tb.tb_lineno, sorted(tb.tb_frame.f_locals)))
            tb = tb.tb_next
        out += " state=%r" % ((e.__traceback__ is live[2], chain, repr(e.__cause__), repr(e.__context__), e.__suppress_context__,
                               list(getattr(e, "__notes__", ()))),)
    return out


def run_case(spec):
    import warnings
    with warnings.catch_warnings():
        warnings.simplefilter("ignore")
        return _run_case(spec)


def _run_case(spec):
    vs = []
    domain, ms, value = spec["domain"], spec["matcher"], spec["value"]
    with Env6(spec.get("fs"), defer=True) as env:
        env.dict_flavour = spec.get("dict_flavour", "dict")      # dict subclasses with __missing__ are dicts too
        env.list_flavour = spec.get("list_flavour", "list")
        # a matcher constructed while the scratch directory is still empty: what it says later depends on the
        # file system at match time, not at construction time
        early = ML.build(ms, env) if spec.get("fs") is not None else None
        env.populate()
        want, admitted = _admitted(ms, value, domain, env)
        top = ms["m"]
        if isinstance(want, ML.Propagates) and want.exc_name not in ML.EXC_CLASSES:
            # outside the documented domain: run it, assert nothing about the verdict
            try:
                ML.build(ms, env).match(ML.live_value(domain, value, env))
            except (MemoryError, RecursionError):
                raise
            except BaseException:
                pass
            return Case([], False, ["undefined-domain"])
        matcher = ML.build(ms, env)
        live = ML.live_value(domain, value, env)
        snap_m = ML.snapshot(matcher)
        snap_v = _snap_value(domain, live) if domain not in ("callable",) else None

        def do(m, lv):
            try:
                return ("verdict", m.match(lv))
            except BaseException as e:
                if isinstance(e, (MemoryError, RecursionError)):
                    raise
                return ("raised", e)
        kind, res = do(matcher, live)
        if env.list_flavour == "iter":
            live = ML.live_value(domain, value, env)         # the first match() has used the iterator up: a fresh one for the second
        if isinstance(want, ML.Propagates):
            # Raises documents that a non-Exception error it was not asked about escapes.  For an ordinary exception
            # raised by a callable handed to Warnings / IsDeprecated nothing is documented: letting it escape (what
            # the code does) and answering with a Mismatch are both admitted, a different exception is not.
            ordinary = issubclass(ML.EXC_CLASSES[want.exc_name], Exception)
            if kind == "raised" and type(res).__name__ == want.exc_name:
                pass
            elif ordinary and kind == "verdict":
                if res is not None and not (hasattr(res, "describe") and hasattr(res, "get_details")):
                    vs.append(V("mismatch-protocol", top, "match() returned %r which is not a Mismatch" % (res,)))
            else:
                vs.append(V("propagation", top, "%s: a %s raised by the matchee should propagate, got %s %r" % (
                    top, want.exc_name, kind, res)))
            return Case(vs, ML.depth_of(ms) >= 2, ["propagates"])
        if kind == "raised":
            if env.list_flavour == "iter" and isinstance(res, TypeError) and not ML.has_node(ms, lambda n: n["m"] == "SameMembers"):
                # only SameMembers documents iterators; a combinator that wants a sized / re-iterable collection
                # (len() first) is right on every list, tuple and set
                return Case([], False, ["undefined-domain"])
            vs.append(V("raises", "%s-%s" % (top, type(res).__name__), "match(%r) raised %r for %r" % (value, res, ms)))
            return Case(vs, ML.depth_of(ms) >= 2, ["raised"])
        got = res is None
        if admitted is not None and got not in admitted:
            vs.append(V("verdict", top, "%s.match(%r) %s, documented predicate says %s; matcher spec %r" % (
                top, value, "matched" if got else "mismatched", "match" if want else "mismatch", ms)))
        if res is not None:
            if not (hasattr(res, "describe") and hasattr(res, "get_details")):
                vs.append(V("mismatch-protocol", top, "match() returned %r which is not a Mismatch" % (res,)))
        # determinism: same object again, and a structurally equal fresh matcher
        k2, r2 = do(matcher, live)
        if (k2, r2 is None) != (kind, got):
            vs.append(V("determinism", "second-call-" + top, "second match() call gives a different verdict"))
        m3 = ML.build(ms, env)
        k3, r3 = do(m3, ML.live_value(domain, value, env))
        if (k3, r3 is None) != (kind, got):
            vs.append(V("determinism", "rebuilt-" + top, "a rebuilt, structurally equal matcher gives a different verdict"))
        if early is not None:
            k4, r4 = do(early, ML.live_value(domain, value, env))
            if (k4, r4 is None) != (kind, got):
                vs.append(V("determinism", "built-before-the-files-existed-" + top,
                            "a structurally equal matcher constructed before the files were created gives a different verdict"))
        if spec.get("value2") is not None and not vs:
            # the very same matcher object is asked about another matchee: what it says must not depend on what it saw before
            value2 = spec["value2"]
            wantb, admittedb = _admitted(ms, value2, domain, env)
            if not isinstance(wantb, ML.Propagates) and admittedb is not None:
                kb, rb = do(matcher, ML.live_value(domain, value2, env))
                if kb != "verdict" or (rb is None) not in admittedb:
                    vs.append(V("verdict", "after-another-matchee-" + top, "%s: after match(%r), the same matcher object says %s for %r, the documented predicate says %s; matcher spec %r" % (
                        top, value, "match" if kb == "verdict" and rb is None else ("mismatch" if kb == "verdict" else "raised %r" % (rb,)), value2, "match" if wantb else "mismatch", ms)))
        if spec.get("fs2") is not None and not vs:
            # the files change; the very same matcher object (and the one built before any file existed) is asked again
            env.repopulate(spec["fs2"])
            want2, admitted2 = _admitted(ms, value, domain, env)
            if not isinstance(want2, ML.Propagates) and admitted2 is not None:
                for who, mm in (("same-matcher", matcher), ("early-matcher", early)):
                    k5, r5 = do(mm, ML.live_value(domain, value, env))
                    if k5 != "verdict" or (r5 is None) not in admitted2:
                        vs.append(V("verdict", "stale-after-the-files-changed-" + top, "%s: after the scratch directory changed from %r to %r, match(%r) says %s, the documented predicate says %s" % (
                            who, spec["fs"], spec["fs2"], value, "match" if k5 == "verdict" and r5 is None else (k5 if k5 != "verdict" else "mismatch"), "match" if want2 else "mismatch")))
                        break
            snap_m = ML.snapshot(matcher)
        unaffected = "" if vs else " (every verdict was the documented one: only the 'modifies neither the matcher nor the matched value' clause is concerned)"
        if ML.snapshot(matcher) != snap_m:
            vs.append(V("side-effect", "matcher-" + top, "match() modified the matcher: %s -> %s%s" % (snap_m[:300], ML.snapshot(matcher)[:300], unaffected)))
        if snap_v is not None and _snap_value(domain, live) != snap_v:
            vs.append(V("side-effect", "matchee-" + top, "match() modified the matchee: %s -> %s%s" % (snap_v[:300], _snap_value(domain, live)[:300], unaffected)))
    d = ML.depth_of(ms)
    return Case(vs, d >= 2, ["domain=" + domain, "depth=%d" % d, "top=" + top, "match" if want else "mismatch"],
                {"verdict": "match" if got else "mismatch"})


def _enum(max_leaves):
    leaves = [ML.M("Equals", "int", k=0), ML.M("Equals", "int", k=1), ML.M("Equals", "int", k=2),
              ML.M("LessThan", "int", k=1), ML.M("GreaterThan", "int", k=1), ML.M("NotEquals", "int", k=1),
              ML.M("Always", "int"), ML.M("Never", "int"), ML.M("MatchesPredicate", "int")]
    values = [list(t) for n in range(0, 4) for t in itertools.product([0, 1, 2], repeat=n)]

    def gen():
        trees = []
        for lf in leaves:
            trees.append(ML.M("AllMatch", "list", inner=lf))
            trees.append(ML.M("AnyMatch", "list", inner=lf))
            trees.append(ML.M("Not", "list", inner=ML.M("AnyMatch", "list", inner=lf)))
        for n in range(0, max_leaves + 1):
            for combo in itertools.product(leaves, repeat=n):
                trees.append(ML.M("MatchesSetwise", "list", inner=list(combo), share=False))
                trees.append(ML.M("MatchesListwise", "list", inner=list(combo), first_only=False))
                if n == 2:
                    trees.append(ML.M("MatchesSetwise", "list", inner=list(combo), share=True))
                    trees.append(ML.M("MatchesListwise", "list", inner=list(combo), first_only=True))
        for t in trees:
            for v in values:
                yield {"domain": "list", "matcher": t, "value": v, "fs": None}
    return gen


def _enum_nested():
    """Every (outer, inner) pair of list combinators over lists of lists, including the empty ones: an inner
    combinator's verdict on an empty sequence / with no matchers must survive under every parent."""
    M = ML.M
    leaves = [M("Equals", "int", k=1), M("Always", "int"), M("Never", "int")]
    inners = [M("MatchesAny", "list", inner=[]), M("MatchesAll", "list", inner=[], first_only=False),
              M("MatchesListwise", "list", inner=[], first_only=False), M("MatchesSetwise", "list", inner=[], share=False)]
    for lf in leaves:
        inners += [M("AnyMatch", "list", inner=lf), M("AllMatch", "list", inner=lf), M("Not", "list", inner=M("AnyMatch", "list", inner=lf)),
                   M("MatchesAny", "list", inner=[M("AnyMatch", "list", inner=lf)]),
                   M("MatchesListwise", "list", inner=[lf], first_only=False), M("MatchesSetwise", "list", inner=[lf], share=False)]
    inner_values = [[], [0], [1], [0, 1], [1, 1]]
    values = [list(t) for n in range(0, 3) for t in itertools.product(inner_values, repeat=n)]
    for x in inners:
        outers = [M("AllMatch", "list", inner=x), M("AnyMatch", "list", inner=x), M("Not", "list", inner=M("AllMatch", "list", inner=x)),
                  M("MatchesListwise", "list", inner=[x, x], first_only=False), M("MatchesListwise", "list", inner=[x], first_only=True),
                  M("MatchesSetwise", "list", inner=[x, x], share=False), M("MatchesAll", "list", inner=[M("AllMatch", "list", inner=x)], first_only=True),
                  M("Annotate", "list", inner=M("AllMatch", "list", inner=x), note="n", if_message=False)]
        for o in outers:
            for v in values:
                yield {"domain": "list", "matcher": o, "value": v, "fs": None}
        for v in inner_values:
            yield {"domain": "dict", "matcher": M("MatchesDict", "dict", inner={"k": x}), "value": {"k": v}, "fs": None}
            yield {"domain": "dict", "matcher": M("ContainsDict", "dict", inner={"k": x}), "value": {"k": v, "j": [0]}, "fs": None}
            yield {"domain": "obj", "matcher": M("MatchesStructure", "obj", a=x, b=None, update=None), "value": {"a": v, "b": 0}, "fs": None}
            yield {"domain": "list", "matcher": M("AfterPreprocessing", "list", fn="sorted", inner=x, annotate=True), "value": v, "fs": None}


def _enum_dicts():
    """The three dict matchers x expected keys x every small dict, falsy values included (0, "", None are values too)."""
    M = ML.M
    vals = [0, 1]
    keysets = [[], ["a"], ["a", "b"]]
    observed = [{}]
    for ks in (["a"], ["b"], ["a", "b"], ["a", "c"], ["a", "b", "c"], ["c"]):
        for combo in itertools.product(vals, repeat=len(ks)):
            observed.append(dict(zip(ks, combo)))
    for name in ("MatchesDict", "ContainsDict", "ContainedByDict"):
        for ks in keysets:
            for leaf_k in (0, 1):
                inner = {k: M("Equals", "int", k=leaf_k) for k in ks}
                for v in observed:
                    for flavour in ("dict", "defaultdict"):
                        yield {"domain": "dict", "matcher": M(name, "dict", inner=inner), "value": v, "fs": None, "dict_flavour": flavour}
                        yield {"domain": "dict", "matcher": M("Not", "dict", inner=M(name, "dict", inner=inner)), "value": v, "fs": None, "dict_flavour": flavour}


def _enum_one_shot():
    """The sequence matchers that speak of 'values' (only SameMembers names iterators), fed one-shot iterators: a
    verdict must be the documented one, a TypeError (len() of an iterator) is outside the domain except for SameMembers."""
    M = ML.M
    leaves = [M("Equals", "int", k=1), M("LessThan", "int", k=2), M("Always", "int"), M("Never", "int")]
    values = [list(t) for n in range(0, 4) for t in itertools.product([0, 1, 2], repeat=n)]
    trees = []
    for lf in leaves:
        trees += [M("AllMatch", "list", inner=lf), M("AnyMatch", "list", inner=lf), M("Not", "list", inner=M("AllMatch", "list", inner=lf))]
    for n in range(0, 3):
        for combo in itertools.product(leaves, repeat=n):
            trees.append(M("MatchesSetwise", "list", inner=list(combo), share=False))
    for l in ([], [1], [1, 1], [1, 2], [2, 1, 0]):
        trees.append(M("SameMembers", "list", l=l))
    for t in trees:
        for v in values:
            yield {"domain": "list", "matcher": t, "value": v, "fs": None, "list_flavour": "iter"}


_DIR_SHAPES = [["inner", "x"], ["x", "inner"], ["inner", "x", "y"], ["y", "x", "inner"]]
_PROBED = []


def _unsorted_dir_shape():
    """A list of file names which, created in that order in the scratch file system, os.listdir() does NOT return
    in sorted order (so that the sorted() of DirContains is observable whatever the host file system does: hash
    order on ext4, creation order on tmpfs, sorted on some others).  Deterministic for a given file system; the
    fallback keeps the number of cases the same."""
    if _PROBED:
        return _PROBED[0]
    pool = ["inner", "x", "y", "a", "b", "c", "d", "e", "f", "g", "h"]
    cands = [list(c) for n in (2, 3) for c in itertools.permutations(pool[:6], n)]
    cands += [pool, pool[::-1]]
    base = os.path.join(ML.VERIF, ".work")
    os.makedirs(base, exist_ok=True)
    found = None
    for names in cands:
        d = tempfile.mkdtemp(prefix="probe-", dir=base)
        try:
            for n in names:
                with open(os.path.join(d, n), "w"):
                    pass
            listing = os.listdir(d)
        finally:
            shutil.rmtree(d, ignore_errors=True)
        if listing != sorted(listing):
            found = names
            break
    _PROBED.append(found or ["inner", "y", "x"])
    return _PROBED[0]


def _enum_fs_and_raises():
    """Small exhaustive grids for the sparse corners: filesystem matchers x scratch-directory shapes (with a
    symbolic link to a directory, and directories whose raw listing is not sorted), and Raises/raises x every kind
    of raised error (incl. non-Exception ones, matched and unmatched; tuple forms naming a superclass)."""
    M = ML.M
    perms = ["0644", "0600", "0755", "1644", "1755", "0777"]
    for mode in ["0644", "0600", "0755", "1644", "1755"]:
        fs = {"file_a": "hello", "file_a_mode": mode, "file_b": "x", "dir_a": ["inner", "x"], "tar_a": ["m1", "d/m3"]}
        for perm in perms:
            for path in ("file_a", "link_a"):
                yield {"domain": "path", "matcher": M("HasPermissions", "path", perm=perm), "value": path, "fs": fs}
                yield {"domain": "path", "matcher": M("Not", "path", inner=M("HasPermissions", "path", perm=perm)), "value": path, "fs": fs}
    fs = {"file_a": "hello\n", "file_a_mode": "0644", "file_b": "hello", "dir_a": ["inner", "y"], "tar_a": ["m2"], "link_dir": True}
    leaves = [M("PathExists", "path"), M("DirExists", "path"), M("FileExists", "path"), M("DirContains", "path", filenames=["inner", "y"]),
              M("DirContains", "path", filenames=[]), M("FileContains", "path", contents="hello\n"), M("FileContains", "path", contents="hello"),
              M("SamePath", "path", other="file_a"), M("SamePath", "path", other="dir_a/../file_a"), M("SamePath", "path", other="link_a"),
              M("SamePath", "path", other="dir_a"), M("SamePath", "path", other="link_dir"), M("SamePath", "path", other="link_dir/inner"),
              M("TarballContains", "path", paths=["m2"]), M("TarballContains", "path", paths=[])]
    fs_later = {"file_a": "hello", "file_a_mode": "0600", "file_b": "hello\n", "dir_a": ["x"], "tar_a": ["m1"], "link_dir": True}
    for lf in leaves:
        for path in ML.PATH_NAMES + ["link_dir", "link_dir/inner"]:
            yield {"domain": "path", "matcher": lf, "value": path, "fs": fs}
            yield {"domain": "path", "matcher": lf, "value": path, "fs": fs, "fs2": fs_later}
            yield {"domain": "path", "matcher": lf, "value": path, "fs": fs_later, "fs2": fs}
    # the directory listing is matched SORTED, in the filenames form and in the matcher form alike
    for shape in _DIR_SHAPES + [_unsorted_dir_shape()]:
        fs = {"file_a": "", "file_a_mode": "0644", "file_b": "x", "dir_a": shape, "tar_a": [], "link_dir": True}
        up = sorted(shape)
        down = up[::-1]
        dleaves = [M("DirContains", "path", filenames=up), M("DirContains", "path", filenames=down), M("DirContains", "path", filenames=up[:-1]),
                   M("DirContains", "path", matcher=M("Equals", "list", l=up)), M("DirContains", "path", matcher=M("Equals", "list", l=down)),
                   M("DirContains", "path", matcher=M("MatchesListwise", "list", inner=[M("Equals", "str", s=n) for n in up], first_only=False)),
                   M("DirContains", "path", matcher=M("AfterPreprocessing", "list", fn="len", inner=M("Equals", "int", k=len(up)), annotate=False))]
        for lf in dleaves:
            for path in ("dir_a", "link_dir", "dir_empty"):
                yield {"domain": "path", "matcher": lf, "value": path, "fs": fs, "value2": "dir_empty" if path != "dir_empty" else "dir_a"}
                yield {"domain": "path", "matcher": M("Not", "path", inner=lf), "value": path, "fs": fs}
    raised = ["ValueError", "KeyError", "LookupError", "CustomError", "KeyboardInterrupt", "SystemExit", "CustomBase"]
    expected = raised + ["Exception", "BaseException", "ArithmeticError"]
    callables = [{"ret": 1}] + [{"raise": {"exc": e, "args": ["boom"]}} for e in raised]
    tuples = [["KeyError", "CustomError"], ["LookupError"], ["Exception", "KeyError"], ["ArithmeticError", "LookupError"], ["BaseException"]]
    for c in callables:
        yield {"domain": "callable", "matcher": M("Raises", "callable", inner=None), "value": c, "fs": None}
        for e in expected:
            yield {"domain": "callable", "matcher": M("raises", "callable", form="type", exc=e), "value": c, "fs": None}
            yield {"domain": "callable", "matcher": M("Not", "callable", inner=M("raises", "callable", form="type", exc=e)), "value": c, "fs": None}
            yield {"domain": "callable", "matcher": M("Raises", "callable", inner=M("MatchesException", "exc_info", form="type", exc=e, value_re="bo+m")), "value": c, "fs": None}
        for t in tuples:
            yield {"domain": "callable", "matcher": M("Raises", "callable", inner=M("MatchesException", "exc_info", form="tuple", excs=t)), "value": c, "fs": None}
    for e in ["ValueError", "KeyError", "LookupError", "ZeroDivisionError", "CustomError", "RuntimeError"]:
        for t in tuples[:4]:
            yield {"domain": "exc_info", "matcher": M("MatchesException", "exc_info", form="tuple", excs=t), "value": {"exc": e, "args": ["boom"]}, "fs": None}
            yield {"domain": "exc_info", "matcher": M("Not", "exc_info", inner=M("MatchesException", "exc_info", form="tuple", excs=t)), "value": {"exc": e, "args": ["boom"]}, "fs": None}
        # the instance form compares type and args: args that differ only by type are different args
        for args, vargs in (([1], ["1"]), (["1"], [1]), ([1], [1]), ([], [""]), (["boom", 2], ["boom", 2]), (["boom", 2], ["boom", "2"])):
            yield {"domain": "exc_info", "matcher": M("MatchesException", "exc_info", form="instance", inst={"exc": "ValueError", "args": args}),
                   "value": {"exc": e, "args": vargs}, "fs": None}


def _enum_doctest():
    """DocTestMatches: every rule of the doctest documentation decides at least once, on the matching side too."""
    M = ML.M
    examples = ML.DOC_EXAMPLES + ["a\n", "a b\n", "", "\\xe9", "a...a", "a\n..."]
    values = ["", "a", "a b", "a  b", "a\nb", "a\n\nb", "a \n\nb", "aXb", "ab", "a...b", "True", "1", "False", "0", "<BLANKLINE>",
              "é", "\\xe9", "a\n", "a b\n", "a\n  \nb", "aa", "a\nx"]
    for ex in examples:
        for fl in ML.DOC_FLAGS:
            for i, v in enumerate(values):
                m = M("DocTestMatches", "str", ex=ex, flags=fl)
                yield {"domain": "str", "matcher": m, "value": v, "fs": None, "value2": values[(i + 7) % len(values)]}
                yield {"domain": "str", "matcher": M("Not", "str", inner=m), "value": v, "fs": None}


def _enum_leaves_and_warnings():
    """Leaf semantics that random sampling meets in fewer than one case in a thousand, and Warnings / IsDeprecated x
    every short list of warnings."""
    import re
    M = ML.M

    def both(domain, m, values):
        for i, v in enumerate(values):
            yield {"domain": domain, "matcher": m, "value": v, "fs": None, "value2": values[(i + 1) % len(values)]}
            yield {"domain": domain, "matcher": M("Not", domain, inner=m), "value": v, "fs": None}
    strs = ["", "a", "b", "ab", "a b", "a\nb", "aXb", "ba", "b\na", "A\nB"]
    for s_ in ("", "a", "b", "ab", "a\nb"):
        for name in ("StartsWith", "EndsWith", "Contains", "Equals", "NotEquals"):
            yield from both("str", M(name, "str", s=s_), strs)
    for p_ in ("a.b", ".*b$", "^b", "a$", "a b", "a.*b", "A"):
        for fl in (0, re.S, re.M, re.X, re.I, re.S | re.M, re.I | re.S):
            yield from both("str", M("MatchesRegex", "str", p=p_, flags=fl), strs)
        yield from both("str", M("MatchesRegex", "str", p=p_, flags=0, compiled=True), strs)
    byts = [b"", b"a", b"ab", b"ba", b"\xff", b"a\xff"]
    for s_ in (b"", b"a", b"\xff"):
        for name in ("StartsWith", "EndsWith", "Contains", "Equals"):
            yield from both("bytes", M(name, "bytes", s=s_), byts)
    lists = [[], [0], [1], [1, 1], [0, 1], [1, 0], [1, 1, 0], [1, 0, 0], [1, 2], [2, 1, 1]]
    for l in ([], [1], [1, 1], [0, 1], [1, 1, 0], [1, 1, 2]):
        for name in ("ContainsAll", "SameMembers", "Equals"):
            yield from both("list", M(name, "list", l=l), lists)
    for n in (0, 1, 2):
        yield from both("list", M("HasLength", "list", n=n), lists)
        yield from both("list", M("Contains", "list", k=n), lists)
        # a preprocessor runs on every matchee: nothing of an earlier matchee may be kept
        for fn in ("len", "sum"):
            yield from both("list", M("AfterPreprocessing", "list", fn=fn, inner=M("Equals", "int", k=n), annotate=True), lists)
        yield from both("str", M("AfterPreprocessing", "str", fn="len", inner=M("Equals", "int", k=n), annotate=False), strs)
        yield from both("str", M("HasLength", "str", n=n), strs)
    for a in (0, 1):
        yield from both("obj", M("AfterPreprocessing", "obj", fn="attr_a", inner=M("Equals", "int", k=a), annotate=True), [{"a": 0, "b": 0}, {"a": 1, "b": 0}, {"a": 0, "b": 1}])
        yield from both("obj", M("MatchesStructure", "obj", a=M("Equals", "int", k=a), b=None, update=None), [{"a": 0, "b": 0}, {"a": 1, "b": 0}, {"a": 0, "b": 1}])
    D, U = "DeprecationWarning", "UserWarning"
    warns = [[], [[D, "old"]], [[D, "old"], [D, "old"]], [[D, "old"], [D, "use bar"]], [[U, "old"]], [[D, "old"], [U, "old"]], [[U, "old"], [D, "old"]],
             [[U, "old"], [U, "old"]], [[D, "use bar"]]]
    wm = [M("Warnings", "callable", inner=None)]
    wm += [M("Warnings", "callable", inner=M("AfterPreprocessing", "list", fn="len", inner=M("Equals", "int", k=k), annotate=True)) for k in (0, 1, 2)]
    wm += [M("IsDeprecated", "callable", inner=M("Always", "str")), M("IsDeprecated", "callable", inner=M("Equals", "str", s="old")),
           M("IsDeprecated", "callable", inner=M("StartsWith", "str", s="use")), M("IsDeprecated", "callable", inner=M("Never", "str"))]
    raising = [{"raise": {"exc": e, "args": ["x"]}} for e in ("ValueError", "KeyError", "KeyboardInterrupt", "SystemExit", "CustomBase")]
    raising += [{"warn": [[D, "old"]], "ret": 0, "raise": {"exc": "ValueError", "args": ["x"]}}, {"warn": [[D, "old"]], "ret": 0, "raise": {"exc": "CustomBase", "args": ["x"]}}]
    for m in wm:
        yield from both("callable", m, [{"warn": w, "ret": 0} for w in warns])
        yield from both("callable", m, raising)


_PREDICATES = {
    # name: (predicate, truth of its result) - "interpreted as a boolean": results that are truthy / falsy without being True / False
    "remainder3": (lambda x: x % 3, lambda x: x % 3 != 0),
    "none_unless_big": (lambda x: None if x < 2 else x, lambda x: x >= 2),
    "list_of_divisors": (lambda x: [d for d in (2, 3) if x % d == 0], lambda x: x % 2 == 0 or x % 3 == 0),
    "text": (lambda x: "x" * x, lambda x: x > 0),
    "is_even": (lambda x: x % 2 == 0, lambda x: x % 2 == 0),
}
_TYPES = {"int": int, "bool": bool, "float": float, "str": str, "int|str": int | str, "NoneType": type(None)}
_INSTANCES = {"True": True, "1": 1, "1.0": 1.0, "a": "a", "None": None, "0": 0, "False": False}


def _enum_direct():
    """Leaves outside the spec language of vp.matchers: WarningMessage(filename=, line=), MatchesPredicate with a
    predicate whose result is truthy / falsy but not a bool, IsInstance on instances of subclasses (bool is an int)."""
    for cat in ("DeprecationWarning", "UserWarning"):
        for fn in (None, "somefile.py", "other.py"):
            for line in (None, "x = 1", "y = 2"):
                for ln in (None, 3, 4):
                    for vline in ("x = 1", None):
                        yield {"direct": "WarningMessage", "cat": cat, "filename": fn, "line": line, "lineno": ln,
                               "value": {"cat": "DeprecationWarning", "msg": "old", "filename": "somefile.py", "lineno": 3, "line": vline}}
    for name in sorted(_PREDICATES):
        for x in range(0, 7):
            yield {"direct": "MatchesPredicate", "pred": name, "value": x}
    for types in (["int"], ["bool"], ["float"], ["str", "int"], ["int|str"], ["NoneType"], ["bool", "float"]):
        for v in sorted(_INSTANCES):
            yield {"direct": "IsInstance", "types": types, "value": v}


def run_direct(spec):
    import warnings
    import testtools.matchers as tm
    kind, v = spec["direct"], spec["value"]
    if kind == "WarningMessage":
        kw = {k: tm.Equals(spec[k]) for k in ("filename", "line", "lineno") if spec[k] is not None}
        build = lambda: tm.WarningMessage(ML.WARN_CLASSES[spec["cat"]], **kw)
        live = lambda: warnings.WarningMessage(message=ML.WARN_CLASSES[v["cat"]](v["msg"]), category=ML.WARN_CLASSES[v["cat"]],
                                               filename=v["filename"], lineno=v["lineno"], line=v["line"])
        want = spec["cat"] == v["cat"] and all(spec[k] is None or spec[k] == v[k] for k in ("filename", "line", "lineno"))
    elif kind == "MatchesPredicate":
        pred, truth = _PREDICATES[spec["pred"]]
        build = lambda: tm.MatchesPredicate(pred, "%s is not accepted")
        live = lambda: v
        want = bool(truth(v))
    else:
        build = lambda: tm.IsInstance(*[_TYPES[t] for t in spec["types"]])
        live = lambda: _INSTANCES[v]
        want = isinstance(_INSTANCES[v], tuple(_TYPES[t] for t in spec["types"]))
    vs = []
    m = build()
    snap = ML.snapshot(m)
    seen = []
    for who, mm in (("first call", m), ("second call", m), ("rebuilt matcher", build())):
        try:
            with warnings.catch_warnings():
                warnings.simplefilter("ignore")
                r = mm.match(live())
        except (MemoryError, RecursionError):
            raise
        except BaseException as e:
            vs.append(V("raises", "%s-%s" % (kind, type(e).__name__), "%s: match() raised %r for %r" % (who, e, spec)))
            break
        if r is not None and not (hasattr(r, "describe") and hasattr(r, "get_details")):
            vs.append(V("mismatch-protocol", kind, "match() returned %r which is not a Mismatch" % (r,)))
        seen.append(r is None)
    if seen and seen[0] != want:
        vs.append(V("verdict", kind, "%s %s, documented predicate says %s; spec %r" % (
            kind, "matched" if seen[0] else "mismatched", "match" if want else "mismatch", spec)))
    elif len(set(seen)) > 1:
        vs.append(V("determinism", "second-call-" + kind, "verdicts of first call / second call / rebuilt matcher differ: %r; spec %r" % (seen, spec)))
    if not vs and ML.snapshot(m) != snap:
        vs.append(V("side-effect", "matcher-" + kind, "match() modified the matcher: %s -> %s (the verdicts were the documented ones)" % (snap[:300], ML.snapshot(m)[:300])))
    return Case(vs, False, ["direct=" + kind, "match" if want else "mismatch"], {"verdict": "match" if seen and seen[0] else "mismatch"})


def subchecks(tier):
    q = tier == "quick"
    return [
        Sub("random_trees", run_case, s_case(), 4000 if q else 300000),
        Sub("filesystem_and_raises_grid", run_case, enum=_enum_fs_and_raises, enum_complete=True,
            note="HasPermissions x 5 modes x 6 octal strings; 15 filesystem leaves x 11 paths (one of them a symbolic link to a directory); "
                 "DirContains (filenames and matcher form) x 5 directories, one of them probed so that its raw listing is not sorted; "
                 "Raises/raises x 8 callables x 10 expected classes and 5 tuples of classes; MatchesException tuple / instance forms"),
        Sub("doctest_rules_grid", run_case, enum=_enum_doctest, enum_complete=True,
            note="DocTestMatches: 18 examples (empty, trailing newline, backslash, ellipsis, <BLANKLINE>, True/1) x 4 flag "
                 "combinations x 22 values, plain and negated"),
        Sub("leaf_and_warnings_grid", run_case, enum=_enum_leaves_and_warnings, enum_complete=True,
            note="string / bytes / list leaves with empty and repeated arguments, MatchesRegex x 7 patterns x 7 flag sets, "
                 "AfterPreprocessing asked about two different matchees in a row, Warnings / IsDeprecated x 9 lists of warnings"),
        Sub("direct_leaf_grid", run_direct, enum=_enum_direct, enum_complete=True,
            note="WarningMessage x filename / line / lineno matchers; MatchesPredicate x 5 predicates (4 of them returning non-bool "
                 "truthy / falsy results) x 0..6; IsInstance x 7 type lists x 7 instances (bool, float, None included)"),
        Sub("nested_combinators_with_empties", run_case, enum=_enum_nested, enum_complete=True,
            note="22 inner list combinators (incl. MatchesAny() / MatchesAll() / AnyMatch on []) under 8 list parents x 31 "
                 "lists of lists, and under MatchesDict / ContainsDict / MatchesStructure / AfterPreprocessing"),
        Sub("dict_matchers_grid", run_case, enum=_enum_dicts, enum_complete=True,
            note="MatchesDict / ContainsDict / ContainedByDict (and their negations) x expected key sets {}, {a}, {a,b} x every dict over "
                 "keys a, b, c with values 0 / 1 (falsy values included), as dict and as defaultdict"),
        Sub("one_shot_iterators", run_case, enum=_enum_one_shot, enum_complete=True,
            note="AllMatch / AnyMatch / Not(AllMatch) / MatchesSetwise (<= 2 leaves) / SameMembers x every list over {0,1,2} of "
                 "length <= 3, handed over as a one-shot iterator (a TypeError is admitted except from SameMembers)"),
        Sub("enumerated_list_combinators", run_case, enum=_enum(2 if q else 3), enum_complete=True,
            note="AllMatch/AnyMatch/Not(AnyMatch)/MatchesSetwise/MatchesListwise over every tuple of <= %d leaves from a "
                 "9-leaf int alphabet x every list over {0,1,2} of length <= 3" % (2 if q else 3)),
    ]
