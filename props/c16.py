"""C16 - Content is lossless and independent of chunking."""
import codecs
import io
import json
import os
import shutil
import tempfile

from hypothesis import strategies as st

from vp.core import Case, Sub, V
from vp.fuzz import fuzz_custom

PROPERTY = "C16"
RULE = ("Hypothesis-generated texts / byte strings / cut points / charsets / chunk sizes / "
        "seek offsets / content types, each compared with an independent model (whole-string "
        "decode, slice of the data, structural equality); texts up to 8192 repetitions long (beyond one chunk), as_text() "
        "after an abandoned, partly consumed iter_text() of the same object, two iter_bytes() iterators of one stream "
        "content obtained before either is consumed. Bytes that are BOM-carrying / multi-byte text in ANOTHER charset than "
        "the declared or default one, text types with further parameters and other subtypes (nothing is sniffed: the declared "
        "charset, else ISO-8859-1, decides); file and stream contents also given a text type and read as_text() with "
        "characters straddling 4096- and 1024-byte chunk boundaries; a second pass over a lazy stream content after the "
        "stream was refilled and repositioned, == evaluated before and after a source change, unseekable streams where no "
        "seek is requested, seek_whence without seek_offset, files replaced (new inode) between passes, two "
        "live / one abandoned iterator over a lazy file content, default type of content_from_file / attach_file, details "
        "gathered under their own names when nothing collides, parameter values differing in letter case only; two small "
        "exhaustive grids (stream_file_grid, undeclared_charset_grid) repeat the rare corners at every seed. Non-trivial: a cut inside a "
        "multi-byte character, or data length a positive multiple of chunk_size, or a seek "
        "offset != 0, or >= 2 content-type parameters, or a snapshot taken before a mutation, or non-ASCII bytes that are text in "
        "another charset than the declared one, or a text-typed file/stream read spanning several chunks; "
        "distinct = distinct canonical spec.")
ASSUMPTIONS = [
    "arbitrary (possibly invalid) byte strings are decoded only with stateless charsets; for "
    "BOM/stateful codecs the bytes are the encoding of real text",
    "content-type round trip domain: lower-case token type/subtype and parameter names (no '*'), "
    "values of printable characters without '\"' and '\\\\', no control characters, no RFC2047 "
    "encoded-words, charset values without ','",
    "files are seeked only to valid positions (the OS rejects negative absolute offsets)",
    "timing of the seek of a lazy stream content: with an absolute seek_offset every iterator returned by iter_bytes() "
    "yields the bytes from that offset when it is consumed, also when a sibling iterator obtained at the same time was "
    "drained first (clause stream-second-iterator) - i.e. the seek happens when reading starts, not when iter_bytes() is "
    "called; the statement does not spell out two live iterators over one stream, seeded change C16-r4-1 rests on this reading",
    "'reading lazily' is observed as: no read of any kind (read, read1, readinto, readline, iteration, getvalue) on the "
    "stream before iter_bytes() unless buffer_now; with buffer_now some read, or a moved stream position, at construction. "
    "A seek or a seekable()/tell() probe at construction is not counted as reading (its effects show in the byte clauses)",
    "the chunk-size limit of calls that pass no chunk_size is the default found in the called function's signature "
    "(DEFAULT_CHUNK_SIZE), not the literal 4096",
    "iter_text() on a non-text type raises the documented ValueError at the call or at the first step of the iterator",
    "ContentType equality is structural on values as written: letter case of a (non-charset) parameter value matters; two "
    "spellings of one charset (utf8 / UTF-8) are never compared, so a change treating them as equal is not reported",
    "gather_details keeps a detail's name when no source name is present in the target (the disambiguated names of "
    "colliding details are not modelled; their bytes are compared as a pool)",
    "as_text() of file/stream data in BOM-carrying or stateful charsets is checked only for reads from offset 0 of real text",
    "the instrumented stream follows the io contract: only a sized read may come back short; read() / read(-1) / read(None) / "
    "readall() return everything up to EOF (an implementation that reads to EOF in one call and slices is admitted)",
    "buffer_now is passed as True or False only ('both buffer_now values'); the 0 / 1 spellings are not generated any more "
    "(the spec key bn_int is kept for old replays and has no effect)",
    "json_content's input is anything json.dumps accepts, including str leaves with unpaired (high) surrogates: they have to "
    "round-trip through the UTF-8 bytes, which in practice requires \\uXXXX escapes for them (seeded change C16-r3-3, "
    "ensure_ascii=False, is reported as a crash on exactly these); the statement's 'texts' for text_content exclude surrogates",
    "an undecodable text content raises UnicodeError from iter_text() itself, from stepping its iterator or from as_text(); "
    "when it is raised is not compared",
    "text_content(bytes) is refused with TypeError or ValueError (the project's own tests expect TypeError); the type of "
    "text_content and the default type of content_from_file / content_from_stream / attach_file is text/plain with a charset "
    "that names UTF-8 under any spelling (codecs.lookup), not necessarily the UTF8_TEXT object or the spelling 'utf8'",
    "lazy file contents are made while the file exists with other bytes; whether a missing path is tolerated at construction "
    "is not examined ('reading lazily' is not 'no stat'), an eager read shows as wrong bytes",
    "the object handed to attach_file offers addDetail and getDetails; ContentType.parameters may be a read-only mapping "
    "(the caller-modifies-a-parse-result clause is then skipped)",
]

TEXT = st.text(st.characters(blacklist_categories=("Cs",)), max_size=40)
HEAVY_TEXT = st.text(st.sampled_from(
    "a\x00é́中\U0001f600\U00010348\n\r\"'\\  ﻿ z"), max_size=24)
ANYTEXT = st.one_of(TEXT, HEAVY_TEXT)
STATELESS = ["latin-1", "utf-8", "ascii", "cp1252", "utf8", "ISO-8859-1"]
TEXT_CODECS = ["utf8", "utf-8", "utf-16", "utf-32", "utf-8-sig", "shift_jis",
               "gb18030", "euc_jp", "iso2022_jp", "utf-16-le", "utf-32-be", "utf-7"]


def _cut(data, cuts):
    """Split ``data`` at the (sorted, possibly repeated) cut points."""
    pts = sorted(min(c, len(data)) for c in cuts)
    out, prev = [], 0
    for p in pts:
        out.append(data[prev:p])
        prev = p
    out.append(data[prev:])
    return out


# ------------------------------------------------------------------ bytes
@st.composite
def s_bytes_case(draw):
    chunks = draw(st.lists(st.binary(max_size=12), max_size=6))
    other = draw(st.one_of(st.none(), st.lists(st.binary(max_size=12), max_size=6)))
    ct_a = draw(st.sampled_from(["text/plain", "application/octet-stream", "text/plain;charset=utf8"]))
    ct_b = draw(st.sampled_from(["text/plain", "application/octet-stream", "text/plain;charset=utf8"]))
    cuts = draw(st.lists(st.integers(0, 40), max_size=4))
    return {"chunks": chunks, "other": other, "ct_a": ct_a, "ct_b": ct_b, "cuts": cuts,
            "buffer_now": draw(st.booleans()), "bn_int": draw(st.booleans())}


def _ct(name):
    from testtools.content_type import ContentType
    return {"text/plain": ContentType("text", "plain"),
            "application/octet-stream": ContentType("application", "octet-stream"),
            "text/plain;charset=utf8": ContentType("text", "plain", {"charset": "utf8"})}[name]


def run_bytes(spec):
    from testtools.content import Content, content_from_reader
    vs = []
    chunks = spec["chunks"]
    whole = b"".join(chunks)
    c = Content(_ct(spec["ct_a"]), lambda: list(chunks))
    got = b"".join(c.iter_bytes())
    if got != whole:
        vs.append(V("bytes-concat", "Content", "iter_bytes joined %r != %r" % (got, whole)))
    if b"".join(c.iter_bytes()) != whole:
        vs.append(V("bytes-concat", "Content-second", "second iteration differs"))
    calls = []

    def reader():
        calls.append(1)
        return iter(list(chunks))
    # (spec["bn_int"] once passed buffer_now as 0 / 1; the documented values are True and False, so it no longer does)
    r = content_from_reader(reader, _ct(spec["ct_a"]), bool(spec["buffer_now"]))
    if spec["buffer_now"]:
        if len(calls) != 1:
            vs.append(V("lazy", "reader-buffer_now", "reader called %d times at construction" % len(calls)))
    elif calls:
        vs.append(V("lazy", "reader-lazy", "reader evaluated before iter_bytes"))
    before = len(calls)
    if b"".join(r.iter_bytes()) != whole:
        vs.append(V("bytes-concat", "content_from_reader", "bytes differ"))
    if spec["buffer_now"] and len(calls) != before:
        vs.append(V("lazy", "reader-buffer_now-reread", "buffered content re-read its source"))
    if not spec["buffer_now"]:
        # a lazy content yields what its source yields at that time: a changed source shows in the next pass
        later = [b"later:"] + list(chunks)
        src = [list(chunks)]
        lazy = content_from_reader(lambda: iter(list(src[0])), _ct(spec["ct_a"]), False)
        first = b"".join(lazy.iter_bytes())
        # ... and in what it is equal to: equality is computed from the bytes of the moment
        then = Content(_ct(spec["ct_a"]), lambda: [whole])
        now = Content(_ct(spec["ct_a"]), lambda: [b"".join(later)])
        eq_before = (lazy == then, then == lazy, lazy == now)
        src[0] = later
        second = b"".join(lazy.iter_bytes())
        if first != whole or second != b"".join(later):
            vs.append(V("lazy", "stale-second-pass", "a lazy content gave %r and then %r; its source yielded %r and then %r" % (first, second, whole, b"".join(later))))
        eq_after = (lazy == then, then == lazy, lazy == now)
        if eq_before != (True, True, False) or eq_after != (False, False, True):
            vs.append(V("eq", "stale-after-source-change", "a lazy content compared (==old, old==, ==new) as %r while its source yielded the old bytes and as %r once it yielded the new ones" % (eq_before, eq_after)))
    # equality <=> type equal and bytes equal, whatever the chunking
    rechunked = _cut(whole, spec["cuts"])
    other_bytes = whole if spec["other"] is None else b"".join(spec["other"])
    other_chunks = rechunked if spec["other"] is None else spec["other"]
    d = Content(_ct(spec["ct_b"]), lambda: list(other_chunks))
    want = (spec["ct_a"] == spec["ct_b"]) and other_bytes == whole
    class OwnContent(Content):
        """A Content subclass (like TracebackContent): equality is still type and bytes."""
    sub = OwnContent(_ct(spec["ct_b"]), lambda: list(other_chunks))
    if (c == sub) != want or (sub == c) != want or (c != sub) == want:
        vs.append(V("eq", "Content-subclass", "c==sub is %r, sub==c is %r, c!=sub is %r; model says equal=%r" % (c == sub, sub == c, c != sub, want)))
    if (c != d) == want:
        vs.append(V("eq", "Content.__ne__", "c!=d is %r although equal=%r" % (c != d, want)))
    if (c == d) != want or (d == c) != want:
        vs.append(V("eq", "Content.__eq__", "c==d is %r, model says %r (types %s/%s, bytes %r/%r)" % (
            c == d, want, spec["ct_a"], spec["ct_b"], whole, other_bytes)))
    nt = len(chunks) >= 2 and (spec["other"] is None and len(rechunked) >= 2 or b"" in chunks)
    return Case(vs, nt, ["eq=%s" % want, "empty-chunk" if b"" in chunks else "no-empty-chunk"],
                {"joined": got})


# ------------------------------------------------------------------ text / json round trip
# JSON can carry lone surrogates (escaped); only high ones here, so that no two of them ever form a pair
SURROGATE_TEXT = st.text(st.sampled_from("a\ud83dé\ud800"), max_size=5)
JSONABLE = st.recursive(
    st.one_of(st.none(), st.booleans(), st.integers(-2**70, 2**70),
              st.floats(allow_nan=False, allow_infinity=False), ANYTEXT, SURROGATE_TEXT),
    lambda ch: st.one_of(st.lists(ch, max_size=4), st.dictionaries(ANYTEXT, ch, max_size=4)),
    max_leaves=12)


def _is_utf8_text(ct):
    """text/plain declared as UTF-8, however the charset is spelled (utf8, UTF-8 ...) and whichever object it is."""
    try:
        return (ct.type, ct.subtype) == ("text", "plain") and codecs.lookup(ct.parameters["charset"]).name == "utf-8"
    except (AttributeError, KeyError, LookupError, TypeError):
        return False


def run_text_rt(spec):
    from testtools.content import text_content, json_content
    from testtools.content_type import JSON
    vs = []
    s = spec["text"] * spec.get("times", 1)
    c = text_content(s)
    if c.as_text() != s:
        vs.append(V("text-roundtrip", "as_text", "as_text() %r != %r" % (c.as_text(), s)))
    if b"".join(c.iter_bytes()) != s.encode("utf8"):
        vs.append(V("text-roundtrip", "bytes", "bytes are not the UTF-8 encoding"))
    if "".join(c.iter_text()) != s:
        vs.append(V("text-roundtrip", "iter_text", "iter_text differs"))
    if not _is_utf8_text(c.content_type):
        vs.append(V("text-roundtrip", "type", "content type %r" % c.content_type))
    d = spec["data"]
    j = json_content(d)
    raw = b"".join(j.iter_bytes())
    try:
        back = json.loads(raw.decode("utf8"))
    except Exception as e:
        back = e
    if back != d or j.content_type != JSON:
        vs.append(V("json-roundtrip", "json_content", "json round trip %r -> %r" % (d, back)))
    class OwnStr(str):
        """A str subclass (a lazily translated or marked-up string) is text."""
    try:
        sub_ok = text_content(OwnStr(s)).as_text() == s
    except TypeError:
        sub_ok = False
    if not sub_ok:
        vs.append(V("text-roundtrip", "str-subclass", "a str subclass does not round-trip through text_content"))
    try:
        text_content(s.encode("utf8"))
        vs.append(V("text-roundtrip", "bytes-accepted", "text_content accepted bytes"))
    except (TypeError, ValueError):
        pass
    nt = any(ord(ch) > 0xFFFF or ch == "\x00" or 0x300 <= ord(ch) < 0x370 for ch in s)
    return Case(vs, nt, ["astral/nul/combining" if nt else "plain", "len>4096" if len(s) > 4096 else ("len>100" if len(s) > 100 else "short")], {"bytes": raw[:40]})


# ------------------------------------------------------------------ as_text vs chunking
FOREIGN = ["utf8", "utf-8-sig", "utf-16", "utf-32", "utf-16-le", "utf-16-be"]
UNDECLARED = [None, None, "latin-1", "cp1252", "ascii", "ISO-8859-1"]
# parameters other than charset on a text type (the shape of TracebackContent's type), other subtypes
EXTRA_PARAMS = st.dictionaries(st.sampled_from(["format", "language", "delsp"]),
                               st.sampled_from(["flowed", "python", "yes", "X y"]), max_size=2)
SUBTYPE = st.sampled_from(["plain", "plain", "x-log", "x-traceback"])


@st.composite
def s_decode_case(draw):
    which = draw(st.integers(0, 2))
    if which == 0:
        # real text in any codec
        cs = draw(st.sampled_from(TEXT_CODECS + STATELESS + [None]))
        text = draw(ANYTEXT)
        try:
            data = text.encode(cs or "latin-1")
        except UnicodeError:
            text = "".join(ch for ch in text if ord(ch) < 0x80)
            data = text.encode(cs or "latin-1")
        kind = "text"
    elif which == 1:
        cs = draw(st.sampled_from(STATELESS + [None]))
        data = draw(st.one_of(st.binary(max_size=30),
                              st.lists(st.sampled_from([b"a", b"\xc3", b"\xa9", b"\xe4\xb8", b"\xad",
                                                        b"\xf0\x9f", b"\x98\x80", b"\xff", b"\x00"]),
                                       max_size=10).map(b"".join)))
        kind = "raw"
    else:
        # bytes that are (BOM-carrying / multi-byte) text in ANOTHER charset than the declared or default one:
        # the declared charset decides, nothing is sniffed from the bytes
        cs = draw(st.sampled_from(UNDECLARED))
        data = draw(ANYTEXT).encode(draw(st.sampled_from(FOREIGN)))
        kind = "foreign"
    cuts = draw(st.lists(st.integers(0, max(1, len(data))), max_size=6))
    return {"charset": cs, "data": data, "cuts": cuts, "kind": kind,
            "param_case": draw(st.sampled_from(["charset"])),
            "extra": draw(EXTRA_PARAMS) if draw(st.booleans()) else {}, "subtype": draw(SUBTYPE),
            # an earlier iter_text() of the same object, advanced this many steps and then abandoned
            "abandon": draw(st.sampled_from([None, None, 0, 1, 2, 3]))}


def _enum_decode():
    """Undeclared / single-byte declared charsets over bytes that look like something else (a BOM, valid UTF-8),
    with and without other parameters on the type: small enough to run completely at every seed."""
    datas = [b"\xef\xbb\xbfabc", b"\xff\xfea\x00b\x00", b"\xfe\xff\x00a\x00b", b"\xff\xfe\x00\x00a\x00\x00\x00",
             "\u00e9".encode("utf8"), "a\u4e2db".encode("utf8"), "\U0001f600".encode("utf8"), b"\xe9",
             b"caf\xc3\xa9 \xe9", b"abc", b""]
    for cs in (None, "latin-1", "cp1252", "ISO-8859-1"):
        for data in datas:
            for cuts in ([], [1], [2], [1, 2, 3]):
                for extra, subtype in (({}, "plain"), ({"format": "flowed"}, "x-log"),
                                       ({"language": "python", "format": "X y"}, "x-traceback")):
                    yield {"charset": cs, "data": data, "cuts": cuts, "kind": "foreign", "param_case": "charset",
                           "extra": extra, "subtype": subtype, "abandon": None}
    # bytes that end inside a character: the decoder's final flush has to report them
    for cs in ("utf8", "utf-8"):
        for data in (b"a\xc3", b"\xe4\xb8", b"ab\xf0\x9f\x98"):
            for cuts in ([], [1], [len(data) - 1]):
                for abandon in (None, 1):
                    yield {"charset": cs, "data": data, "cuts": cuts, "kind": "raw", "param_case": "charset",
                           "extra": {}, "subtype": "plain", "abandon": abandon}


def _cut_inside_char(data, cuts, cs):
    """Is some cut strictly inside one character's encoding?  Decided by decoding each
    prefix with a fresh incremental decoder (independent of testtools)."""
    try:
        for p in set(cuts):
            if 0 < p < len(data):
                dec = codecs.getincrementaldecoder(cs)()
                dec.decode(data[:p])
                if dec.getstate()[0]:
                    return True
    except Exception:
        return False
    return False


def run_decode(spec):
    from testtools.content import Content
    from testtools.content_type import ContentType
    vs = []
    cs, data = spec["charset"], spec["data"]
    params = dict(spec.get("extra") or {})
    if cs is not None:
        params["charset"] = cs
    subtype = spec.get("subtype", "plain")
    chunks = _cut(data, spec["cuts"])
    if not data and spec.get("abandon") in (None, 0) and len(spec["cuts"]) % 2:
        chunks = []           # a content that yields no chunk at all (an empty file)
    c = Content(ContentType("text", subtype, dict(params)), lambda: list(chunks))
    eff = cs or "ISO-8859-1"
    try:
        want = data.decode(eff)
    except UnicodeError:
        want = UnicodeError
    if spec.get("abandon") is not None:
        it = None
        try:
            # (an implementation may decode when iter_text() is called: the error of undecodable bytes then comes here)
            it = c.iter_text()
            for _ in range(spec["abandon"]):
                next(it, None)
        except UnicodeError:
            pass
        it = None
    try:
        got = c.as_text()
    except UnicodeError:
        got = UnicodeError
    if got != want:
        vs.append(V("as_text-chunking", "charset=%s" % eff,
                    "as_text() over chunks %r gives %r, whole decode gives %r" % (chunks, got, want)))
    if want is not UnicodeError:
        # as_text() is computed from what the source yields at that time: nothing is remembered from an earlier call
        src = [list(chunks)]
        lazy = Content(ContentType("text", subtype, dict(params)), lambda: list(src[0]))
        first = lazy.as_text()
        src[0] = []
        if first != want or lazy.as_text() != "" or "".join(lazy.iter_text()) != "":
            vs.append(V("as_text-chunking", "as_text-remembered", "after its source became empty a text content still gives %r" % (lazy.as_text(),)))
    try:
        got2 = "".join(c.iter_text())
    except UnicodeError:
        got2 = UnicodeError
    if got2 != want:
        vs.append(V("as_text-chunking", "iter_text charset=%s" % eff, "iter_text differs: %r vs %r" % (got2, want)))
    # using a content (decoding it) must not change what it is equal to
    twin = Content(ContentType("text", subtype, dict(params)), lambda: list(chunks))
    if not (c == twin and twin == c) or c.content_type != ContentType("text", subtype, dict(params)):
        vs.append(V("eq", "after-as_text", "a content that has been decoded no longer equals a structurally equal, unused one"))
    nb = Content(ContentType("application", "octet-stream"), lambda: list(chunks))
    try:
        # (the documented ValueError may come at the call or - from a generator - at the first step)
        list(nb.iter_text())
        vs.append(V("as_text-chunking", "non-text", "iter_text on a non-text type did not raise"))
    except ValueError:
        pass
    inside = _cut_inside_char(data, spec["cuts"], eff)
    foreign = spec["kind"] == "foreign" and any(b > 0x7f for b in data)
    return Case(vs, inside or foreign, ["cut-inside-char" if inside else "cuts-at-boundaries",
                             "kind=" + spec["kind"], "cs=%s" % cs,
                             "undecodable" if want is UnicodeError else "decodable",
                             "after-abandoned-iterator" if spec.get("abandon") else "",
                             "other-params" if spec.get("extra") else ""],
                {"chunks": chunks})


# ------------------------------------------------------------------ two decodes in progress at once
@st.composite
def s_interleaved(draw):
    cs = draw(st.sampled_from(["utf8", "utf-8", "utf-16", "gb18030", "shift_jis", None]))
    texts = [draw(ANYTEXT), draw(ANYTEXT)]
    datas = []
    for t in texts:
        try:
            datas.append(t.encode(cs or "latin-1"))
        except UnicodeError:
            datas.append("".join(ch for ch in t if ord(ch) < 0x80).encode(cs or "latin-1"))
    return {"charset": cs, "datas": datas, "cuts": [draw(st.lists(st.integers(0, 12), max_size=5)) for _ in range(2)],
            "order": draw(st.lists(st.integers(0, 1), max_size=14)),
            "same_object": draw(st.sampled_from([False, False, True])), "shared_type": draw(st.booleans())}


def run_interleaved(spec):
    from testtools.content import Content
    from testtools.content_type import ContentType
    vs = []
    cs = spec["charset"]
    params = {} if cs is None else {"charset": cs}
    contents = [Content(ContentType("text", "plain", dict(params)), lambda ch=_cut(d, c): list(ch)) for d, c in zip(spec["datas"], spec["cuts"])]
    if spec.get("same_object"):
        # two decodes of one and the same Content object in progress at once
        contents[1] = contents[0]
        spec = dict(spec, datas=[spec["datas"][0], spec["datas"][0]], cuts=[spec["cuts"][0], spec["cuts"][0]])
    elif spec.get("shared_type"):
        shared = ContentType("text", "plain", dict(params))
        contents = [Content(shared, lambda ch=_cut(d, c): list(ch)) for d, c in zip(spec["datas"], spec["cuts"])]
    its = [c.iter_text() for c in contents]
    out = ["", ""]
    done = [False, False]
    order = list(spec["order"]) + [0, 1] * 20
    try:
        for k in order:
            if done[k]:
                continue
            try:
                out[k] += next(its[k])
            except StopIteration:
                done[k] = True
            if all(done):
                break
    except UnicodeError as e:
        vs.append(V("as_text-chunking", "interleaved-raises", "decoding two contents side by side raised %r" % (e,)))
        return Case(vs, True, ["raised"])
    for k in (0, 1):
        want = spec["datas"][k].decode(cs or "ISO-8859-1")
        if done[k] and out[k] != want:
            vs.append(V("as_text-chunking", "interleaved", "content %d decoded as %r while another decode was in progress, whole decode gives %r" % (k, out[k], want)))
    inside = any(_cut_inside_char(d, c, cs or "ISO-8859-1") for d, c in zip(spec["datas"], spec["cuts"]))
    return Case(vs, inside, ["cut-inside-char" if inside else "boundaries", "cs=%s" % cs])


# ------------------------------------------------------------------ stream / file
class LoggedStream(io.BytesIO):
    """BytesIO that logs every way of reading from it (read, read1, readinto, readline, iteration ...) and every
    seek, may legitimately return short reads (like a pipe, a socket or a raw stream: at most ``short`` bytes per
    *sized* read when ``short`` is set; a read without a size / with a negative size reads to EOF) and may be unseekable (``seekable=False``: seek/tell raise, like a pipe).  The
    harness itself moves and refills it through the ``h_*`` methods, which are neither logged nor refused."""

    def __init__(self, data, short=None, seekable=True):
        super().__init__(data)
        self.ops = []
        self.short = short
        self.can_seek = seekable

    def _n(self, n):
        if n is None or n < 0:
            return -1          # read() / read(-1) / read(None) / readall(): to EOF, as the io contract says
        if self.short is not None and n > self.short:
            return self.short  # only a sized read may come back short
        return n

    def read(self, n=-1):
        self.ops.append(("read", n))
        return super().read(self._n(n))

    def read1(self, n=-1):
        self.ops.append(("read", n, "read1"))
        return super().read1(self._n(n))

    def readall(self):
        self.ops.append(("read", -1, "readall"))
        return super().read(self._n(-1))

    def readinto(self, b):
        self.ops.append(("read", len(b), "readinto"))
        got = super().read(self._n(len(b)))
        b[:len(got)] = got
        return len(got)

    readinto1 = readinto

    def readline(self, n=-1):
        self.ops.append(("read", n, "readline"))
        line = super().readline(-1 if n is None else n)
        if self.short is not None and len(line) > self.short:
            super().seek(self.short - len(line), 1)
            line = line[:self.short]
        return line

    def readlines(self, hint=-1):
        self.ops.append(("read", hint, "readlines"))
        return super().readlines(hint)

    def __next__(self):
        self.ops.append(("read", -1, "next"))
        return super().__next__()

    def getvalue(self):
        self.ops.append(("read", -1, "getvalue"))
        return super().getvalue()

    def getbuffer(self):
        self.ops.append(("read", -1, "getbuffer"))
        return super().getbuffer()

    def seekable(self):
        return self.can_seek

    def seek(self, off, whence=0):
        self.ops.append(("seek", off, whence))
        if not self.can_seek:
            raise io.UnsupportedOperation("underlying stream is not seekable")
        return super().seek(off, whence)

    def tell(self):
        if not self.can_seek:
            raise io.UnsupportedOperation("underlying stream is not seekable")
        return super().tell()

    # -- harness side
    def h_seek(self, pos):
        io.BytesIO.seek(self, pos)

    def h_tell(self):
        return io.BytesIO.tell(self)

    def h_replace(self, data, pos):
        io.BytesIO.seek(self, 0)
        io.BytesIO.truncate(self, 0)
        io.BytesIO.write(self, data)
        io.BytesIO.seek(self, pos)


# real text, repeated beyond one default-sized chunk, in a charset whose characters straddle chunk boundaries
BIG_TEXT = st.tuples(st.text(st.sampled_from("a\u00e9\u4e2d\U0001f600\x00"), min_size=1, max_size=4),
                     st.sampled_from(["utf8", "utf8", "utf-16", "gb18030", "shift_jis"]),
                     st.sampled_from([4096, 4097, 8192, 10000]))
ARBITRARY_TEXT_CS = ["none", "utf8", "latin-1", "cp1252", "utf-8"]     # stateless: arbitrary bytes may be decoded


def _big_text(t):
    unit, cs, n = t
    try:
        one = unit.encode(cs)
    except UnicodeError:
        unit = "a\u00e9" if cs != "shift_jis" else "a\u4e2d"
        one = unit.encode(cs)
    reps = n // max(1, len(one)) + 1
    return (unit * reps).encode(cs), cs


@st.composite
def s_stream_case(draw):
    text_cs = None
    which = draw(st.integers(0, 4))
    if which <= 1:
        data = draw(st.binary(max_size=40))
    elif which == 2:
        data = draw(st.integers(0, 6).flatmap(lambda k: st.binary(min_size=4 * k, max_size=4 * k)))
    elif which == 3:
        # more than one chunk even at the default chunk size
        data = draw(st.tuples(st.binary(min_size=1, max_size=8), st.sampled_from([4096, 4097, 8192, 10000])).map(lambda t: (t[0] * t[1])[:t[1]]))
    else:
        data, text_cs = _big_text(draw(BIG_TEXT))
    chunk_size = draw(st.sampled_from([1, 2, 3, 4, 5, 8, 4096] if which != 4 else [4096, 4096, 1024, 5]))
    kind = draw(st.sampled_from(["stream", "file"]))
    whence = draw(st.sampled_from([0, 2] if kind == "file" else [0, 1, 2]))
    prepos = draw(st.integers(0, len(data) + 2)) if kind == "stream" and which != 4 else 0
    if draw(st.booleans()) or which == 4:
        offset = None
    elif whence == 0:
        offset = draw(st.integers(0, len(data) + 3))
    elif whence == 2:
        offset = draw(st.integers(-len(data) if kind == "file" else -len(data) - 3, 3))
    else:
        offset = draw(st.integers(-prepos - 2, 4))
    if text_cs is None and draw(st.booleans()):
        text_cs = draw(st.sampled_from(ARBITRARY_TEXT_CS))
    return {"data": data, "chunk_size": chunk_size, "kind": kind, "whence": whence,
            "offset": offset, "prepos": prepos, "buffer_now": draw(st.booleans()),
            "mutate": draw(st.binary(max_size=8)),
            "short": draw(st.sampled_from([None, None, 1, 2, 3])) if kind == "stream" else None,
            "two_iterators": draw(st.booleans()), "fill_late": draw(st.booleans()),
            "via_attach_file": draw(st.booleans()),
            "default_chunk": draw(st.booleans()) and chunk_size == 4096,
            # (was: buffer_now given as 0 / 1 rather than False / True; kept in the spec, without effect now)
            "bn_int": draw(st.booleans()),
            # a stream that cannot seek or tell (a pipe); only where no seek is requested
            "seekable": draw(st.sampled_from([True, True, False])) or offset is not None or kind != "stream",
            # seek_whence passed although seek_offset is None: "passed to seek() when seeking", so without effect
            "whence_alone": draw(st.booleans()),
            # where the harness leaves the (refilled) stream before a second pass over a lazy content
            "prepos2": draw(st.integers(0, len(data) + 2)) if kind == "stream" and which != 4 else 0,
            # the content also gets a text type: as_text() of what was read, against the whole-string decode
            "text_cs": text_cs,
            # lazy file contents: two iterators alive at once / one abandoned half-way; the file replaced (new
            # inode) rather than rewritten in place before the last pass
            "file_iters": draw(st.sampled_from([None, "two", "abandon"])),
            "replace": draw(st.booleans())}


def _stream_spec(**over):
    spec = {"data": b"abcdefgh", "chunk_size": 3, "kind": "stream", "whence": 0, "offset": None, "prepos": 0,
            "buffer_now": False, "mutate": b"XY", "short": None, "two_iterators": False, "fill_late": False,
            "via_attach_file": False, "default_chunk": False, "bn_int": False, "seekable": True,
            "whence_alone": False, "prepos2": 0, "text_cs": None, "file_iters": None, "replace": False}
    spec.update(over)
    return spec


def _enum_stream():
    """Corners that random cases reach too rarely to be caught at every seed."""
    both = (False, True)
    # characters straddling every boundary of a default-sized (and a 1024-byte) chunk, decoded from a stream / file
    for text, cs in (("a" + "\u00e9" * 2500, "utf8"), ("\U0001f600" * 1500, "utf-16"), ("a" + "\u4e2d" * 2500, "gb18030")):
        for kind in ("stream", "file"):
            for bn in both:
                for chunk, dflt in ((4096, True), (4096, False), (1024, False)):
                    yield _stream_spec(data=text.encode(cs), text_cs=cs, kind=kind, buffer_now=bn, chunk_size=chunk,
                                       default_chunk=dflt)
    for bn in both:
        for short in (None, 2):
            # an explicit offset of 0 is a seek; relative to the current position it is none
            for whence, prepos in ((0, 3), (0, 0), (1, 3), (2, 3), (2, 0)):
                yield _stream_spec(offset=0, whence=whence, prepos=prepos, buffer_now=bn, short=short, prepos2=2)
            # a whence without an offset changes nothing
            for whence in (1, 2):
                for prepos in (0, 2):
                    yield _stream_spec(whence=whence, whence_alone=True, prepos=prepos, buffer_now=bn, short=short, prepos2=1)
            # a stream that cannot seek, read from where it stands
            for prepos in (0, 3):
                for fill_late in both:
                    yield _stream_spec(seekable=False, prepos=prepos, buffer_now=bn, short=short, fill_late=fill_late, prepos2=1)
        yield _stream_spec(kind="file", whence=2, whence_alone=True, buffer_now=bn)
        for kind in ("stream", "file"):
            yield _stream_spec(kind=kind, buffer_now=bn, bn_int=True)
            yield _stream_spec(kind=kind, buffer_now=bn, bn_int=True, offset=2)
            yield _stream_spec(kind=kind, buffer_now=bn, text_cs="none", data=b"caf\xc3\xa9 \xe9")
        yield _stream_spec(kind="file", buffer_now=bn, via_attach_file=True, bn_int=True)
    # two iterators of one lazy stream content with an absolute offset, obtained before either is consumed
    for offset, whence in ((2, 0), (0, 0), (-3, 2)):
        for short in (None, 2):
            yield _stream_spec(offset=offset, whence=whence, two_iterators=True, prepos=1, short=short, prepos2=3)
    for iters in (None, "two", "abandon"):
        for replace in both:
            for offset in (None, 2):
                yield _stream_spec(kind="file", file_iters=iters, replace=replace, offset=offset)


def _model_start(n, prepos, offset, whence):
    if offset is None:
        return prepos
    if whence == 0:
        return offset
    if whence == 1:
        return max(0, prepos + offset)
    return max(0, n + offset)


_WORK = [None]


def _workdir():
    if _WORK[0] is None or not os.path.isdir(_WORK[0]):
        base = os.path.join(os.path.dirname(os.path.dirname(os.path.abspath(__file__))), ".work")
        os.makedirs(base, exist_ok=True)
        _WORK[0] = tempfile.mkdtemp(prefix="c16-", dir=base)
        import atexit
        atexit.register(shutil.rmtree, _WORK[0], True)
    return _WORK[0]


def _default_chunk_size(func):
    """The chunk size ``func`` uses when none is passed, read from its signature (not assumed to be 4096)."""
    import inspect
    try:
        d = inspect.signature(func).parameters["chunk_size"].default
        if isinstance(d, int) and d > 0:
            return d
    except (KeyError, TypeError, ValueError):
        pass
    from testtools import content
    return getattr(content, "DEFAULT_CHUNK_SIZE", 4096)


class _Detailed:
    def __init__(self):
        self.details = {}

    def addDetail(self, name, content):
        self.details[name] = content

    def getDetails(self):
        return self.details


_EARLY = b"not yet:"       # what a file holds while a lazy content of it is being made


def _decode_or_error(data, charset):
    try:
        return data.decode(charset)
    except UnicodeError:
        return UnicodeError


def run_stream(spec):
    from testtools.content import content_from_stream, content_from_file, attach_file
    from testtools.content_type import ContentType
    vs = []
    data, cs = spec["data"], spec["chunk_size"]
    start = _model_start(len(data), spec["prepos"], spec["offset"], spec["whence"])
    want = data[start:]
    kw = {}
    if not spec["default_chunk"]:
        kw["chunk_size"] = cs
    if spec["offset"] is not None:
        kw["seek_offset"] = spec["offset"]
        kw["seek_whence"] = spec["whence"]
    elif spec.get("whence_alone"):
        kw["seek_whence"] = spec["whence"]
    buffer_now = spec["buffer_now"]
    bn = bool(buffer_now)      # always a real bool: spec["bn_int"] (0 / 1) is outside "both buffer_now values", see ASSUMPTIONS
    lazy = not buffer_now
    ct = ContentType("application", "octet-stream")
    tag = spec["kind"]
    seekable = bool(spec.get("seekable", True)) or spec["offset"] is not None
    if spec["kind"] == "stream":
        limit = _default_chunk_size(content_from_stream) if spec["default_chunk"] else cs
        fill_late = spec.get("fill_late") and lazy
        s = LoggedStream(b"" if fill_late else data, spec.get("short"), seekable)
        s.h_seek(spec["prepos"])
        c = content_from_stream(s, ct, buffer_now=bn, **kw)
        reads_at_construction = [o for o in s.ops if o[0] == "read"]
        moved = s.closed or s.h_tell() != spec["prepos"]
        if fill_late and not s.closed:
            # nothing of the stream is looked at before the content is iterated: the data arrives only now
            s.h_replace(data, spec["prepos"])
        if buffer_now:
            if not reads_at_construction and not moved:
                vs.append(V("lazy", "stream-buffer_now-noread", "buffer_now did not read at construction"))
            # later changes to the source must not matter
            if not s.closed:
                s.h_replace(spec["mutate"], len(spec["mutate"]))
        elif reads_at_construction:
            vs.append(V("lazy", "stream-eager", "stream read before iter_bytes: %r" % reads_at_construction))
        s.ops.clear()
        if lazy and spec["offset"] is not None and spec["whence"] in (0, 2) and spec.get("two_iterators"):
            # two iterations of one content, both obtained before either is consumed: each seeks to the requested
            # (absolute) offset when it starts reading
            it1, it2 = c.iter_bytes(), c.iter_bytes()
            chunks = list(it1)
            second = b"".join(it2)
            if second != want:
                vs.append(V("stream-bytes", "stream-second-iterator", "a second iterator obtained before the first was consumed gives %r, want %r" % (second, want)))
        else:
            chunks = list(c.iter_bytes())
        if buffer_now and s.ops:
            vs.append(V("lazy", "stream-buffer_now-reread", "buffered content touched the stream again: %r" % s.ops))
        if lazy and s.closed:
            # a lazy content has to read the stream again at its next iteration: it cannot have closed it
            vs.append(V("stream-bytes", "stream-closed", "iterating a lazy stream content closed the caller's stream"))
        elif lazy:
            # a lazy content reads its stream each time it is iterated: the stream holds something else now and
            # stands somewhere else; nothing of the first pass is remembered
            later = spec["mutate"] + data
            p2 = min(spec.get("prepos2", 0), len(later) + 2)
            s.h_replace(later, p2)
            start2 = _model_start(len(later), p2, spec["offset"], spec["whence"])
            again = b"".join(c.iter_bytes())
            if again != later[start2:]:
                vs.append(V("stream-bytes", "stream-second-pass", "the stream was refilled with %r and left at %d; a second pass over the lazy content gives %r, want %r" % (later[:60], p2, again[:60], later[start2:][:60])))
        d = content_from_stream(LoggedStream(data))
        if not _is_utf8_text(d.content_type):
            vs.append(V("default-type", "stream", "default content type is %r" % d.content_type))
    else:
        limit = _default_chunk_size(content_from_file) if spec["default_chunk"] else cs
        path = os.path.join(_workdir(), "f")
        if os.path.exists(path):
            os.unlink(path)
        if spec.get("via_attach_file") and spec["offset"] is None and "seek_whence" not in kw:
            # the convenience wrapper hands chunk_size and buffer_now on positionally
            limit = _default_chunk_size(attach_file) if spec["default_chunk"] else cs
            holder = _Detailed()
            with open(path, "wb") as f:
                # (read lazily: the file holds something else as yet - it exists, "lazily" is not "the path is not looked at")
                f.write(data if buffer_now else _EARLY + spec["mutate"])
            attach_file(holder, path, "att", ct, limit, bn)
            with open(path, "wb") as f:
                f.write(spec["mutate"] if buffer_now else data)
            if list(holder.details) != ["att"] or holder.details["att"].content_type != ct:
                vs.append(V("stream-bytes", "attach_file-detail", "attach_file registered %r" % (holder.details,)))
                return Case(vs, True, ["attach_file"])
            c = holder.details["att"]
        elif buffer_now:
            with open(path, "wb") as f:
                f.write(data)
            c = content_from_file(path, ct, buffer_now=bn, **kw)
            with open(path, "wb") as f:
                f.write(spec["mutate"])
            if spec["mutate"] == b"":
                os.unlink(path)
        else:
            # lazily read: the file holds something else as yet (it exists: a check of the path at construction is
            # not a read)
            with open(path, "wb") as f:
                f.write(_EARLY + spec["mutate"])
            try:
                c = content_from_file(path, ct, buffer_now=bn, **kw)
            except OSError as e:
                vs.append(V("lazy", "file-eager", "content_from_file opened the file at construction: %r" % e))
                return Case(vs, False, ["file"])
            with open(path, "wb") as f:
                f.write(data)
        chunks = list(c.iter_bytes())
        if lazy:
            iters = spec.get("file_iters")
            if iters == "two":
                # two iterators alive at once: each reads the file for itself
                it1, it2 = iter(c.iter_bytes()), iter(c.iter_bytes())     # (iter_bytes may hand out any iterable)
                head = next(it1, b"")
                two = b"".join(it2)
                one = head + b"".join(it1)
                if one != want or two != want:
                    vs.append(V("stream-bytes", "file-two-iterators", "two iterators over one lazy file content, advanced in turn, give %r and %r, want %r" % (one[:60], two[:60], want[:60])))
            elif iters == "abandon":
                it3 = iter(c.iter_bytes())
                next(it3, None)
                del it3             # dropped half-way
            again = b"".join(c.iter_bytes())
            if again != want:
                vs.append(V("stream-bytes", "file-second-iteration", "second iter_bytes gives %r, want %r" % (again, want)))
            # a lazily read file is read when it is iterated: what the file holds *now*
            later = spec["mutate"] + data
            if spec.get("replace"):
                # ... also when it is another file under the same name by now (log rotation, atomic writers)
                with open(path + ".new", "wb") as f:
                    f.write(later)
                os.replace(path + ".new", path)
            else:
                with open(path, "wb") as f:
                    f.write(later)
            start_l = _model_start(len(later), 0, spec["offset"], spec["whence"])
            third = b"".join(c.iter_bytes())
            if third != later[start_l:]:
                vs.append(V("stream-bytes", "file-stale-after-change", "the file changed to %r, a lazy content still yields %r (want %r)" % (later[:60], third[:60], later[start_l:][:60])))
        # without a content type a file is UTF-8 text, as a stream is
        dpath = os.path.join(_workdir(), "d")
        with open(dpath, "wb") as f:
            f.write(data)
        dflt = content_from_file(dpath)
        holder = _Detailed()
        attach_file(holder, dpath)
        attached = list(holder.details.values())
        if not _is_utf8_text(dflt.content_type) or len(attached) != 1 or not _is_utf8_text(attached[0].content_type):
            vs.append(V("default-type", "file", "default content type is %r, attach_file registered %r" % (dflt.content_type, holder.details)))
        elif b"".join(dflt.iter_bytes()) != data or b"".join(attached[0].iter_bytes()) != data:
            vs.append(V("stream-bytes", "file-defaults", "content_from_file(path) / attach_file(obj, path) do not yield the file's bytes"))
    got = b"".join(chunks)
    if got != want:
        vs.append(V("stream-bytes", tag, "got %r, want data[%d:]=%r (spec offset=%r whence=%r prepos=%r)" % (
            got[:60], start, want[:60], spec["offset"], spec["whence"], spec["prepos"])))
    if any(len(ch) == 0 for ch in chunks):
        vs.append(V("stream-chunks", tag + "-empty", "an empty chunk was yielded: %r" % chunks[:8]))
    if any(len(ch) > limit for ch in chunks):
        vs.append(V("stream-chunks", tag + "-toolarge", "a chunk exceeds chunk_size=%d: %r" % (limit, [len(ch) for ch in chunks][:8])))
    if buffer_now:
        if b"".join(c.iter_bytes()) != want:
            vs.append(V("stream-bytes", tag + "-buffered-second", "buffered content changed between iterations"))
    tcs = spec.get("text_cs")
    if tcs and (tcs in ARBITRARY_TEXT_CS or start == 0):
        # the same read with a text type: as_text() is the whole-string decode of what was to be read, wherever
        # the chunk boundaries fell (for BOM-carrying / stateful charsets only from the very beginning)
        tct = ContentType("text", "plain", {} if tcs == "none" else {"charset": tcs})
        eff = "ISO-8859-1" if tcs == "none" else tcs
        if spec["kind"] == "stream":
            ts = LoggedStream(data, spec.get("short"), seekable)
            ts.h_seek(spec["prepos"])
            tc = content_from_stream(ts, tct, buffer_now=bn, **kw)
        else:
            tc = content_from_file(dpath, tct, buffer_now=bn, **kw)
        want_t = _decode_or_error(want, eff)
        try:
            got_t = tc.as_text()
        except UnicodeError:
            got_t = UnicodeError
        if got_t != want_t:
            vs.append(V("as_text-chunking", tag + "-as_text", "as_text() of %d bytes read in chunks of %d (charset %s) gives %r, whole decode gives %r" % (
                len(want), limit, eff, got_t if got_t is UnicodeError else got_t[-30:], want_t if want_t is UnicodeError else want_t[-30:])))
    nt = (len(want) > 0 and len(want) % limit == 0) or (spec["offset"] not in (None, 0)) or \
         (spec["kind"] == "stream" and spec["prepos"] > 0) or bool(tcs and len(want) > limit)
    return Case(vs, nt, ["kind=" + tag, "buffer_now=%s" % spec["buffer_now"],
                         "multiple-of-chunk" if len(want) > 0 and len(want) % limit == 0 else "ragged",
                         "whence=%s" % (spec["whence"] if spec["offset"] is not None else None),
                         "start>len" if start > len(data) else "start<=len",
                         "short-reads" if spec.get("short") else "full-reads",
                         "unseekable" if not seekable else "", "text-type" if tcs else ""],
                {"chunks": chunks[:8] if len(data) < 200 else [len(ch) for ch in chunks[:8]]})


# ------------------------------------------------------------------ content type round trip
_TOKEN = "abcdefghijklmnopqrstuvwxyz0123456789-+._!#$&^`|~"
TOKEN = st.text(st.sampled_from(_TOKEN), min_size=1, max_size=8).filter(lambda s: s[0].isalnum())
PNAME = st.text(st.sampled_from("abcdefghijklmnopqrstuvwxyz0123456789-_."), min_size=1, max_size=8).filter(
    lambda s: s[0].isalpha())


def _ok_value(v):
    if "=?" in v and "?=" in v:
        return False
    return True


PVALUE = st.one_of(
    st.text(st.sampled_from("abcXYZ019 -_./;:,=?*'()<>@[]{}!#$%&+^`|~é中\U0001f600"), max_size=10),
    st.text(st.characters(blacklist_categories=("Cs", "Cc", "Zl", "Zp"), blacklist_characters='"\\'), max_size=10),
).filter(_ok_value)


@st.composite
def s_ct_case(draw):
    params = draw(st.dictionaries(PNAME, PVALUE, max_size=4))
    if "charset" in params:
        params["charset"] = params["charset"].replace(",", "")
    elif draw(st.booleans()):
        params["charset"] = draw(st.sampled_from(["utf8", "utf-8", "ISO-8859-1", "ascii"]))
    return {"type": draw(TOKEN), "subtype": draw(TOKEN), "params": params}


def run_ct(spec):
    from testtools.content_type import ContentType
    from testtools.testresult.real import _make_content_type
    vs = []
    ct = ContentType(spec["type"], spec["subtype"], dict(spec["params"]))
    text = repr(ct)
    if not isinstance(text, str):
        vs.append(V("ct-roundtrip", "repr-type", "repr is not str"))
    try:
        back = _make_content_type(text)
    except Exception as e:
        vs.append(V("ct-roundtrip", "parse-raises", "_make_content_type(%r) raised %r" % (text, e)))
        return Case(vs, len(spec["params"]) >= 2, ["raises"])
    if back != ct or (back.type, back.subtype, dict(back.parameters)) != (spec["type"], spec["subtype"], dict(spec["params"])):
        # (compared field by field as well: the tree's own __eq__ is under test too)
        vs.append(V("ct-roundtrip", "differs", "%r -> %r/%r %r" % (text, back.type, back.subtype, back.parameters)))
    # equality is equality of type, subtype and every parameter: each single difference makes two types unequal
    variants = [("type", ContentType(spec["type"] + "x", spec["subtype"], dict(spec["params"]))),
                ("extra-parameter", ContentType(spec["type"], spec["subtype"], dict(spec["params"], zzextra="1")))]
    for k in list(spec["params"])[:2]:
        variants.append(("parameter-value", ContentType(spec["type"], spec["subtype"], dict(spec["params"], **{k: spec["params"][k] + "x"}))))
        if k != "charset" and spec["params"][k].swapcase() != spec["params"][k]:
            # parameter values are case-sensitive (two spellings of one charset are left alone, see ASSUMPTIONS)
            variants.append(("parameter-value-case", ContentType(spec["type"], spec["subtype"], dict(spec["params"], **{k: spec["params"][k].swapcase()}))))
        fewer = dict(spec["params"])
        del fewer[k]
        variants.append(("missing-parameter", ContentType(spec["type"], spec["subtype"], fewer)))
    for what, other_ct in variants:
        if ct == other_ct or other_ct == ct or not (ct != other_ct):
            vs.append(V("ct-roundtrip", "eq-" + what, "content types differing in %s compare equal: %r / %r" % (what, ct, other_ct)))
            break
        if what == "parameter-value-case":
            from testtools.content import Content
            if Content(ct, lambda: [b"x"]) == Content(other_ct, lambda: [b"x"]):
                vs.append(V("eq", "type-value-case", "contents of equal bytes whose types differ in the letter case of a parameter value compare equal: %r / %r" % (ct, other_ct)))
                break
    if not (ct == ContentType(spec["type"], spec["subtype"], dict(spec["params"]))):
        vs.append(V("ct-roundtrip", "eq", "structurally equal content types compare unequal"))
    other = ContentType(spec["type"], spec["subtype"] + "x", dict(spec["params"]))
    if ct == other:
        vs.append(V("ct-roundtrip", "eq-subtype", "content types with different subtypes compare equal"))
    try:
        back.parameters["x-added-by-caller"] = "1"      # what a caller does with one parse result ...
    except TypeError:
        pass                                             # (a read-only mapping: nothing a caller could do to it)
    again = _make_content_type(text)
    if again != ct:                                      # ... must not show up in the next one
        vs.append(V("ct-roundtrip", "parse-results-shared", "a second parse of %r gives %r after the first result was modified" % (text, again.parameters)))
    if _make_content_type(None) != ContentType("application", "octet-stream"):
        vs.append(V("ct-roundtrip", "default", "default mime type is not application/octet-stream"))
    return Case(vs, len(spec["params"]) >= 2,
                ["params=%d" % len(spec["params"]),
                 "non-ascii-value" if any(ord(c) > 127 for v in spec["params"].values() for c in v) else "ascii"],
                {"mime": text})


# ------------------------------------------------------------------ snapshots
@st.composite
def s_snap_case(draw):
    names = st.sampled_from(["a", "b", "a-1", "a-2", "traceback", "réason", "b-1"])
    src = draw(st.dictionaries(names, st.lists(st.binary(max_size=6), max_size=4), max_size=4))
    tgt = draw(st.dictionaries(names, st.lists(st.binary(max_size=6), max_size=3), max_size=4))
    return {"source": src, "target": tgt, "after": draw(st.lists(st.binary(max_size=6), max_size=3)),
            "live": draw(st.sampled_from(["iterator", "list", "tuple-then-rebind"]))}


def run_snap(spec):
    from testtools.content import Content
    from testtools.content_type import ContentType
    from testtools.testcase import _copy_content, gather_details
    vs = []
    ct = ContentType("text", "plain", {"charset": "latin-1"})
    cells = {n: list(ch) for n, ch in spec["source"].items()}
    live = spec.get("live", "iterator")
    if live == "list":          # the callback hands out its own persistent buffer
        source = {n: Content(ct, (lambda n=n: cells[n])) for n in cells}
    elif live == "tuple-then-rebind":
        source = {n: Content(ct, (lambda n=n: tuple(cells[n]))) for n in cells}
    else:
        source = {n: Content(ct, (lambda n=n: iter(list(cells[n])))) for n in cells}
    tcells = {n: list(ch) for n, ch in spec["target"].items()}
    target = {n: Content(ContentType("application", "x-t"), (lambda n=n: list(tcells[n]))) for n in tcells}
    target_before = dict(target)
    copies = {n: _copy_content(c) for n, c in source.items()}
    gather_details(source, target)
    expected = {n: b"".join(ch) for n, ch in cells.items()}
    for n in cells:                      # the source changes afterwards
        cells[n][:] = spec["after"]
    for n, c in copies.items():
        if b"".join(c.iter_bytes()) != expected[n] or c.content_type != ct:
            vs.append(V("snapshot", "_copy_content", "copy of %r changed with its source" % n))
        if b"".join(c.iter_bytes()) != expected[n]:
            vs.append(V("snapshot", "_copy_content-second", "copy of %r not re-iterable" % n))
    for n, c in target_before.items():
        if target.get(n) is not c:
            vs.append(V("snapshot", "gather-overwrote", "gather_details replaced existing detail %r" % n))
    new = {n: c for n, c in target.items() if target_before.get(n) is not c}
    if len(new) != len(source):
        vs.append(V("snapshot", "gather-count", "%d source details, %d new entries" % (len(source), len(new))))
    pool = sorted(b"".join(c.iter_bytes()) for c in new.values())
    if pool != sorted(expected.values()):
        vs.append(V("snapshot", "gather-bytes", "gathered bytes %r != snapshot of source %r" % (pool, sorted(expected.values()))))
    if not (set(spec["source"]) & set(spec["target"])):
        # nothing to disambiguate: every detail is gathered under its own name
        for n in sorted(expected):
            if n not in target or b"".join(target[n].iter_bytes()) != expected[n]:
                vs.append(V("snapshot", "gather-names", "detail %r (bytes %r) was gathered as %r" % (
                    n, expected[n], {k: b"".join(v.iter_bytes()) for k, v in new.items()})))
                break
    for n, c in new.items():
        if c.content_type != ct:
            vs.append(V("snapshot", "gather-type", "gathered detail lost its content type"))
    coll = bool(set(spec["source"]) & set(spec["target"]))
    return Case(vs, coll and any(spec["source"].values()), ["collision" if coll else "no-collision", "source=" + live],
                {"names": sorted(target)})


def subchecks(tier):
    q = tier == "quick"
    return [
        Sub("bytes", run_bytes, s_bytes_case(), 1000 if q else 100000),
        Sub("text_json_roundtrip", run_text_rt,
            st.fixed_dictionaries({"text": ANYTEXT, "data": JSONABLE, "times": st.sampled_from([1, 1, 1, 1, 30, 1000, 4097, 8192])}), 1000 if q else 100000),
        Sub("as_text_chunking", run_decode, s_decode_case(), 3000 if q else 300000),
        Sub("interleaved_decoding", run_interleaved, s_interleaved(), 1000 if q else 60000),
        Sub("stream_file", run_stream, s_stream_case(), 2000 if q else 200000),
        Sub("stream_file_grid", run_stream, enum=_enum_stream, enum_complete=True,
            note="corners of content_from_stream/file: characters straddling 4096/1024-byte chunk boundaries decoded from a stream "
                 "or file, offset 0 on a pre-positioned stream, whence without offset, unseekable streams, "
                 "replaced files and concurrent / abandoned file iterators"),
        Sub("undeclared_charset_grid", run_decode, enum=_enum_decode, enum_complete=True,
            note="no / single-byte declared charset over bytes that carry a BOM or are valid UTF-8, with and without other "
                 "parameters on the text type"),
        Sub("content_type_roundtrip", run_ct, s_ct_case(), 2000 if q else 200000),
        Sub("snapshots", run_snap, s_snap_case(), 1000 if q else 60000),
        Sub("content_type_fuzz", run_ct, custom=fuzz_custom("props.c16", "content_type_roundtrip", "testtools.testresult.real,testtools.content_type", 30000),
            note="atheris/libFuzzer coverage-guided campaign over ContentType -> MIME string -> _make_content_type (thorough only)"),
        Sub("as_text_fuzz", run_decode, custom=fuzz_custom("props.c16", "as_text_chunking", "testtools.content", 30000),
            note="atheris/libFuzzer coverage-guided campaign over incremental decoding vs whole-string decoding (thorough only)"),
    ]
