"""C19 - suite utilities preserve the test set: filter keeps chosen ids, sort permutes."""
import collections
import io
import itertools
import os
import re
import sys
import types
import unittest

from hypothesis import strategies as st

from vp.core import Case, Sub, V, VERIF

PROPERTY = "C19"
RULE = ("Hypothesis-generated suite trees (depth 0..4, fan-out 0..4) mixing plain TestSuite, TestSuite "
        "subclasses without hooks / with sort_tests / with a non-mutating filter_by_ids, empty suites and "
        "PlaceHolder-based leaves with unique or duplicated ids, plus id subsets incl. absent ids; "
        "iterate_tests / filter_by_ids / sorted_tests / testtools.run --list / --load-list are compared "
        "with a reference flattening, filtering and ordering computed on the spec. Also: FixtureSuite nodes, the utilities composed on one tree (sort, filter, sort), custom suites keep their identity through filter_by_ids, list files with CRLF / without a final newline, test_ids as set / frozenset / list / dict / __contains__-only object, ids that sort differently under other collations, the exit status of --list. "
        "Non-trivial: depth >= 2 "
        "with a custom suite, or an empty custom suite, or a duplicate id below depth 1; distinct = "
        "distinct canonical (tree, ids).")
ASSUMPTIONS = [
    "custom filter_by_ids implementations are correct and may return a new suite (as the docstring allows)",
    "where an empty custom suite lands in sorted_tests' result is not asserted (it has no first test)",
    "grouping after filter_by_ids is compared modulo empty suites (removed tests are replaced by empty suites)",
]

IDS = ["t%d" % i for i in range(8)] + ["mod.Class.test_x", "é.test", "", "\u00a0nbsp.test", "wide.test\u3000", "Z.test", "a.test", "t10"]   # the last two begin / end with non-ASCII white space
KINDS = ["plain", "plain", "sub", "sorting", "filtering", "fixture"]


def tree(depth):
    leaf = st.builds(lambda i, lk: {"k": "leaf", "id": i, "lk": lk}, st.sampled_from(IDS),
                     st.sampled_from(["placeholder", "placeholder", "clone", "decorated"]))
    if depth == 0:
        return leaf
    return st.one_of(leaf, st.builds(lambda k, c: {"k": k, "c": c}, st.sampled_from(KINDS),
                                     st.lists(tree(depth - 1), max_size=4)))


TREE = st.one_of(tree(0), tree(1), tree(2), tree(3), tree(4))
UNIQ = st.booleans()


@st.composite
def s_case(draw):
    t = draw(TREE)
    if draw(UNIQ):
        # relabel leaves so that all ids are unique
        counter = itertools.count()

        def relabel(n):
            if n["k"] == "leaf":
                return {"k": "leaf", "id": "u%02d" % next(counter), "lk": n.get("lk", "placeholder")}
            return {"k": n["k"], "c": [relabel(c) for c in n["c"]]}
        # shuffle labels so that sorting is not the identity
        t = relabel(t)
        n = next(counter)
        perm = draw(st.permutations(list(range(n)))) if n else []

        def apply(nod):
            if nod["k"] == "leaf":
                return {"k": "leaf", "id": "u%02d" % perm[int(nod["id"][1:])], "lk": nod.get("lk", "placeholder")}
            return {"k": nod["k"], "c": [apply(c) for c in nod["c"]]}
        t = apply(t)
    ids = draw(st.sets(st.sampled_from(IDS + ["u%02d" % i for i in range(12)] + ["absent"]), max_size=8))
    return {"tree": t, "ids": sorted(ids), "unpack_outer": draw(st.booleans()),
            "ids_as": draw(st.sampled_from(["set", "set", "frozenset", "list", "dict", "contains-only"]))}


RUNLOG = []


def classes():
    from testtools.testcase import PlaceHolder
    from testtools.testsuite import sorted_tests, filter_by_ids

    class Leaf(PlaceHolder):
        def run(self, result=None):
            RUNLOG.append(self.id())
            return super().run(result)

    class Sub_(unittest.TestSuite):
        pass

    class Sorting(unittest.TestSuite):
        def sort_tests(self):
            self._tests = list(sorted_tests(self, True))

    def fixture_suite(tests=()):
        # testtools' own suite with a sort_tests hook
        import fixtures
        from testtools.testsuite import FixtureSuite
        return FixtureSuite(fixtures.Fixture(), tests)

    class Filtering(unittest.TestSuite):
        def filter_by_ids(self, test_ids):
            return Filtering([filter_by_ids(t, test_ids) for t in self])
    class Stdlib(unittest.TestCase):
        def test_m(self):
            RUNLOG.append(self.id())
    return {"leaf": Leaf, "plain": unittest.TestSuite, "sub": Sub_, "sorting": Sorting, "filtering": Filtering, "stdlib": Stdlib,
            "fixture": fixture_suite}


def make_leaf(node, cls):
    lk = node.get("lk", "placeholder")
    if lk == "clone":
        # scenario-style clones of ONE stdlib test method: equal by unittest's __eq__, different ids
        import testtools
        return testtools.clone_test_with_new_id(cls["stdlib"]("test_m"), node["id"])
    if lk == "decorated":
        import testtools
        return testtools.DecorateTestCaseResult(cls["leaf"](node["id"]), lambda result: result)
    return cls["leaf"](node["id"])


_STDLIB = []


def build(node, cls, registry):
    if node["k"] == "leaf":
        obj = make_leaf(node, cls)
    else:
        obj = cls[node["k"]]([build(c, cls, registry) for c in node["c"]])
    registry[id(obj)] = node
    return obj


def leaves(node):
    if node["k"] == "leaf":
        return [node["id"]]
    return [i for c in node["c"] for i in leaves(c)]


def canon(node, keep=None):
    """Nested-list shape with empty suites pruned; leaves filtered by ``keep``."""
    if node["k"] == "leaf":
        return node["id"] if keep is None or node["id"] in keep else None
    kids = [canon(c, keep) for c in node["c"]]
    kids = [k for k in kids if k is not None and k != []]
    return kids


def canon_live(obj):
    try:
        it = iter(obj)
    except TypeError:
        return obj.id()
    kids = [canon_live(c) for c in it]
    return [k for k in kids if k != []]


def depth_of(node):
    return 0 if node["k"] == "leaf" else 1 + max([depth_of(c) for c in node["c"]] or [0])


def run_case(spec):
    from testtools.testsuite import iterate_tests, filter_by_ids, sorted_tests
    vs = []
    cls = classes()
    t = spec["tree"]
    want_leaves = leaves(t)

    # iterate_tests
    reg = {}
    live = build(t, cls, reg)
    got = [x.id() for x in iterate_tests(live)]
    if got != want_leaves:
        vs.append(V("iterate", "order-or-count", "iterate_tests yields %r, reference pre-order is %r" % (got, want_leaves)))

    # filter_by_ids
    reg = {}
    live = build(t, cls, reg)
    keep = set(spec["ids"])
    # "test_ids: something that supports the __contains__ protocol"
    container = {"set": keep, "frozenset": frozenset(keep), "list": sorted(keep), "dict": dict.fromkeys(keep),
                 "contains-only": type("OnlyContains", (), {"__contains__": lambda self, x: x in keep})()}[spec.get("ids_as", "set")]
    res = filter_by_ids(live, container)
    got = [x.id() for x in iterate_tests(res)]
    want = [i for i in want_leaves if i in keep]
    if got != want:
        vs.append(V("filter", "ids", "after filter_by_ids(%r): %r, expected %r" % (sorted(keep), got, want)))
    else:
        cw = canon(t, keep)
        cg = canon_live(res)
        if t["k"] == "leaf":
            cw = [] if cw is None else cw
        if cg != cw:
            vs.append(V("filter", "grouping", "grouping after filter is %r, expected %r" % (cg, cw)))

    if got == want:
        # custom suites that keep at least one test are kept as the objects they were (not rebuilt as something else)
        def walk(o, acc):
            acc.add(id(o))
            if isinstance(o, unittest.TestSuite):
                for x in o:
                    walk(x, acc)
            return acc
        present = walk(res, set())
        for oid, node in reg.items():
            if node["k"] in ("sub", "sorting", "fixture") and any(i in keep for i in leaves(node)) and oid not in present:
                vs.append(V("filter", "custom-suite-replaced", "a %s suite holding kept tests %r is no longer in the filtered tree (replaced by another object)" % (
                    node["k"], [i for i in leaves(node) if i in keep])))
                break
    if t["k"] in ("sub", "sorting", "fixture") and res is not live:
        vs.append(V("filter", "not-in-place", "filter_by_ids of a %s suite returned another object (%r)" % (t["k"], type(res).__name__)))
    # the utilities composed on one tree, as testtools.run composes them (discover sorts, --load-list filters)
    dup = [i for i, n in collections.Counter(want_leaves).items() if n > 1]
    if not dup:
        reg = {}
        live = build(t, cls, reg)
        try:
            r1 = sorted_tests(live)
            r2 = filter_by_ids(r1, keep)
            got2 = sorted(x.id() for x in iterate_tests(r2))
            r3 = sorted_tests(r2)
            got3 = sorted(x.id() for x in iterate_tests(r3))
            if got2 != sorted(want) or got3 != sorted(want):
                vs.append(V("composed", "sort-filter-sort", "sorted, then filtered by %r, then sorted again: %r / %r, expected the tests %r" % (
                    sorted(keep), got2, got3, sorted(want))))
        except Exception as e:
            vs.append(V("composed", "raises-%s" % type(e).__name__, "sorted_tests then filter_by_ids then sorted_tests raised %r" % (e,)))

    # sorted_tests
    reg = {}
    live = build(t, cls, reg)
    unpack = spec["unpack_outer"]
    try:
        res = sorted_tests(live, unpack) if unpack else sorted_tests(live)
        err = None
    except ValueError as e:
        err = e
    except Exception as e:
        err = e
        vs.append(V("sorted", "raises-%s" % type(e).__name__, "sorted_tests raised %r on %r" % (e, t)))
    if err is None:
        if dup:
            vs.append(V("sorted", "duplicates-accepted", "duplicate ids %r and no ValueError" % dup))
        else:
            # expected top-level elements
            def top(node, outer):
                if node["k"] == "leaf":
                    return [node]
                if node["k"] == "plain" or outer:
                    return [x for c in node["c"] for x in top(c, False)]
                return [node]
            want_top = top(t, unpack)
            if type(res) is not unittest.TestSuite:
                vs.append(V("sorted", "result-type", "sorted_tests returned %r" % type(res)))
            elems = list(res)
            got_nodes = [reg.get(id(e)) for e in elems]
            if any(n is None for n in got_nodes):
                vs.append(V("sorted", "foreign-element", "result contains objects that were not in the input"))
            else:
                ident = lambda n: id(n)
                if sorted(map(ident, got_nodes)) != sorted(map(ident, want_top)):
                    vs.append(V("sorted", "elements", "top-level elements %r, expected (any order) %r" % (
                        [n.get("id", n["k"]) for n in got_nodes], [n.get("id", n["k"]) for n in want_top])))
                else:
                    def key(n):
                        ls = leaves(n)
                        return ls[0] if ls else None
                    keys = [key(n) for n in got_nodes]
                    nonempty = [k for k in keys if k is not None]
                    if nonempty != sorted(nonempty):
                        vs.append(V("sorted", "order", "top-level keys not ordered: %r" % keys))
                got_all = sorted(x.id() for x in iterate_tests(res))
                if got_all != sorted(want_leaves):
                    vs.append(V("sorted", "test-set", "tests after sorting %r != before %r" % (got_all, sorted(want_leaves))))
    elif isinstance(err, ValueError) and not dup:
        vs.append(V("sorted", "spurious-ValueError", "ValueError %r without duplicate ids" % (err,)))

    def has_custom(n):
        return n["k"] not in ("leaf", "plain") or any(has_custom(c) for c in n.get("c", []))

    def empty_custom(n):
        if n["k"] == "leaf":
            return False
        return (n["k"] != "plain" and not leaves(n)) or any(empty_custom(c) for c in n["c"])

    def dup_below(n, d):
        return False if n["k"] == "leaf" else any(dup_below(c, d + 1) for c in n["c"]) or \
            (d >= 1 and len(set(leaves(n))) < len(leaves(n)))
    d = depth_of(t)
    nt = (d >= 2 and has_custom(t)) or empty_custom(t) or dup_below(t, 0)
    return Case(vs, nt, ["depth=%d" % d, "custom" if has_custom(t) else "plain-only",
                         "empty-custom" if empty_custom(t) else "", "dups" if dup else "unique",
                         "unpack" if unpack else ""], {"leaves": want_leaves[:12]})


# ---------------------------------------------------------------- testtools.run
_WORK = os.path.join(VERIF, ".work")


def run_cli(spec):
    from testtools import run as ttrun
    from testtools.testsuite import iterate_tests
    vs = []
    cls = classes()
    t = spec["tree"]
    want_leaves = leaves(t)
    mod = types.ModuleType("vp_c19_mod")
    reg = {}
    if t["k"] == "leaf":          # the loader wants a TestSuite/TestCase back from a callable
        t = {"k": "plain", "c": [t]}
    mod.test_suite = lambda: build(t, cls, reg)
    sys.modules["vp_c19_mod"] = mod
    os.makedirs(_WORK, exist_ok=True)
    listfile = os.path.join(_WORK, "c19-load-list-%d.txt" % os.getpid())
    try:
        def call(args):
            out = io.StringIO()
            del RUNLOG[:]
            try:
                ttrun.main(["testtools.run"] + args + ["vp_c19_mod.test_suite"], out)
                code = None
            except SystemExit as e:
                code = e.code
            return out.getvalue(), code, list(RUNLOG)
        out, code, ran = call(["--list"])
        if code not in (None, 0, False):
            vs.append(V("cli", "list-exit-status", "--list exited with %r" % (code,)))
        if out.splitlines() != want_leaves or ran:
            vs.append(V("cli", "list", "--list printed %r (ran %r), expected %r" % (out.splitlines(), ran, want_leaves)))
        keep = list(spec["ids"])
        with open(listfile, "wb") as f:
            framing = spec.get("framing", "lf")
            eol = "\r\n" if framing == "crlf" else "\n"
            text = "".join(i + eol for i in keep)
            if framing == "no-final-newline" and keep and keep[-1] != "":
                text = text[:-len(eol)]
            f.write(text.encode("utf8"))
            if spec.get("blank_line") and "" not in want_leaves:     # a blank line would name the test whose id is ""
                f.write(b"\n")
        want = [i for i in want_leaves if i in set(keep)]
        out, code, ran = call(["--load-list", listfile])
        if ran != want:
            vs.append(V("cli", "load-list-run", "--load-list %r ran %r, expected %r" % (keep, ran, want)))
        if code not in (0, False):
            vs.append(V("cli", "exit-status", "all-passing run exited with %r" % (code,)))
        out, code, ran = call(["--list", "--load-list", listfile])
        if out.splitlines() != want or ran:
            vs.append(V("cli", "load-list-list", "--list --load-list printed %r, expected %r" % (out.splitlines(), want)))
    finally:
        sys.modules.pop("vp_c19_mod", None)
        if os.path.exists(listfile):
            os.unlink(listfile)
    nt = len(want_leaves) >= 2 and 0 < len(want) < len(want_leaves) or not keep
    return Case(vs, nt, ["empty-list" if not keep else "nonempty-list", "leaves=%d" % min(len(want_leaves), 9)],
                {"ran": want[:10]})


@st.composite
def s_cli(draw):
    c = draw(s_case())
    c["blank_line"] = draw(st.booleans())
    c["framing"] = draw(st.sampled_from(["lf", "lf", "crlf", "no-final-newline"]))      # how the list file ends its lines
    if c["framing"] == "no-final-newline":
        c["blank_line"] = False
    return c


def _enum():
    """Every tree of depth <= 2, fan-out <= 2 over kinds x 3 leaf ids, with every subset of ids."""
    leaf_ids = ["t1", "t0", "t2"]
    lv = [{"k": "leaf", "id": i} for i in leaf_ids]
    kinds = ["plain", "sub", "sorting", "filtering"]

    def level(children_pool):
        out = []
        for k in kinds:
            out.append({"k": k, "c": []})
            for a in children_pool:
                out.append({"k": k, "c": [a]})
            for a, b in itertools.product(children_pool, repeat=2):
                out.append({"k": k, "c": [a, b]})
        return out
    d1 = level(lv)
    pool2 = lv[:2] + [n for n in d1 if len(n["c"]) <= 1][:10] + d1[3:6]
    d2 = level(pool2)
    for t in lv + d1 + d2:
        for ids in (["t0"], ["t1", "t2"], [], ["t0", "t1", "t2"]):
            for unpack in (False, True):
                yield {"tree": t, "ids": ids, "unpack_outer": unpack}


def custom_subprocess(ctx):
    """True child interpreters: python -m testtools.run --list / --load-list on a generated module."""
    if ctx["tier"] != "thorough":
        return []
    import shutil
    import subprocess
    from vp.core import REPO
    out = []
    work = os.path.join(_WORK, "c19-sub-%d" % os.getpid())
    os.makedirs(work, exist_ok=True)
    try:
        src = ("import unittest, testtools\n"
               "class A(testtools.TestCase):\n"
               "    def test_b(self): pass\n"
               "    def test_a(self): pass\n"
               "class Custom(unittest.TestSuite):\n"
               "    pass\n"
               "class B(testtools.TestCase):\n"
               "    def test_z(self): pass\n"
               "    def test_y(self): self.fail('y')\n"
               "def test_suite():\n"
               "    return unittest.TestSuite([B('test_z'), Custom([A('test_b'), unittest.TestSuite([A('test_a')])]), unittest.TestSuite(), B('test_y')])\n")
        with open(os.path.join(work, "genmod.py"), "w") as f:
            f.write(src)
        ids = ["genmod.B.test_z", "genmod.A.test_b", "genmod.A.test_a", "genmod.B.test_y"]
        env = dict(os.environ, PYTHONPATH=REPO + os.pathsep + work)

        def run(args):
            return subprocess.run([sys.executable, "-m", "testtools.run"] + args + ["genmod.test_suite"], env=env,
                                  capture_output=True, text=True, cwd=work)
        p = run(["--list"])
        vs = []
        if p.stdout.split() != ids or p.returncode != 0:
            vs.append(V("cli", "subprocess-list", "--list printed %r (exit %d), expected %r" % (p.stdout.split(), p.returncode, ids)))
        out.append(({"subprocess": "--list"}, Case(vs, True, ["subprocess"])))
        for keep in ([], ids[1:3], [ids[3]], ids, ["absent.id"], [ids[0], "absent.id"]):
            lf = os.path.join(work, "list.txt")
            with open(lf, "w") as f:
                f.write("".join(i + "\n" for i in keep))
            want = [i for i in ids if i in keep]
            vs = []
            p = run(["--list", "--load-list", lf])
            if p.stdout.split() != want:
                vs.append(V("cli", "subprocess-load-list-list", "--list --load-list %r printed %r" % (keep, p.stdout.split())))
            p = run(["--load-list", lf])
            m = re.search(r"Ran (\d+) test", p.stdout)
            if not m or int(m.group(1)) != len(want):
                vs.append(V("cli", "subprocess-load-list-run", "--load-list %r: %r" % (keep, p.stdout[-200:])))
            if (p.returncode == 0) != (ids[3] not in want):
                vs.append(V("cli", "subprocess-exit", "--load-list %r exited %d" % (keep, p.returncode)))
            out.append(({"subprocess": "--load-list", "ids": keep}, Case(vs, True, ["subprocess"])))
    finally:
        shutil.rmtree(work, ignore_errors=True)
    return out


def subchecks(tier):
    q = tier == "quick"
    return [
        Sub("suite_utilities", run_case, s_case(), 4000 if q else 150000),
        Sub("run_list_loadlist", run_cli, s_cli(), 800 if q else 12000),
        Sub("subprocess_cli", run_cli, custom=custom_subprocess, note="python -m testtools.run in child interpreters (thorough only)"),
        Sub("enumerated_small_trees", run_case, enum=_enum, enum_complete=True,
            note="all trees of depth<=2/fan-out<=2 over 4 suite kinds and 3 leaf ids x 4 id subsets x unpack_outer"),
    ]
