"""C19 - suite utilities preserve the test set: filter keeps chosen ids, sort permutes."""
import collections
import functools
import io
import itertools
import os
import re
import sys
import types
import unittest

from hypothesis import strategies as st

from vp.core import Case, Sub, V, VERIF

PROPERTY = "C19"
RULE = ("Hypothesis-generated suite trees (depth 0..4, fan-out 0..4) mixing plain TestSuite, TestSuite "
        "subclasses without hooks / with sort_tests / with a non-mutating filter_by_ids, empty suites and "
        "PlaceHolder-based leaves with unique or duplicated ids, plus id subsets incl. absent ids; "
        "iterate_tests / filter_by_ids / sorted_tests / testtools.run --list / --load-list are compared "
        "with a reference flattening, filtering and ordering computed on the spec. Also: FixtureSuite nodes, the utilities composed on one tree (sort, filter, sort), custom suites keep their identity through filter_by_ids, list files with CRLF / without a final newline, test_ids as set / frozenset / list / dict / __contains__-only object, ids that sort differently under other collations, the exit status of --list. "
        "Also: unique-id trees are labelled without replacement from a pool of ids that collide or reorder under casefold / natural order / strip / NFC "
        "(NFC and NFD twins, T1 / t1 / t1+nbsp) and the root is a suite in 6 of 7 draws; id subsets are drawn from the tree's own ids in 2 of 3 cases; "
        "the suite kind with a filter_by_ids hook keeps its tests outside _tests (reachable through iter() and the hook only); one leaf object at several "
        "places of a tree; after sorted_tests the inside of every element kept whole is compared (a suite with sort_tests has sorted itself, any other "
        "custom suite is untouched); a filtered tree is filtered again; "
        "unpack_outer by keyword; --list --load-list also through runner classes without list() / whose list() takes no loader, and its exit status; "
        "two exhaustive grids: every ordered pair of 13 such ids in six shapes (+ triples around a custom suite, shared objects) through the utilities, "
        "and every ordered pair through --list / --load-list. "
        "Non-trivial: depth >= 2 "
        "with a custom suite, or an empty custom suite, or a duplicate id below depth 1; distinct = "
        "distinct canonical (tree, ids).")
ASSUMPTIONS = [
    "custom filter_by_ids implementations are correct and may return a new suite (as the docstring allows)",
    "where an empty custom suite lands in sorted_tests' result is not asserted (it has no first test)",
    "grouping after filter_by_ids is compared modulo empty suites (removed tests are replaced by empty suites)",
    "a custom TestSuite subclass without a filter_by_ids hook (decided by hasattr on the live object, not by class name) is filtered in "
    "place: the object handed in is returned and stays in the filtered tree - this rests on the docstring (':return: suite_or_case', "
    "'mutate in place rather than guessing how to reconstruct') and on 'grouping' in the statement; an exact unittest.TestSuite may be "
    "mutated or rebuilt, what the object handed in holds afterwards is not asserted (the property is observed on the returned suite)",
    "whether sorted_tests keeps a custom suite WITHOUT tests is not asserted either (present or dropped); the result is some unittest.TestSuite "
    "(sub)class instance, not necessarily exactly TestSuite",
    "an all-passing --load-list run exits 0 / False or returns without SystemExit; when nothing was selected, 5 (unittest's 'no tests "
    "ran' since 3.12) is accepted too",
    "'placed by its first test' is read as the first test at the time sorted_tests is called (before the suite's own sort_tests hook ran), "
    "at the top level and inside suites that sort themselves with sorted_tests(self, True); the other reading (first test after the hook "
    "ran = the suite's smallest id) is reported as a violation - it is stored seeded change C19-r7-2",
    "one test object at several places of a tree counts as one leaf per place for iterate_tests / filter_by_ids / --list / --load-list "
    "(unittest runs it once per place); for sorted_tests' ValueError it may count once or once per place: a duplicate id carried by a "
    "single object is accepted with and without ValueError",
    "the inside of a FixtureSuite after sorted_tests is accepted as sorted_tests(self, True) would leave it or as a local sort of its "
    "direct children by their first test (children with a sort_tests hook sorted themselves, the others as they were)",
    "inside a custom suite WITHOUT sort_tests, whether sort_tests hooks of suites nested in it are reached is not asserted (only that no test is lost)",
    "ids have no ASCII white space at an edge (--load-list strips it, DESIGN 11.2); every suite kind without its own filter_by_ids hook iterates "
    "its _tests list in storage order (the in-place fallback cannot serve anything else); list(test) fallbacks of TestProgram are driven with --list only",
]

IDS = ["t%d" % i for i in range(8)] + ["mod.Class.test_x", "\u00e9.test", "", "\u00a0nbsp.test", "wide.test\u3000", "Z.test", "a.test", "t10",
                                       "e\u0301.test"]
# "\u00a0nbsp.test" / "wide.test\u3000" begin / end with non-ASCII white space; "\u00e9.test" is NFC, "e\u0301.test" its NFD twin
# (canonically equivalent, different ids).  No id has ASCII white space at an edge: --load-list strips it (DESIGN 11.2).
# Labels of the unique-id branch: IDS plus ids that collide / reorder under casefold, natural order, strip and NFC.
EXTRA = ["T1", "t1\u00a0", "B.x", "b.x", "t9", "t11", "nbsp.test", "wide.test"]
POOL = IDS + EXTRA
KINDS = ["plain", "plain", "sub", "sorting", "filtering", "fixture"]

LEAF = st.builds(lambda i, lk: {"k": "leaf", "id": i, "lk": lk}, st.sampled_from(IDS),
                 st.sampled_from(["placeholder", "placeholder", "clone", "decorated", "shared"]))
KIND = st.sampled_from(KINDS)


def suite(depth, min_size=0):
    return st.builds(lambda k, c: {"k": k, "c": c}, KIND, st.lists(tree(depth - 1), min_size=min_size, max_size=4))


def tree(depth):
    if depth == 0:
        return LEAF
    return st.one_of(LEAF, suite(depth))


# the root is a suite in 6 of 7 draws (a lone leaf exercises next to nothing)
TREE = st.one_of(tree(0), suite(1), suite(2), suite(3), suite(4), suite(2, 1), suite(3, 2))
UNIQ = st.booleans()
PERM = st.permutations(POOL)
MASK = st.lists(st.booleans(), min_size=12, max_size=12)
OWN = st.sampled_from([True, True, False])
STRAY = st.sets(st.sampled_from(POOL + ["absent"]), max_size=2)
ANY_IDS = st.sets(st.sampled_from(POOL + ["absent"]), max_size=8)
IDS_AS = st.sampled_from(["set", "set", "frozenset", "list", "dict", "contains-only"])


@st.composite
def s_case(draw):
    t = draw(TREE)
    if draw(UNIQ):
        # relabel the leaves with distinct ids drawn without replacement from POOL (u%02d beyond its size): the order,
        # casefold / strip / NFC-collision sensitive ids meet each other in trees of every size
        n = len(leaves(t))
        labels = (list(draw(PERM)) + ["u%02d" % i for i in range(max(0, n - len(POOL)))])[:n] if n else []
        counter = itertools.count()

        def relabel(nod):
            if nod["k"] == "leaf":
                return {"k": "leaf", "id": labels[next(counter)], "lk": nod.get("lk", "placeholder")}
            return {"k": nod["k"], "c": [relabel(c) for c in nod["c"]]}
        t = relabel(t)
    own = sorted(set(leaves(t)))
    if own and draw(OWN):
        # a subset of the tree's own ids (first 12 distinct ones) plus up to two stray ids
        mask = draw(MASK)
        ids = {i for i, m in zip(own, mask) if m} | draw(STRAY)
    else:
        ids = draw(ANY_IDS)
    return {"tree": t, "ids": sorted(ids), "unpack_outer": draw(st.booleans()), "ids_as": draw(IDS_AS)}


RUNLOG = []


def classes():
    from testtools.testcase import PlaceHolder
    from testtools.testsuite import sorted_tests, filter_by_ids

    class Leaf(PlaceHolder):
        def run(self, result=None):
            RUNLOG.append(self.id())
            return super().run(result)

    class Sub_(unittest.TestSuite):
        pass

    class Sorting(unittest.TestSuite):
        def sort_tests(self):
            self._tests = list(sorted_tests(self, True))

    def fixture_suite(tests=()):
        # testtools' own suite with a sort_tests hook
        import fixtures
        from testtools.testsuite import FixtureSuite
        return FixtureSuite(fixtures.Fixture(), tests)

    class Filtering(unittest.TestSuite):
        """A suite with its own filter_by_ids hook that does NOT keep its tests in ``_tests`` (lazy / generated suites,
        testresources-style containers): only ``iter()`` and the hook give access to them."""
        _cleanup = False            # TestSuite.run would index _tests otherwise

        def __init__(self, tests=()):
            super().__init__()
            self._kids = list(tests)

        def __iter__(self):
            return iter(self._kids)

        def addTest(self, test):
            self._kids.append(test)

        def filter_by_ids(self, test_ids):
            return Filtering([filter_by_ids(t, test_ids) for t in self])

    class Stdlib(unittest.TestCase):
        def test_m(self):
            RUNLOG.append(self.id())
    return {"leaf": Leaf, "plain": unittest.TestSuite, "sub": Sub_, "sorting": Sorting, "filtering": Filtering, "stdlib": Stdlib,
            "fixture": fixture_suite}


def make_leaf(node, cls, shared):
    lk = node.get("lk", "placeholder")
    if lk == "clone":
        # scenario-style clones of ONE stdlib test method: equal by unittest's __eq__, different ids
        import testtools
        return testtools.clone_test_with_new_id(cls["stdlib"]("test_m"), node["id"])
    if lk == "decorated":
        import testtools
        return testtools.DecorateTestCaseResult(cls["leaf"](node["id"]), lambda result: result)
    if lk == "shared":
        # ONE object wherever this id occurs with this leaf kind (suite.addTest(t) twice): each occurrence is a leaf
        if node["id"] not in shared:
            shared[node["id"]] = cls["leaf"](node["id"])
        return shared[node["id"]]
    return cls["leaf"](node["id"])


_ALIVE = []     # every object built for the current case stays alive, so that id() keys of ``registry`` are never reused


def build(node, cls, registry, shared=None):
    shared = {} if shared is None else shared
    if node["k"] == "leaf":
        obj = make_leaf(node, cls, shared)
    else:
        obj = cls[node["k"]]([build(c, cls, registry, shared) for c in node["c"]])
    registry[id(obj)] = node
    _ALIVE.append(obj)
    return obj


def leaves(node):
    if node["k"] == "leaf":
        return [node["id"]]
    return [i for c in node["c"] for i in leaves(c)]


def leaf_nodes(node):
    if node["k"] == "leaf":
        return [node]
    return [n for c in node["c"] for n in leaf_nodes(c)]


def canon(node, keep=None):
    """Nested-list shape with empty suites pruned; leaves filtered by ``keep``."""
    if node["k"] == "leaf":
        return node["id"] if keep is None or node["id"] in keep else None
    kids = [canon(c, keep) for c in node["c"]]
    kids = [k for k in kids if k is not None and k != []]
    return kids


def canon_live(obj):
    try:
        it = iter(obj)
    except TypeError:
        return obj.id()
    kids = [canon_live(c) for c in it]
    return [k for k in kids if k != []]


def depth_of(node):
    return 0 if node["k"] == "leaf" else 1 + max([depth_of(c) for c in node["c"]] or [0])


HOOKED = ("sorting", "fixture")       # kinds with a sort_tests hook


def top_elems(node, outer):
    """Reference for what sorted_tests keeps as one element: leaves, and custom suites whole."""
    if node["k"] == "leaf":
        return [node]
    if node["k"] == "plain" or outer:
        return [x for c in node["c"] for x in top_elems(c, False)]
    return [node]


def undecided(node):
    """A hook-less custom suite with a sort_tests suite somewhere inside: kept whole, but whether the hooks inside it are
    reached is not something the statement settles."""
    if node["k"] == "leaf":
        return False

    def has_hooked(n):
        return n["k"] in HOOKED or any(has_hooked(c) for c in n.get("c", []))
    if node["k"] not in HOOKED and node["k"] != "plain" and any(has_hooked(c) for c in node["c"]):
        return True
    return any(undecided(c) for c in node["c"])


def inner_ids(node):
    """Leaf ids, in order, of a top-level element after sorted_tests: a suite with a sort_tests hook has sorted itself
    (sorted_tests(self, True): elements placed by their first test as it was before they sorted themselves, empty ones
    last), any other custom suite is as it was."""
    if node["k"] == "leaf":
        return [node["id"]]
    if node["k"] not in HOOKED:
        return leaves(node)
    keyed = []
    for n in top_elems(node, True):
        ls = leaves(n)
        keyed.append(((not ls, ls[0] if ls else ""), n))
    keyed.sort(key=lambda kn: kn[0])        # stable
    return [i for _, n in keyed for i in inner_ids(n)]


def _first_key(n):
    ls = leaves(n)
    return (not ls, ls[0] if ls else "")


def inner_ok(node, seq):
    """Is ``seq`` an admissible inside of ``node`` after sorted_tests?  ``inner_ids(node)`` is; for testtools' own FixtureSuite
    (whose sort_tests the statement leaves to the suite) a local sort is too: its direct children ordered by their first test,
    children with a sort_tests hook having sorted themselves, the others as they were."""
    seq = list(seq)
    if node["k"] == "leaf" or node["k"] not in HOOKED:
        return seq == leaves(node)

    def chunks_ok(parts, inside):
        pos = 0
        for n in sorted(parts, key=_first_key):        # stable
            size = len(leaves(n))
            if not inside(n, seq[pos:pos + size]):
                return False
            pos += size
        return pos == len(seq)
    if chunks_ok(top_elems(node, True), inner_ok):
        return True
    return node["k"] == "fixture" and chunks_ok(
        node["c"], lambda n, part: inner_ok(n, part) if n["k"] in HOOKED else part == leaves(n))


def run_case(spec):
    from testtools.testsuite import iterate_tests, filter_by_ids, sorted_tests
    vs = []
    cls = classes()
    t = spec["tree"]
    want_leaves = leaves(t)
    del _ALIVE[:]

    # iterate_tests
    reg = {}
    live = build(t, cls, reg)
    got = [x.id() for x in iterate_tests(live)]
    if got != want_leaves:
        vs.append(V("iterate", "order-or-count", "iterate_tests yields %r, reference pre-order is %r" % (got, want_leaves)))

    # filter_by_ids
    reg = {}
    live = build(t, cls, reg)
    keep = set(spec["ids"])
    # "test_ids: something that supports the __contains__ protocol"
    container = {"set": keep, "frozenset": frozenset(keep), "list": sorted(keep), "dict": dict.fromkeys(keep),
                 "contains-only": type("OnlyContains", (), {"__contains__": lambda self, x: x in keep})()}[spec.get("ids_as", "set")]
    # custom suites WITHOUT a filter_by_ids hook, decided on the live objects before the call (not by kind name: a
    # suite class of the library may grow the non-mutating hook its docstring recommends)
    hookless = {id(o) for o in _ALIVE if id(o) in reg and isinstance(o, unittest.TestSuite)
                and type(o) is not unittest.TestSuite and not hasattr(o, "filter_by_ids")}
    res = filter_by_ids(live, container)
    got = [x.id() for x in iterate_tests(res)]
    want = [i for i in want_leaves if i in keep]
    if got != want:
        vs.append(V("filter", "ids", "after filter_by_ids(%r): %r, expected %r" % (sorted(keep), got, want)))
    else:
        cw = canon(t, keep)
        cg = canon_live(res)
        if t["k"] == "leaf":
            cw = [] if cw is None else cw
        if cg != cw:
            vs.append(V("filter", "grouping", "grouping after filter is %r, expected %r" % (cg, cw)))

    if got == want:
        # custom suites that keep at least one test are kept as the objects they were (not rebuilt as something else)
        def walk(o, acc):
            acc.add(id(o))
            if isinstance(o, unittest.TestSuite):
                for x in o:
                    walk(x, acc)
            return acc
        present = walk(res, set())
        for oid, node in reg.items():
            if oid in hookless and any(i in keep for i in leaves(node)) and oid not in present:
                vs.append(V("filter", "custom-suite-replaced", "a %s suite holding kept tests %r is no longer in the filtered tree (replaced by another object)" % (
                    node["k"], [i for i in leaves(node) if i in keep])))
                break
    if id(live) in hookless and res is not live:
        vs.append(V("filter", "not-in-place", "filter_by_ids of a %s suite without a filter_by_ids hook returned another object (%r)" % (
            t["k"], type(res).__name__)))
    # (what the object handed in holds afterwards is not looked at when it is an exact unittest.TestSuite: the property is
    # observed on the returned suite, and a plain suite can be rebuilt as well as mutated)
    # the utilities composed on one tree, as testtools.run composes them (discover sorts, --load-list filters)
    dup = [i for i, n in collections.Counter(want_leaves).items() if n > 1]
    # duplicate ids carried by at least two distinct test objects (one "shared" object met at several places of the tree may be
    # counted as one test or as one per place: ValueError and no ValueError are both accepted for it)
    dup_distinct = [i for i in dup if sum(n.get("lk") != "shared" for n in leaf_nodes(t) if n["id"] == i)
                    + any(n.get("lk") == "shared" for n in leaf_nodes(t) if n["id"] == i) > 1]
    if not dup:
        reg = {}
        live = build(t, cls, reg)
        try:
            r1 = sorted_tests(live)
            r2 = filter_by_ids(r1, keep)
            got2 = sorted(x.id() for x in iterate_tests(r2))
            r3 = sorted_tests(r2)
            got3 = sorted(x.id() for x in iterate_tests(r3))
            if got2 != sorted(want) or got3 != sorted(want):
                vs.append(V("composed", "sort-filter-sort", "sorted, then filtered by %r, then sorted again: %r / %r, expected the tests %r" % (
                    sorted(keep), got2, got3, sorted(want))))
            else:
                # ... and filtered a second time by a smaller set (a filtered tree is again a suite tree)
                keep2 = set(sorted(keep)[::2])
                r4 = filter_by_ids(r3, keep2)
                got4 = sorted(x.id() for x in iterate_tests(r4))
                want4 = sorted(i for i in want if i in keep2)
                if got4 != want4:
                    vs.append(V("composed", "second-filter", "filtered by %r and then by %r: %r, expected %r" % (
                        sorted(keep), sorted(keep2), got4, want4)))
        except Exception as e:
            vs.append(V("composed", "raises-%s" % type(e).__name__, "sorted_tests then filter_by_ids then sorted_tests raised %r" % (e,)))

    # sorted_tests
    reg = {}
    live = build(t, cls, reg)
    unpack = spec["unpack_outer"]
    try:
        res = sorted_tests(live, unpack_outer=unpack) if unpack else sorted_tests(live)      # (the hooks pass it positionally)
        err = None
    except ValueError as e:
        err = e
    except Exception as e:
        err = e
        vs.append(V("sorted", "raises-%s" % type(e).__name__, "sorted_tests raised %r on %r" % (e, t)))
    if err is None:
        if dup_distinct:
            vs.append(V("sorted", "duplicates-accepted", "duplicate ids %r and no ValueError" % dup_distinct))
        elif not dup:
            # expected top-level elements
            want_top = top_elems(t, unpack)
            if not isinstance(res, unittest.TestSuite):
                vs.append(V("sorted", "result-type", "sorted_tests returned %r" % type(res)))
            elems = list(res)
            got_nodes = [reg.get(id(e)) for e in elems]
            if any(n is None for n in got_nodes):
                vs.append(V("sorted", "foreign-element", "result contains objects that were not in the input"))
            else:
                # custom suites without any test have no place "by their first test": present or dropped, both are fine
                def split(nodes):
                    return sorted(id(n) for n in nodes if leaves(n)), sorted(id(n) for n in nodes if not leaves(n))
                got_ne, got_e = split(got_nodes)
                want_ne, want_e = split(want_top)
                extra = collections.Counter(got_e) - collections.Counter(want_e)
                if got_ne != want_ne or extra:
                    vs.append(V("sorted", "elements", "top-level elements %r, expected (any order, empty suites optional) %r" % (
                        [n.get("id", n["k"]) for n in got_nodes], [n.get("id", n["k"]) for n in want_top])))
                else:
                    def key(n):
                        ls = leaves(n)
                        return ls[0] if ls else None
                    keys = [key(n) for n in got_nodes]
                    nonempty = [k for k in keys if k is not None]
                    if nonempty != sorted(nonempty):
                        vs.append(V("sorted", "order", "top-level keys not ordered: %r" % keys))
                    # the inside of every element kept whole
                    for e, n in zip(elems, got_nodes):
                        if n["k"] == "leaf" or undecided(n):
                            continue
                        inside = [x.id() for x in iterate_tests(e)]
                        if not inner_ok(n, inside):
                            if n["k"] in HOOKED:
                                vs.append(V("sorted", "inner-order", "a %s suite (it has a sort_tests hook) holds %r after sorted_tests, expected %r" % (
                                    n["k"], inside, inner_ids(n))))
                            else:
                                vs.append(V("sorted", "custom-suite-modified", "a %s suite (no sort_tests hook) held %r and holds %r after sorted_tests" % (
                                    n["k"], leaves(n), inside)))
                            break
                got_all = sorted(x.id() for x in iterate_tests(res))
                if got_all != sorted(want_leaves):
                    vs.append(V("sorted", "test-set", "tests after sorting %r != before %r" % (got_all, sorted(want_leaves))))
    elif isinstance(err, ValueError) and not dup:
        vs.append(V("sorted", "spurious-ValueError", "ValueError %r without duplicate ids" % (err,)))

    def has_custom(n):
        return n["k"] not in ("leaf", "plain") or any(has_custom(c) for c in n.get("c", []))

    def empty_custom(n):
        if n["k"] == "leaf":
            return False
        return (n["k"] != "plain" and not leaves(n)) or any(empty_custom(c) for c in n["c"])

    def dup_below(n, d):
        return False if n["k"] == "leaf" else any(dup_below(c, d + 1) for c in n["c"]) or \
            (d >= 1 and len(set(leaves(n))) < len(leaves(n)))
    d = depth_of(t)
    nt = (d >= 2 and has_custom(t)) or empty_custom(t) or dup_below(t, 0)
    return Case(vs, nt, ["depth=%d" % d, "custom" if has_custom(t) else "plain-only",
                         "empty-custom" if empty_custom(t) else "", "dups" if dup else "unique",
                         "unpack" if unpack else ""], {"leaves": want_leaves[:12]})


# ---------------------------------------------------------------- testtools.run
_WORK = os.path.join(VERIF, ".work")


def other_runners():
    from testtools.testsuite import iterate_tests

    class ListWithoutLoader:
        """A runner of the contract before ``list(test, loader=)``."""

        def __init__(self, verbosity=None, failfast=None, buffer=None, stdout=None, tb_locals=False, **kwargs):
            self.stdout = stdout

        def list(self, test):
            for x in iterate_tests(test):
                self.stdout.write("%s\n" % x.id())

        def run(self, test):
            raise AssertionError("--list must not run anything")

    class NoList:
        def __init__(self, verbosity=None, failfast=None, buffer=None, stdout=None, tb_locals=False, **kwargs):
            self.stdout = stdout

        def run(self, test):
            raise AssertionError("--list must not run anything")
    return {"whose list() takes no loader": ListWithoutLoader, "without list()": NoList}


def run_cli(spec):
    from testtools import run as ttrun
    from testtools.testsuite import iterate_tests
    vs = []
    cls = classes()
    t = spec["tree"]
    want_leaves = leaves(t)
    mod = types.ModuleType("vp_c19_mod")
    reg = {}
    del _ALIVE[:]
    if t["k"] == "leaf":          # the loader wants a TestSuite/TestCase back from a callable
        t = {"k": "plain", "c": [t]}
    mod.test_suite = lambda: build(t, cls, reg)
    sys.modules["vp_c19_mod"] = mod
    os.makedirs(_WORK, exist_ok=True)
    listfile = os.path.join(_WORK, "c19-load-list-%d.txt" % os.getpid())
    try:
        def call(args):
            out = io.StringIO()
            del RUNLOG[:]
            try:
                ttrun.main(["testtools.run"] + args + ["vp_c19_mod.test_suite"], out)
                code = None
            except SystemExit as e:
                code = e.code
            return out.getvalue(), code, list(RUNLOG)
        out, code, ran = call(["--list"])
        if code not in (None, 0, False):
            vs.append(V("cli", "list-exit-status", "--list exited with %r" % (code,)))
        if out.splitlines() != want_leaves or ran:
            vs.append(V("cli", "list", "--list printed %r (ran %r), expected %r" % (out.splitlines(), ran, want_leaves)))
        keep = list(spec["ids"])
        with open(listfile, "wb") as f:
            framing = spec.get("framing", "lf")
            eol = "\r\n" if framing == "crlf" else "\n"
            text = "".join(i + eol for i in keep)
            if framing == "no-final-newline" and keep and keep[-1] != "":
                text = text[:-len(eol)]
            f.write(text.encode("utf8"))
            if spec.get("blank_line") and "" not in want_leaves:     # a blank line would name the test whose id is ""
                f.write(b"\n")
        want = [i for i in want_leaves if i in set(keep)]
        out, code, ran = call(["--load-list", listfile])
        if ran != want:
            vs.append(V("cli", "load-list-run", "--load-list %r ran %r, expected %r" % (keep, ran, want)))
        # a run in which nothing was selected may also end the way unittest.main does since 3.12 ("no tests ran": 5)
        if code not in ((None, 0, False) if want else (None, 0, False, 5)):
            vs.append(V("cli", "exit-status", "all-passing run exited with %r" % (code,)))
        out, code, ran = call(["--list", "--load-list", listfile])
        if code not in (None, 0, False):
            vs.append(V("cli", "list-exit-status", "--list --load-list exited with %r" % (code,)))
        if out.splitlines() != want or ran:
            vs.append(V("cli", "load-list-list", "--list --load-list printed %r, expected %r" % (out.splitlines(), want)))
        # the same listing through runner classes of the older contracts (no ``loader`` argument / no ``list`` at all)
        for rname, runner in other_runners().items():
            out = io.StringIO()
            del RUNLOG[:]
            try:
                ttrun.TestProgram(argv=["testtools.run", "--list", "--load-list", listfile, "vp_c19_mod.test_suite"],
                                  testRunner=functools.partial(runner, stdout=out), stdout=out)
                code = None
            except SystemExit as e:
                code = e.code
            except Exception as e:
                vs.append(V("cli", "list-other-runner-raises", "--list --load-list with a runner %s raised %r" % (rname, e)))
                continue
            if out.getvalue().splitlines() != want or RUNLOG or code not in (None, 0, False):
                vs.append(V("cli", "list-other-runner", "--list --load-list with a runner %s printed %r (ran %r, exit %r), expected %r" % (
                    rname, out.getvalue().splitlines(), list(RUNLOG), code, want)))
    finally:
        sys.modules.pop("vp_c19_mod", None)
        if os.path.exists(listfile):
            os.unlink(listfile)
    nt = len(want_leaves) >= 2 and 0 < len(want) < len(want_leaves) or not keep
    return Case(vs, nt, ["empty-list" if not keep else "nonempty-list", "leaves=%d" % min(len(want_leaves), 9)],
                {"ran": want[:10]})


@st.composite
def s_cli(draw):
    c = draw(s_case())
    c["blank_line"] = draw(st.booleans())
    c["framing"] = draw(st.sampled_from(["lf", "lf", "crlf", "no-final-newline"]))      # how the list file ends its lines
    if c["framing"] == "no-final-newline":
        c["blank_line"] = False
    return c


def _enum():
    """Every tree of depth <= 2, fan-out <= 2 over kinds x 3 leaf ids, with every subset of ids."""
    leaf_ids = ["t1", "t0", "t2"]
    lv = [{"k": "leaf", "id": i} for i in leaf_ids]
    kinds = ["plain", "sub", "sorting", "filtering"]

    def level(children_pool):
        out = []
        for k in kinds:
            out.append({"k": k, "c": []})
            for a in children_pool:
                out.append({"k": k, "c": [a]})
            for a, b in itertools.product(children_pool, repeat=2):
                out.append({"k": k, "c": [a, b]})
        return out
    d1 = level(lv)
    pool2 = lv[:2] + [n for n in d1 if len(n["c"]) <= 1][:10] + d1[3:6]
    d2 = level(pool2)
    for t in lv + d1 + d2:
        for ids in (["t0"], ["t1", "t2"], [], ["t0", "t1", "t2"]):
            for unpack in (False, True):
                yield {"tree": t, "ids": ids, "unpack_outer": unpack}


# ids whose relative order, or whose being "the same id", changes under casefold / natural (numeric) order / str.strip /
# NFC normalisation / locale collation
ORDER_IDS = ["Z.test", "a.test", "t10", "t9", "T1", "t1", "\u00a0nbsp.test", "nbsp.test", "\u00e9.test", "e\u0301.test",
             "wide.test\u3000", "wide.test", ""]


def _L(i, lk="placeholder"):
    return {"k": "leaf", "id": i, "lk": lk}


def _S(k, *c):
    return {"k": k, "c": list(c)}


def _enum_pairs():
    """Every ordered pair of ORDER_IDS in six two-leaf shapes, every ordered triple of five of them around a custom suite,
    shared leaf objects, hook-less and hooked suites nested in each other."""
    for a, b in itertools.permutations(ORDER_IDS, 2):
        la, lb = _L(a), _L(b)
        shapes = [_S("plain", la, lb), _S("plain", _S("sub", la), lb), _S("plain", _S("fixture", la, lb)),
                  _S("plain", _S("filtering", la), _S("sub", lb)), _S("sub", _S("sorting", la, lb))]
        for t in shapes:
            for ids in ([a], [a, b]):
                yield {"tree": t, "ids": ids, "unpack_outer": False}
        for ids in ([b], [a, b]):
            for unpack in (False, True):
                yield {"tree": _S("sorting", la, _S("plain", lb)), "ids": ids, "unpack_outer": unpack}
    # a custom suite is placed by its first test (as it stood when sorted_tests was called), and sorts itself if it can
    for x, y, z in itertools.permutations(["a.test", "t1", "t9", "T1", "t10"], 3):
        for k in ("sub", "sorting", "fixture", "filtering"):
            for ids in ([x], [y, z]):
                yield {"tree": _S("plain", _S(k, _L(z), _L(x)), _L(y)), "ids": ids, "unpack_outer": False}
                yield {"tree": _S("sorting", _S(k, _L(z), _L(x)), _L(y)), "ids": ids, "unpack_outer": False}
    # one test object at two places: two leaves
    for a in ("t1", "", "\u00e9.test"):
        s1, s2 = _L(a, "shared"), _L(a, "shared")
        for t in (_S("plain", s1, s2), _S("plain", _S("sub", s1), _L("t0"), s2), _S("sorting", s1, _S("filtering", s2)),
                  _S("plain", _S("plain", s1), _S("plain", s2))):
            for ids in ([a], [], ["t0"]):
                for unpack in (False, True):
                    yield {"tree": t, "ids": ids, "unpack_outer": unpack}


def _enum_cli():
    """--list / --load-list over every ordered pair of ORDER_IDS (one listed, both listed), ids occurring twice."""
    for a, b in itertools.permutations(ORDER_IDS, 2):
        yield {"tree": _S("plain", _L(a), _S("sub", _L(b))), "ids": [a], "unpack_outer": False, "framing": "lf", "blank_line": False}
    for a, b in itertools.combinations(ORDER_IDS, 2):
        yield {"tree": _S("fixture", _L(b), _L(a)), "ids": [a, b], "unpack_outer": False, "framing": "crlf", "blank_line": False}
    for a in ORDER_IDS:
        for lk in ("placeholder", "shared"):
            for ids in ([a], []):
                yield {"tree": _S("plain", _L(a, lk), _S("sub", _L("t0"), _L(a, lk))), "ids": ids, "unpack_outer": False,
                       "framing": "no-final-newline" if a else "lf", "blank_line": False}


def custom_subprocess(ctx):
    """True child interpreters: python -m testtools.run --list / --load-list on a generated module."""
    if ctx["tier"] != "thorough":
        return []
    import shutil
    import subprocess
    from vp.core import REPO
    out = []
    work = os.path.join(_WORK, "c19-sub-%d" % os.getpid())
    os.makedirs(work, exist_ok=True)
    try:
        src = ("import unittest, testtools\n"
               "class A(testtools.TestCase):\n"
               "    def test_b(self): pass\n"
               "    def test_a(self): pass\n"
               "class Custom(unittest.TestSuite):\n"
               "    pass\n"
               "class B(testtools.TestCase):\n"
               "    def test_z(self): pass\n"
               "    def test_y(self): self.fail('y')\n"
               "def test_suite():\n"
               "    return unittest.TestSuite([B('test_z'), Custom([A('test_b'), unittest.TestSuite([A('test_a')])]), unittest.TestSuite(), B('test_y')])\n")
        with open(os.path.join(work, "genmod.py"), "w") as f:
            f.write(src)
        ids = ["genmod.B.test_z", "genmod.A.test_b", "genmod.A.test_a", "genmod.B.test_y"]
        env = dict(os.environ, PYTHONPATH=REPO + os.pathsep + work)

        def run(args):
            return subprocess.run([sys.executable, "-m", "testtools.run"] + args + ["genmod.test_suite"], env=env,
                                  capture_output=True, text=True, cwd=work)
        p = run(["--list"])
        vs = []
        if p.stdout.split() != ids or p.returncode != 0:
            vs.append(V("cli", "subprocess-list", "--list printed %r (exit %d), expected %r" % (p.stdout.split(), p.returncode, ids)))
        out.append(({"subprocess": "--list"}, Case(vs, True, ["subprocess"])))
        for keep in ([], ids[1:3], [ids[3]], ids, ["absent.id"], [ids[0], "absent.id"]):
            lf = os.path.join(work, "list.txt")
            with open(lf, "w") as f:
                f.write("".join(i + "\n" for i in keep))
            want = [i for i in ids if i in keep]
            vs = []
            p = run(["--list", "--load-list", lf])
            if p.stdout.split() != want:
                vs.append(V("cli", "subprocess-load-list-list", "--list --load-list %r printed %r" % (keep, p.stdout.split())))
            p = run(["--load-list", lf])
            m = re.search(r"Ran (\d+) test", p.stdout)
            if not m or int(m.group(1)) != len(want):
                vs.append(V("cli", "subprocess-load-list-run", "--load-list %r: %r" % (keep, p.stdout[-200:])))
            if (p.returncode == 0) != (ids[3] not in want):
                vs.append(V("cli", "subprocess-exit", "--load-list %r exited %d" % (keep, p.returncode)))
            out.append(({"subprocess": "--load-list", "ids": keep}, Case(vs, True, ["subprocess"])))
    finally:
        shutil.rmtree(work, ignore_errors=True)
    return out


def subchecks(tier):
    q = tier == "quick"
    return [
        Sub("suite_utilities", run_case, s_case(), 4000 if q else 150000),
        Sub("run_list_loadlist", run_cli, s_cli(), 800 if q else 12000),
        Sub("subprocess_cli", run_cli, custom=custom_subprocess, note="python -m testtools.run in child interpreters (thorough only)"),
        Sub("enumerated_small_trees", run_case, enum=_enum, enum_complete=True,
            note="all trees of depth<=2/fan-out<=2 over 4 suite kinds and 3 leaf ids x 4 id subsets x unpack_outer"),
        Sub("enumerated_id_pairs", run_case, enum=_enum_pairs, enum_complete=True,
            note="every ordered pair of 13 collation / normalisation sensitive ids x 6 shapes, triples around a custom suite, shared leaf objects"),
        Sub("enumerated_cli_id_pairs", run_cli, enum=_enum_cli, enum_complete=True,
            note="--list / --load-list over every ordered pair of the same 13 ids, ids occurring twice (distinct and shared objects)"),
    ]
