"""C11 - stream decorators forward each event once, change only their field, never alias."""
import copy
import datetime
import queue as queue_mod

from hypothesis import strategies as st

from vp.core import Case, Sub, V
from vp import streams

PROPERTY = "C11"
RULE = ("Hypothesis-generated trees (depth 1..3, fan-out 1..3) of CopyStreamResult / StreamTagger / "
        "TimestampingStreamResult / StreamToQueue over recording sinks and StreamFailFast leaves, fed "
        "generated event sequences (tags as set/frozenset/None, leading arguments positional or keyword, "
        "defaults explicit or omitted); every sink's log is compared with a pure functional model of its "
        "path, argument objects are snapshotted before/after each call; supplied timestamps include a non-UTC "
        "one and one far in the future, filled-in timestamps must lie in the real-clock window of the case, and "
        "the process time zone (TZ) is a generated dimension. Non-trivial: fan-out >= 2 below a "
        "StreamTagger, or tags supplied as set/frozenset to a tree containing a tagger, or a queue in the "
        "path; distinct = distinct canonical (tree, events).")
ASSUMPTIONS = [
    "any prefix of the ten status() parameters may be passed positionally, through every kind of tree",
    "a delivered object that the caller supplied may be the caller's own object; what is forbidden is "
    "that its value changes (caller's object mutated, or a recorded object changing after delivery)",
]

TAGSET = st.sets(st.sampled_from(["t", "u", "v", "w", "tag-two"]), max_size=2)
TAGGER_FORM = st.sampled_from(["sets", "sets", "lists", "tuple+frozenset", "iterators", "positional", "none-if-empty", "omit-if-empty"])


def node(depth):
    sink = st.builds(lambda: {"t": "sink"})
    ff = st.builds(lambda: {"t": "failfast"})
    if depth == 0:
        return st.one_of(sink, sink, ff)
    kids = st.lists(node(depth - 1), min_size=1, max_size=3)
    return st.one_of(
        sink,
        st.builds(lambda c: {"t": "copy", "children": c}, kids),
        st.builds(lambda c, a, d, f: {"t": "tagger", "children": c, "add": sorted(a), "discard": sorted(d), "form": f}, kids, TAGSET, TAGSET, TAGGER_FORM),
        st.builds(lambda c: {"t": "ts", "child": c}, node(depth - 1)),
        st.builds(lambda c, code: {"t": "queue", "child": c, "code": code}, node(depth - 1), st.sampled_from(["0", "1", "q", "10", None])),   # None: nothing to prefix (ConcurrentStreamTestSuite allows it)
    )


def _has(tree, kinds):
    if tree["t"] in kinds:
        return True
    kids = tree.get("children") or ([tree["child"]] if "child" in tree else [])
    return any(_has(k, kinds) for k in kids)


TREE = st.one_of(node(1), node(2), node(3))
NODE1 = node(1)
ROUTE11 = st.one_of(streams.ROUTE, st.just(""))       # "" is not None: StreamToQueue documents "otherwise it is prefixed"
EVENTS = st.lists(streams.event(routes=ROUTE11, stamps=(None, None, 0, 1, 2, "tz", "tz", "future", "usec", "naive")), min_size=1, max_size=8)


@st.composite
def s_case(draw):
    tree = draw(TREE)
    if tree["t"] in ("sink", "failfast"):
        tree = {"t": "copy", "children": [tree, draw(NODE1)]}
    events = draw(EVENTS)
    calls = []
    for ev in events:
        calls.append({"ev": ev, "npos": draw(st.sampled_from([0, 0, 1, 2, 3, 5, 9, 10])),
                      "omit_defaults": draw(st.booleans()),
                      "reuse_set": draw(st.booleans())})       # the caller refills one scratch set instead of building a new one
    return {"tree": tree, "calls": calls, "bracket": draw(st.sampled_from(["run", "run", "none"])),
            "drain": draw(st.sampled_from(["each", "each", "end"])),       # queues consumed after every call, or only at the end
            "TZ": draw(st.sampled_from(["UTC", "JST-9", "EST5EDT", "UTC"]))}     # the process's local time zone


class FailFastLeaf:
    pass


def build(tree, sinks, queues, path, ffs):
    from testtools.testresult.real import (CopyStreamResult, StreamTagger, TimestampingStreamResult,
                                           StreamFailFast, StreamToQueue)
    t = tree["t"]
    if t == "sink":
        r = streams.Recorder("s%d" % len(sinks))
        sinks.append((r, list(path)))
        return r
    if t == "failfast":
        rec = {"count": 0, "path": list(path)}
        ffs.append(rec)

        def cb():
            rec["count"] += 1
        return StreamFailFast(cb)
    if t == "copy":
        return CopyStreamResult([build(c, sinks, queues, path, ffs) for c in tree["children"]])
    if t == "tagger":
        p = path + [("tagger", frozenset(tree["add"]), frozenset(tree["discard"]))]
        add, discard = set(tree["add"]), set(tree["discard"])
        kids = [build(c, sinks, queues, p, ffs) for c in tree["children"]]
        form = tree.get("form", "sets")
        # "add" / "discard" are documented as None or any iterable of tags
        if form == "lists":
            tagger = StreamTagger(kids, add=sorted(add), discard=sorted(discard))
        elif form == "tuple+frozenset":
            tagger = StreamTagger(kids, add=tuple(sorted(add)), discard=frozenset(discard))
        elif form == "iterators":
            tagger = StreamTagger(kids, add=iter(sorted(add)), discard=(x for x in sorted(discard)))
        elif form == "positional":
            tagger = StreamTagger(kids, add, discard)
        elif form == "none-if-empty":
            tagger = StreamTagger(kids, add=add or None, discard=discard or None)
        elif form == "omit-if-empty":
            kw = {}
            if add:
                kw["add"] = add
            if discard:
                kw["discard"] = discard
            tagger = StreamTagger(kids, **kw)
        else:
            tagger = StreamTagger(kids, add=add, discard=discard)
        # the constructor's arguments stay the caller's: what the caller does with them later is not the tagger's business
        add.add("LATER-ADDED")
        discard.update(("t", "u", "v", "w"))
        add.clear()
        discard.clear()
        return tagger
    if t == "ts":
        return TimestampingStreamResult(build(tree["child"], sinks, queues, path + [("ts",)], ffs))
    if t == "queue":
        q = queue_mod.Queue()
        child = build(tree["child"], sinks, queues, path + [("queue", tree["code"])], ffs)
        s = StreamToQueue(q, tree["code"])
        queues.append((q, child, s))
        return s
    raise AssertionError(t)


def drain(queues):
    """Dequeue every StreamToQueue into its child, innermost last, until all are empty."""
    progress = True
    while progress:
        progress = False
        for q, child, s in queues:
            while not q.empty():
                progress = True
                item = dict(q.get())
                kind = item.pop("event")
                if kind == "status":
                    child.status(**item)
                else:
                    if item.get("result") is not s:
                        raise AssertionError("queue event carries wrong result")
                    getattr(child, kind)()


NOW = "NOW"


def model_path(ev, path):
    ev = dict(ev)
    for step in path:
        if step[0] == "tagger":
            tags = (set(ev["test_tags"] or ()) | step[1]) - step[2]
            ev["test_tags"] = frozenset(tags) if tags else None
        elif step[0] == "ts":
            if ev["timestamp"] is None:
                ev["timestamp"] = NOW
        elif step[0] == "queue":
            if step[1] is not None:
                ev["route_code"] = step[1] if ev["route_code"] is None else step[1] + "/" + ev["route_code"]
    return ev


DEFAULTS = dict(test_id=None, test_status=None, test_tags=None, runnable=True, file_name=None,
                file_bytes=None, eof=False, mime_type=None, route_code=None, timestamp=None)


def run_case(spec):
    import os
    import time
    old = os.environ.get("TZ")
    os.environ["TZ"] = spec.get("TZ", "UTC")
    time.tzset()
    try:
        return _run_case(spec)
    finally:
        if old is None:
            del os.environ["TZ"]
        else:
            os.environ["TZ"] = old
        time.tzset()


def _run_case(spec):
    vs = []
    sinks, queues, ffs = [], [], []
    root = build(spec["tree"], sinks, queues, [], ffs)
    t_start = datetime.datetime.now(streams.UTC)
    if spec["bracket"] == "run":
        root.startTestRun()
        drain(queues)
    caller_objs = []
    scratch = set()
    for call in spec["calls"]:
        kw = streams.kwargs_of(call["ev"])
        if call.get("reuse_set") and isinstance(kw["test_tags"], set):
            scratch.clear()
            scratch.update(kw["test_tags"])
            kw["test_tags"] = scratch
        before = copy.deepcopy(kw)
        args = [kw[f] for f in streams.FIELDS[:call["npos"]]]
        rest = {f: kw[f] for f in streams.FIELDS[call["npos"]:]}
        if call["omit_defaults"]:
            rest = {f: v for f, v in rest.items() if v != DEFAULTS[f] or isinstance(v, (set, frozenset))}
        if spec.get("drain") == "end" and kw["test_tags"] is scratch:
            kw["test_tags"] = set(scratch)      # a late consumer and a refilled scratch set do not go together
            before = copy.deepcopy(kw)
            args = [kw[f] for f in streams.FIELDS[:call["npos"]]]
            rest = {f: kw[f] for f in streams.FIELDS[call["npos"]:]}
            if call["omit_defaults"]:
                rest = {f: v for f, v in rest.items() if v != DEFAULTS[f] or isinstance(v, (set, frozenset))}
        try:
            root.status(*args, **rest)
            if spec.get("drain") != "end":
                drain(queues)
        except Exception as e:
            kind = type(call["ev"]["test_tags"]).__name__
            vs.append(V("forward", "raises-%s-tags=%s" % (type(e).__name__, kind),
                        "status(%r) raised %r" % (call["ev"], e)))
            return Case(vs, True, ["raised"])
        if kw != before:
            changed = [f for f in kw if kw[f] != before[f]]
            vs.append(V("caller-args", "mutated-" + ",".join(changed),
                        "caller's argument %s changed from %r to %r" % (changed, {f: before[f] for f in changed}, {f: kw[f] for f in changed})))
        caller_objs.append(kw)
    if spec["bracket"] == "run":
        root.stopTestRun()
    drain(queues)
    t_end = datetime.datetime.now(streams.UTC)

    inputs = [streams.norm_event(c["ev"]) for c in spec["calls"]]
    for rec, path in sinks:
        want = [model_path(ev, path) for ev in inputs]
        got = rec.statuses()
        starts = sum(1 for e in rec.events if e[0] == "startTestRun")
        stops = sum(1 for e in rec.events if e[0] == "stopTestRun")
        exp = 1 if spec["bracket"] == "run" else 0
        if (starts, stops) != (exp, exp):
            vs.append(V("forward", "start-stop-count", "sink got %d startTestRun / %d stopTestRun, expected %d each" % (starts, stops, exp)))
        elif exp and (rec.events[0][0] != "startTestRun" or rec.events[-1][0] != "stopTestRun"):
            vs.append(V("forward", "start-stop-order", "startTestRun/stopTestRun not bracketing the events: %r" % [e[0] for e in rec.events]))
        if len(got) != len(want):
            vs.append(V("forward", "event-count", "sink behind %r got %d status calls, %d were sent" % (path, len(got), len(want))))
            continue
        for i, (g, w) in enumerate(zip(got, want)):
            for f in streams.FIELDS:
                if w[f] == NOW:
                    tsv = g[f]
                    if not (isinstance(tsv, datetime.datetime) and tsv.tzinfo is not None
                            and tsv.utcoffset() == datetime.timedelta(0) and t_start <= tsv <= t_end):
                        vs.append(V("field", "timestamp-fill", "missing timestamp filled with %r (not a current UTC datetime)" % (tsv,)))
                elif g[f] != w[f] or (f == "timestamp" and g[f] is not None and g[f].isoformat() != w[f].isoformat()):
                    owner = {"test_tags": "tags", "timestamp": "timestamp", "route_code": "route"}.get(f, "other")
                    vs.append(V("field", "%s-%s" % (owner, f), "event %d field %s: sink behind %r received %r, model says %r" % (i, f, path, g[f], w[f])))
        # what was delivered must not change afterwards
        for i, (live, (_, snap)) in enumerate(zip(rec.live, [e for e in rec.events if e[0] == "status"])):
            lt = live["test_tags"]
            if lt is scratch:
                continue        # the caller's own set, refilled by the caller
            if (None if lt is None else frozenset(lt)) != snap["test_tags"]:
                vs.append(V("alias", "delivered-tags-changed-later",
                            "tags delivered to sink behind %r changed after delivery: %r -> %r" % (path, snap["test_tags"], lt)))
                break
    nfail = sum(1 for c in spec["calls"] if c["ev"]["test_status"] in ("fail", "uxsuccess"))
    for ff in ffs:
        if ff["count"] != nfail:
            vs.append(V("failfast", "callback-count", "failure callback fired %d times for %d fail/uxsuccess events" % (ff["count"], nfail)))

    def fan_below_tagger(t, below=False):
        kids = t.get("children") or ([t["child"]] if "child" in t else [])
        if below and len(t.get("children") or ()) >= 2:
            return True
        return any(fan_below_tagger(k, below or t["t"] == "tagger") for k in kids) or \
            (t["t"] == "tagger" and len(t["children"]) >= 2)
    has_tagger = _has(spec["tree"], ("tagger",))
    settags = any(isinstance(c["ev"]["test_tags"], (set, frozenset)) for c in spec["calls"])
    nt = fan_below_tagger(spec["tree"]) or (has_tagger and settags) or _has(spec["tree"], ("queue",))
    labels = ["tagger" if has_tagger else "no-tagger", "queue" if _has(spec["tree"], ("queue",)) else "no-queue",
              "ts" if _has(spec["tree"], ("ts",)) else "no-ts", "sinks=%d" % len(sinks), "failfast=%d" % len(ffs),
              "settags" if settags else "no-settags", "TZ=" + spec.get("TZ", "UTC")]
    return Case(vs, nt, labels, {"sinks": len(sinks)})


def subchecks(tier):
    q = tier == "quick"
    return [Sub("decorator_trees", run_case, s_case(), 3500 if q else 120000)]
